open Vio
let fmt_entry key e =
  match Ttl.restore_cmd key e with
  | Some cmd -> "cmd " ^ String.concat " " (List.map hex cmd)
  | None -> (match e with Ttl.Skip -> "none-ok" | _ -> "none-err")

let run_case (line : string) : string =
  let toks = ref (split_ws line) in
  let key = nlist_of_string "k" in
  match next toks with
  | "ttl" -> "ttl " ^ hex (Ttl.ttl_restore (unhex (next toks)))
  | "push" | "scan" ->
    let p = parse_resp toks in
    let d = parse_resp toks in
    fmt_entry key (Ttl.scan_entry p d)
  | "pull" ->
    let d = parse_resp toks in
    let p = parse_resp toks in
    fmt_entry key (Ttl.pull_entry d p)
  | k -> "unknown-kind " ^ k
