open Vio
let fmt_entry key e =
  match Ttl.restore_cmd key e with
  | Some cmd -> "cmd " ^ Stdlib.String.concat " " (Stdlib.List.map hex cmd)
  | None -> (match e with Ttl.Skip -> "none-ok" | _ -> "none-err")

let run_case (line : string) : string =
  let toks = ref (split_ws line) in
  let key = nlist_of_string "k" in
  match next toks with
  | "ttl" -> "ttl " ^ hex (Ttl.ttl_restore (unhex (next toks)))
  | "push" | "scan" ->
    let p = parse_resp toks in
    let d = parse_resp toks in
    fmt_entry key (Ttl.scan_entry p d)
  | "batch" ->
    (* n keys k0..k(n-1) in one SCAN batch: produce_entries fails as a whole on the first invalid reply, otherwise one RESTORE per entry, in order *)
    let n = int_of_string (next toks) in
    let rec go i acc =
      if i = n then Stdlib.List.rev acc
      else
        let p = parse_resp toks in
        let d = parse_resp toks in
        go (i + 1) (((nlist_of_string ("k" ^ string_of_int i), p), d) :: acc) in
    let es = go 0 [] in
    (match Ttl.batch_cmds es with
     | None -> "none-err"
     | Some [] -> "none-ok"
     | Some cmds -> Stdlib.String.concat " | " (Stdlib.List.map (fun cmd -> "cmd " ^ Stdlib.String.concat " " (Stdlib.List.map hex cmd)) cmds))
  | "pull" ->
    let d = parse_resp toks in
    let p = parse_resp toks in
    fmt_entry key (Ttl.pull_entry d p)
  | k -> "unknown-kind " ^ k
