(* um_model <domain>: reads case lines on stdin, prints one canonical result line per case *)
let () =
  let domain = if Array.length Sys.argv > 1 then Sys.argv.(1) else (prerr_endline "usage: um_model <domain>"; exit 2) in
  let f = match domain with
    | "ttl" -> D_ttl.run_case
    | _ -> prerr_endline ("unknown domain " ^ domain); exit 2 in
  (try
     while true do
       let line = String.trim (input_line stdin) in
       if line <> "" && line.[0] <> '#' then
         print_endline (try f line with Failure m -> "model-failure " ^ m | Not_found -> "model-failure not_found")
     done
   with End_of_file -> ())
