(* Conversions between OCaml values and the extracted Coq types; case-line helpers. *)
open BinNums

let rec pos_of_int (i : int) : positive =
  if i <= 1 then Coq_xH
  else if i land 1 = 1 then Coq_xI (pos_of_int (i lsr 1))
  else Coq_xO (pos_of_int (i lsr 1))

let n_of_int (i : int) : coq_N = if i <= 0 then N0 else Npos (pos_of_int i)

let rec int_of_pos (p : positive) : int =
  match p with
  | Coq_xH -> 1
  | Coq_xO q -> 2 * int_of_pos q
  | Coq_xI q -> 2 * int_of_pos q + 1

let int_of_n (n : coq_N) : int = match n with N0 -> 0 | Npos p -> int_of_pos p
let z_of_int (i : int) : coq_Z =
  if i = 0 then Z0 else if i > 0 then Zpos (pos_of_int i) else Zneg (pos_of_int (-i))
let int_of_z (z : coq_Z) : int =
  match z with Z0 -> 0 | Zpos p -> int_of_pos p | Zneg p -> - (int_of_pos p)

let rec nat_of_int (i : int) : Datatypes.nat = if i <= 0 then Datatypes.O else Datatypes.S (nat_of_int (i - 1))
let rec int_of_nat (n : Datatypes.nat) : int = match n with Datatypes.O -> 0 | Datatypes.S m -> 1 + int_of_nat m

(* arbitrary-precision decimal strings <-> N / Z, through the extracted arithmetic *)
let n_of_decstr (s : string) : coq_N =
  let ten = n_of_int 10 in
  let acc = ref N0 in
  Stdlib.String.iter (fun c ->
      let d = Stdlib.Char.code c - 48 in
      if d < 0 || d > 9 then failwith ("bad decimal " ^ s);
      acc := BinNat.N.add (BinNat.N.mul !acc ten) (n_of_int d)) s;
  !acc

let bytes_of_nlist (l : coq_N list) : string =
  let b = Stdlib.Buffer.create 16 in
  Stdlib.List.iter (fun n -> Stdlib.Buffer.add_char b (Stdlib.Char.chr ((int_of_n n) land 255))) l;
  Stdlib.Buffer.contents b

let decstr_of_n (n : coq_N) : string = bytes_of_nlist (Dec.to_dec n)
let decstr_of_z (z : coq_Z) : string = bytes_of_nlist (Dec.coq_Z_to_dec z)

let z_of_decstr (s : string) : coq_Z =
  if Stdlib.String.length s > 0 && s.[0] = '-' then
    (match n_of_decstr (Stdlib.String.sub s 1 (Stdlib.String.length s - 1)) with
     | N0 -> Z0 | Npos p -> Zneg p)
  else (match n_of_decstr s with N0 -> Z0 | Npos p -> Zpos p)

let nlist_of_string (s : string) : coq_N list =
  Stdlib.List.init (Stdlib.String.length s) (fun i -> n_of_int (Stdlib.Char.code s.[i]))

let hexdigit c =
  match c with
  | '0'..'9' -> Stdlib.Char.code c - 48
  | 'a'..'f' -> Stdlib.Char.code c - 87
  | 'A'..'F' -> Stdlib.Char.code c - 55
  | _ -> failwith "hex"

let unhex (s : string) : coq_N list =
  if s = "-" then []
  else Stdlib.List.init (Stdlib.String.length s / 2) (fun i -> n_of_int (16 * hexdigit s.[2*i] + hexdigit s.[2*i+1]))

let hex (l : coq_N list) : string =
  if l = [] then "-"
  else Stdlib.String.concat "" (Stdlib.List.map (fun n -> Stdlib.Printf.sprintf "%02x" (int_of_n n)) l)

(* RESP token notation: S h | E h | I h | B h | BN | AN | A n e1..en ; consumes from a token list ref *)
let next (toks : string list ref) : string =
  match !toks with
  | [] -> failwith "missing token"
  | t :: r -> toks := r; t

let rec parse_resp (toks : string list ref) : RespT.resp =
  match next toks with
  | "S" -> RespT.Simple (unhex (next toks))
  | "E" -> RespT.Error (unhex (next toks))
  | "I" -> RespT.Integer (unhex (next toks))
  | "B" -> RespT.Bulk (unhex (next toks))
  | "BN" -> RespT.BulkNil
  | "AN" -> RespT.ArrNil
  | "A" ->
    let n = int_of_string (next toks) in
    let rec go i acc = if i = 0 then Stdlib.List.rev acc else go (i - 1) (parse_resp toks :: acc) in
    RespT.Arr (go n [])
  | t -> failwith ("bad resp token " ^ t)

let rec resp_tokens (r : RespT.resp) : string list =
  match r with
  | RespT.Simple b -> ["S"; hex b]
  | RespT.Error b -> ["E"; hex b]
  | RespT.Integer b -> ["I"; hex b]
  | RespT.Bulk b -> ["B"; hex b]
  | RespT.BulkNil -> ["BN"]
  | RespT.ArrNil -> ["AN"]
  | RespT.Arr l -> "A" :: string_of_int (Stdlib.List.length l) :: Stdlib.List.concat_map resp_tokens l

let resp_to_string r = Stdlib.String.concat " " (resp_tokens r)

let split_ws (s : string) : string list =
  Stdlib.List.filter (fun x -> x <> "") (Stdlib.String.split_on_char ' ' s)
