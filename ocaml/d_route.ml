(* Model driver for the group `route` (C02).
   Case : "<enc> <lim> <pin> | H <ordered> ; op ; ... ## PH <observed phases> ## OBS p<id>=<runs>;..."   (history already resolved by the
          implementation run; PH and OBS are what the real proxies showed)
   Out  : "V <hash of the cluster view> ## PH <phases> ## OBS <runs> ## MM <model-side monitors>"
   The observation of every (proxy, slot) is checked for membership in Route.route_step; agreeing slots are echoed, so the V / PH / OBS
   part is identical to the implementation's line exactly when model and code agree. *)
open Vio
open Broker

let ni = int_of_n
let nn = n_of_int
let si n = string_of_int (ni n)

(* ---------- canonical text of a cluster view (same as harness/route/src/store.rs) ---------- *)
let ranges_s (rl : Ranges.rangelist) =
  if rl = [] then "E" else Stdlib.String.concat "," (Stdlib.List.map (fun (a, b) -> si a ^ "-" ^ si b) rl)
let vmeta_s (m : vmeta) = Stdlib.String.concat ":" [si m.vm_epoch; si m.vm_src_proxy; si m.vm_src_node; si m.vm_dst_proxy; si m.vm_dst_node]
let vslot_s ((rl, t) : vslot) =
  ranges_s rl ^ "/" ^ (match t with VNone -> "-" | VMigrating m -> "M:" ^ vmeta_s m | VImporting m -> "I:" ^ vmeta_s m)
let vslots_s l = "[" ^ Stdlib.String.concat " " (Stdlib.List.map vslot_s l) ^ "]"
let vnode_s (n : vnode) =
  Stdlib.Printf.sprintf "(%s,%s,%s,%s,%s)" (si n.vn_addr) (si n.vn_proxy) (if n.vn_master then "M" else "R") (vslots_s n.vn_slots)
    (si n.vn_peer_node ^ "@" ^ si n.vn_peer_proxy)
let vcluster_s (v : vcluster) =
  Stdlib.Printf.sprintf "e%s c%s %s" (si v.vc_epoch) (si v.vc_config) (Stdlib.String.concat "" (Stdlib.List.map vnode_s v.vc_nodes))

let fnv (s : string) : string =
  let h = ref 0xcbf29ce484222325L in
  Stdlib.String.iter (fun c -> h := Stdlib.Int64.mul (Stdlib.Int64.logxor !h (Stdlib.Int64.of_int (Stdlib.Char.code c))) 0x100000001b3L) s;
  Stdlib.Printf.sprintf "%016Lx" !h

(* ---------- op parsing (subset of d_broker.ml) ---------- *)
let optn s = if s = "-" then None else Some (nn (int_of_string s))
let pairs_of s =
  if s = "-" then [] else
    Stdlib.List.map (fun p -> match Stdlib.String.split_on_char ':' p with
        | [a; b] -> (nn (int_of_string a), nn (int_of_string b))
        | _ -> failwith "pair") (Stdlib.String.split_on_char ',' s)
let ranges_of s =
  if s = "-" || s = "E" then [] else
    Stdlib.List.map (fun p -> match Stdlib.String.split_on_char '-' p with
        | [a; b] -> (nn (int_of_string a), nn (int_of_string b))
        | _ -> failwith "range") (Stdlib.String.split_on_char ',' s)
let num s = nn (int_of_string s)
let bool_of s = (s = "1")

let parse_op (toks : string list) : op =
  match toks with
  | ["addproxy"; a; h; i] -> OAddProxy (num a, optn h, optn i)
  | ["rmproxy"; a] -> ORemoveProxy (num a)
  | ["addcluster"; n; k; cfg; ps] -> OAddCluster (num n, num k, num cfg, pairs_of ps)
  | ["rmcluster"; n] -> ORemoveCluster (num n)
  | ["addnodes"; n; k; ps] -> OAutoAddNodes (num n, num k, pairs_of ps)
  | ["scaleup"; n; k; ps] -> OAutoScaleUp (num n, num k, pairs_of ps)
  | ["delfree"; n] -> OAutoDeleteFree (num n)
  | ["migrate"; n] -> OMigrateSlots (num n)
  | ["scaledown"; n; k] -> OScaleDown (num n, num k)
  | ["commit"; n; e; tag; clr; rl] ->
    OCommit (num n, ranges_of rl, (match tag with "m" -> TagMigrating | "i" -> TagImporting | _ -> TagNone), num e, bool_of clr)
  | ["commitnth"; n; j; clr] -> OCommitNth (num n, num j, bool_of clr)
  | ["autochange"; n; k; ps] -> OAutoChange (num n, num k, pairs_of ps)
  | ["autoscaleout"; n; k] -> OAutoScaleOut (num n, num k)
  | ["replace"; a; _lim; ch] -> OReplaceFailed (num a, optn ch)
  | ["balance"; n] -> OBalance (num n)
  | _ -> failwith ("bad op: " ^ Stdlib.String.concat " " toks)

(* ---------- phases ---------- *)
let sphase_of = function
  | "PRE_CHECK" -> Some Route.SPreCheck | "PRE_BLOCKING" -> Some Route.SPreBlocking | "PRE_SWITCH" -> Some Route.SPreSwitch
  | "SCANNING" -> Some Route.SScanning | "FINAL_SWITCH" -> Some Route.SFinalSwitch | "SWITCH_COMMITTED" -> Some Route.SSwitchCommitted
  | _ -> None
let dphase_of = function
  | "PRE_CHECK" -> Some Route.DPreCheck | "PRE_SWITCH" -> Some Route.DPreSwitch | "SWITCH_COMMITTED" -> Some Route.DSwitchCommitted
  | _ -> None

(* "ranges:src>dst=A/B" *)
let barrier_timed_out = ref false
let parse_phase (tok : string) : (string * int * int) * Route.mphase =
  match Stdlib.String.split_on_char '=' tok with
  | [k; v] ->
    (match Stdlib.String.split_on_char ':' k, Stdlib.String.split_on_char '/' v with
     | [r; sd], [a; b] ->
       (match Stdlib.String.split_on_char '>' sd, sphase_of a, dphase_of b with
        | [s; d], Some sa, Some db ->
          let blk = (a = "PRE_BLOCKING" || a = "PRE_SWITCH") && not !barrier_timed_out in
          ((r, int_of_string s, int_of_string d), { Route.mp_src = sa; Route.mp_blk = blk; Route.mp_dst = db })
        | _ -> failwith ("phase with unknown state: " ^ tok))
     | _ -> failwith ("bad phase token " ^ tok))
  | _ -> failwith ("bad phase token " ^ tok)

let out_tok (o : Route.outcome) : string =
  match o with
  | Route.Exec n -> "X" ^ si n
  | Route.Moved p -> "M" ^ si p
  | Route.Queued _ -> "Q"
  | Route.Err Route.ENotCovered -> "Eslot_not_covered"
  | Route.Err Route.ERetryLimit -> "Ecmd_exceeds_retry_limit"
  | Route.Err Route.EClusterNotFound -> "EERR_CLUSTER_NOT_FOUND"
  | Route.Err Route.EInstallPanic -> "Einstall_panic"

let runs_of (a : string array) : string =
  let n = Stdlib.Array.length a in
  let b = Stdlib.Buffer.create 256 in
  let i = ref 0 in
  while !i < n do
    let j = ref !i in
    while !j + 1 < n && a.(!j + 1) = a.(!i) do incr j done;
    if Stdlib.Buffer.length b > 0 then Stdlib.Buffer.add_char b ',';
    Stdlib.Buffer.add_string b (Stdlib.Printf.sprintf "%d-%d:%s" !i !j a.(!i));
    i := !j + 1
  done;
  Stdlib.Buffer.contents b

let split_on_str (sep : string) (s : string) : string list =
  (* sep = " ## " style separators *)
  let ls = Stdlib.String.length sep and n = Stdlib.String.length s in
  let rec go start i acc =
    if i + ls > n then Stdlib.List.rev (Stdlib.String.sub s start (n - start) :: acc)
    else if Stdlib.String.sub s i ls = sep then go (i + ls) (i + ls) (Stdlib.String.sub s start (i - start) :: acc)
    else go start (i + 1) acc in
  go 0 0 []

let nslots = 16384

let run_case (line : string) : string =
  let bar = Stdlib.String.index line '|' in
  let head = split_ws (Stdlib.String.sub line 0 bar) in
  let rest = Stdlib.String.sub line (bar + 1) (Stdlib.String.length line - bar - 1) in
  let lim = (match head with [_; l; _] -> nn (int_of_string l) | _ -> failwith "case head") in
  (* replay-only pins x...: the case was run with a short max_blocking_time, so the BlockingHandle is gone although the state says PRE_SWITCH *)
  barrier_timed_out := (match head with [_; _; pin] -> Stdlib.String.length pin > 0 && pin.[0] = 'x' | _ -> false);
  let (hist, ph_txt, obs_txt) =
    (match split_on_str " ## " rest with
     | [h; p; o] ->
       let strip pre s = let s = Stdlib.String.trim s in
         let lp = Stdlib.String.length pre in
         if Stdlib.String.length s >= lp && Stdlib.String.sub s 0 lp = pre then Stdlib.String.trim (Stdlib.String.sub s lp (Stdlib.String.length s - lp))
         else failwith ("missing section " ^ pre) in
       (Stdlib.String.trim h, strip "PH" p, strip "OBS" o)
     | _ -> failwith "case sections") in
  (* 1. broker state *)
  let segs = Stdlib.List.map Stdlib.String.trim (Stdlib.String.split_on_char ';' hist) in
  let (ordered, ops) = (match segs with
      | hd :: ops -> ((match split_ws hd with ["H"; o] -> o = "1" | _ -> failwith "bad header"), ops)
      | [] -> failwith "empty history") in
  let st = Stdlib.List.fold_left (fun s optxt -> if optxt = "" || optxt = "sync" then s else fst (step s (parse_op (split_ws optxt)))) (init_store ordered) ops in
  let vc = (match view_cluster lim st (nn 1) with
      | Some (Some v) -> v
      | Some None -> failwith "view_cluster panics"
      | None -> failwith "no cluster 1") in
  let ns = vc.vc_nodes in
  (* 2. phases *)
  let table = if ph_txt = "-" then [] else Stdlib.List.map parse_phase (split_ws ph_txt) in
  let missing = ref 0 in
  let ph (rl : Ranges.rangelist) (m : vmeta) : Route.mphase =
    match Stdlib.List.assoc_opt (ranges_s rl, ni m.vm_src_node, ni m.vm_dst_node) table with
    | Some p -> p
    | None -> incr missing; { Route.mp_src = Route.SPreCheck; Route.mp_blk = false; Route.mp_dst = Route.DPreCheck } in
  (* 3. observations against the model's allowed sets *)
  let obs_out = Stdlib.List.map (fun ptxt ->
      match Stdlib.String.split_on_char '=' ptxt with
      | [pname; runs] ->
        let pid = int_of_string (Stdlib.String.sub pname 1 (Stdlib.String.length pname - 1)) in
        let pm = (match view_proxy lim st (nn pid) with
            | Some (Some v) -> Route.install v
            | _ -> failwith ("no view for proxy " ^ pname)) in
        let a = Stdlib.Array.make nslots "?" in
        Stdlib.List.iter (fun run ->
            match Stdlib.String.split_on_char ':' run with
            | [range; tok] ->
              (match Stdlib.String.split_on_char '-' range with
               | [lo; hi] ->
                 for s = int_of_string lo to int_of_string hi do
                   let allowed = Stdlib.List.sort_uniq compare (Stdlib.List.map out_tok (Route.route_step ph pm (nn s))) in
                   a.(s) <- (if Stdlib.List.mem tok allowed then tok else "{" ^ Stdlib.String.concat "|" allowed ^ "}")
                 done
               | _ -> failwith "run range")
            | _ -> failwith ("bad run " ^ run)) (Stdlib.String.split_on_char ',' runs);
        pname ^ "=" ^ runs_of a
      | _ -> failwith "bad proxy observation") (Stdlib.String.split_on_char ';' obs_txt) in
  (* 4. model-side monitors: the theorem's hypotheses and conclusion evaluated by the extracted booleans *)
  let wf = Route.view_wfb ns in
  let pok = Route.phases_ok ph ns in
  let proxies = Stdlib.List.sort_uniq compare (Stdlib.List.map (fun (n : vnode) -> ni n.vn_proxy) ns) in
  let bad = ref 0 and total = ref 0 in
  Stdlib.List.iter (fun p ->
      for s = 0 to nslots - 1 do
        incr total;
        if not (Route.chase_okb ph ns (nn s) (nn p)) then incr bad
      done) proxies;
  let mm = Stdlib.Printf.sprintf "view_wf=%b phases_ok=%b phases_missing=%d chases=%d chase_bad=%d" wf pok !missing !total !bad in
  Stdlib.Printf.sprintf "V %s ## PH %s ## OBS %s ## MM %s" (fnv (vcluster_s vc)) ph_txt (Stdlib.String.concat ";" obs_out) mm
