(* Driver of the extracted wire-encoding model (group `wire`, property C17).
   Case-line syntax (space separated; byte strings in hex, `-` = empty; numbers in decimal):
     flags   := 0|1|2|3                      bit 0 = force, bit 1 = compress
     rl      := <n> {<start> <end>}
     mm      := <epoch> <src_proxy> <src_node> <dst_proxy> <dst_node>
     sr      := N <rl> | M <rl> <mm> | I <rl> <mm>
     nm      := <n> {<addr> <k> {sr}}
     cfg     := <strategy 0|1|2> <max_migration_time> <max_blocking_time> <scan_interval> <scan_count>
     pcm     := <epoch> <flags> <name> <nm local> <nm peer> <cfg>
     ord     := digits 0..4 naming config fields in printing order, `-` for none
     rec     := <cluster> <addr> <k> {<node> <proxy>}
     repl    := <epoch> <flags> <n> {rec masters} <n> {rec replicas}
     task    := <cluster> <sr>
     switch  := <version> <task>
   Result lines: `toks <t>...` for encoders, `ok <value> [rest=<n>|ext=<0|1>]` / `err <Kind>` / `panic ...` for parsers. *)
open Vio
open Wire

let num toks = n_of_decstr (next toks)
let tokv toks = unhex (next toks)
let cnt toks = int_of_string (next toks)
let rec times n f = if n <= 0 then [] else let x = f () in x :: times (n - 1) f

let rd_flags toks =
  let v = cnt toks in { f_force = v land 1 = 1; f_compress = v land 2 = 2 }
let rd_rl toks = let n = cnt toks in times n (fun () -> let s = num toks in let e = num toks in (s, e))
let rd_mm toks =
  let e = num toks in let a = tokv toks in let b = tokv toks in let c = tokv toks in let d = tokv toks in
  { mm_epoch = e; mm_src_proxy = a; mm_src_node = b; mm_dst_proxy = c; mm_dst_node = d }
let rd_sr toks =
  match next toks with
  | "N" -> let rl = rd_rl toks in { sr_ranges = rl; sr_tag = TNone }
  | "M" -> let rl = rd_rl toks in let m = rd_mm toks in { sr_ranges = rl; sr_tag = TMigrating m }
  | "I" -> let rl = rd_rl toks in let m = rd_mm toks in { sr_ranges = rl; sr_tag = TImporting m }
  | t -> failwith ("bad tag " ^ t)
let rd_nm toks =
  let n = cnt toks in
  times n (fun () -> let a = tokv toks in let k = cnt toks in let srs = times k (fun () -> rd_sr toks) in (a, srs))
let rd_cfg toks =
  let s = (match cnt toks with 0 -> Disabled | 1 -> SetGetOnly | _ -> AllowAll) in
  let a = num toks in let b = num toks in let c = num toks in let d = num toks in
  { c_strategy = s; c_max_migration_time = a; c_max_blocking_time = b; c_scan_interval = c; c_scan_count = d }
let rd_pcm toks =
  let e = num toks in let f = rd_flags toks in let name = tokv toks in
  let l = rd_nm toks in let p = rd_nm toks in let c = rd_cfg toks in
  { p_epoch = e; p_flags = f; p_name = name; p_local = l; p_peer = p; p_config = c }
let field_of_digit c =
  match c with
  | '0' -> FStrategy | '1' -> FMaxMigration | '2' -> FMaxBlocking | '3' -> FScanInterval | '4' -> FScanCount
  | _ -> failwith "bad field digit"
let rd_ord toks =
  let s = next toks in
  if s = "-" then [] else List.init (String.length s) (fun i -> field_of_digit s.[i])
let rd_rec toks =
  let c = tokv toks in let a = tokv toks in let k = cnt toks in
  let ps = times k (fun () -> let x = tokv toks in let y = tokv toks in (x, y)) in
  { rr_cluster = c; rr_addr = a; rr_peers = ps }
let rd_repl toks =
  let e = num toks in let f = rd_flags toks in
  let nm = cnt toks in let ms = times nm (fun () -> rd_rec toks) in
  let nr = cnt toks in let rs = times nr (fun () -> rd_rec toks) in
  { rm_epoch = e; rm_flags = f; rm_masters = ms; rm_replicas = rs }
let rd_task toks = let c = tokv toks in let sr = rd_sr toks in { tm_cluster = c; tm_sr = sr }
let rd_switch toks = let v = tokv toks in let t = rd_task toks in { sa_version = v; sa_meta = t }
let rd_cproxy toks =
  let name = (match next toks with "~" -> None | h -> Some (unhex h)) in
  let epoch = num toks in
  let n = cnt toks in
  let nodes = times n (fun () ->
      let a = tokv toks in let role = next toks in let k = cnt toks in
      let srs = times k (fun () -> rd_sr toks) in
      let np = cnt toks in let ps = times np (fun () -> let x = tokv toks in let y = tokv toks in (x, y)) in
      { cn_addr = a; cn_master = (role = "m"); cn_slots = srs; cn_repl_peers = ps }) in
  let peers = rd_nm toks in let cfg = rd_cfg toks in
  { cp_name = name; cp_epoch = epoch; cp_nodes = nodes; cp_peers = peers; cp_config = cfg }
let rd_toks toks = let l = List.map unhex !toks in toks := []; l

(* printers *)
let pn = decstr_of_n
let pi = string_of_int
let pr_flags f = pi ((if f.f_force then 1 else 0) + (if f.f_compress then 2 else 0))
let pr_rl rl = String.concat " " (pi (List.length rl) :: List.concat_map (fun (s, e) -> [pn s; pn e]) rl)
let pr_mm m = String.concat " " [pn m.mm_epoch; hex m.mm_src_proxy; hex m.mm_src_node; hex m.mm_dst_proxy; hex m.mm_dst_node]
let pr_sr sr =
  match sr.sr_tag with
  | TNone -> "N " ^ pr_rl sr.sr_ranges
  | TMigrating m -> "M " ^ pr_rl sr.sr_ranges ^ " " ^ pr_mm m
  | TImporting m -> "I " ^ pr_rl sr.sr_ranges ^ " " ^ pr_mm m
let pr_nm nm =
  let items = List.map (fun (a, srs) -> (hex a, String.concat " " (hex a :: pi (List.length srs) :: List.map pr_sr srs))) nm in
  let items = List.stable_sort (fun (a, _) (b, _) -> compare a b) items in
  String.concat " " (pi (List.length nm) :: List.map snd items)
let pr_cfg c =
  String.concat " " [(match c.c_strategy with Disabled -> "0" | SetGetOnly -> "1" | AllowAll -> "2");
                     pn c.c_max_migration_time; pn c.c_max_blocking_time; pn c.c_scan_interval; pn c.c_scan_count]
let pr_pcm m = String.concat " " [pn m.p_epoch; pr_flags m.p_flags; hex m.p_name; pr_nm m.p_local; pr_nm m.p_peer; pr_cfg m.p_config]
let pr_rec r =
  String.concat " " (hex r.rr_cluster :: hex r.rr_addr :: pi (List.length r.rr_peers)
                     :: List.concat_map (fun (a, b) -> [hex a; hex b]) r.rr_peers)
let pr_repl m =
  String.concat " " ([pn m.rm_epoch; pr_flags m.rm_flags; pi (List.length m.rm_masters)] @ List.map pr_rec m.rm_masters
                     @ [pi (List.length m.rm_replicas)] @ List.map pr_rec m.rm_replicas)
let pr_task t = hex t.tm_cluster ^ " " ^ pr_sr t.tm_sr
let pr_toks l = String.concat " " ("toks" :: List.map hex l)
let pr_err e =
  match e with
  | ENone -> "None" | EInvalidArgs -> "InvalidArgs" | EInvalidVersion -> "InvalidVersion"
  | EInvalidClusterName -> "InvalidClusterName" | EInvalidEpoch -> "InvalidEpoch" | EInvalidRole -> "InvalidRole"
  | EFuel -> "MODEL-OUT-OF-FUEL"
let pr_res f r =
  match r with
  | Ok a -> "ok " ^ f a
  | Err e -> "err " ^ pr_err e
  | Panic -> "panic attempt to add with overflow"
let with_rest f (v, rest) = f v ^ " rest=" ^ pi (List.length rest)
let b01 b = if b then "1" else "0"

(* values the Rust side cannot even build (ClusterName::try_from fails, a number exceeds u64) *)
let le64 n = BinNat.N.leb n usize_max
let ok_rl rl = List.for_all (fun (s, e) -> le64 s && le64 e) rl
let ok_tag t = match t with TNone -> true | TMigrating m | TImporting m -> le64 m.mm_epoch
let ok_sr sr = ok_rl sr.sr_ranges && ok_tag sr.sr_tag
let ok_nm nm = List.for_all (fun (_, srs) -> List.for_all ok_sr srs) nm
let ok_cfg c = le64 c.c_max_migration_time && le64 c.c_max_blocking_time && le64 c.c_scan_interval && le64 c.c_scan_count
let ok_pcm m = le64 m.p_epoch && valid_cluster_name m.p_name && ok_nm m.p_local && ok_nm m.p_peer && ok_cfg m.p_config
let ok_rec r = valid_cluster_name r.rr_cluster
let ok_repl m = le64 m.rm_epoch && List.for_all ok_rec m.rm_masters && List.for_all ok_rec m.rm_replicas
let ok_task t = valid_cluster_name t.tm_cluster && ok_sr t.tm_sr
let guard ok f = if ok then f () else "unconstructible"

(* a stand-in codec for serde_json+gzip+base64 that satisfies the section hypothesis pack_roundtrip: the packed token
   is the decimal index into a table of the values packed so far *)
let table : (int, pcm_data) Hashtbl.t = Hashtbl.create 16
let pack (d : pcm_data) : tok = let i = Hashtbl.length table in Hashtbl.replace table i d; nlist_of_string (string_of_int i)
let unpack (t : tok) : pcm_data option =
  match int_of_string_opt (bytes_of_nlist t) with Some i -> Hashtbl.find_opt table i | None -> None

let run_case (line : string) : string =
  let toks = ref (split_ws line) in
  match next toks with
  | "rl_enc" -> let rl = rd_rl toks in guard (ok_rl rl) (fun () -> pr_toks (rl_to_strings rl))
  | "rl_new" ->
    let rl = rd_rl toks in
    guard (ok_rl rl) (fun () ->
        match compact_idx rl with
        | CDone l -> "ok " ^ pr_rl l
        | CPanicOverflow -> "panic attempt to add with overflow"
        | CPanicExpect -> "panic RangeList::compact"
        | CFuel -> "MODEL-OUT-OF-FUEL")
  | "rl_try" -> pr_res (fun (rl, _) -> pr_rl rl) (parse_range_list (split_on (n_of_int 32) (tokv toks)))
  | "mm_enc" -> let m = rd_mm toks in guard (le64 m.mm_epoch) (fun () -> pr_toks (mm_to_strings m))
  | "mm_dec" -> pr_res (with_rest pr_mm) (parse_mig_meta (rd_toks toks))
  | "sr_enc" -> let sr = rd_sr toks in guard (ok_sr sr) (fun () -> pr_toks (sr_to_strings sr))
  | "sr_dec" -> pr_res (with_rest pr_sr) (parse_sr (rd_toks toks))
  | "task_enc" -> let t = rd_task toks in guard (ok_task t) (fun () -> pr_toks (tm_to_strings t))
  | "task_dec" -> pr_res (with_rest pr_task) (parse_task (rd_toks toks))
  | "task_str" -> let t = rd_task toks in guard (ok_task t) (fun () -> "str " ^ hex (task_to_string t))
  | "task_unstr" -> pr_res pr_task (task_of_string (tokv toks))
  | "sw_enc" -> let a = rd_switch toks in guard (ok_task a.sa_meta) (fun () -> pr_toks (sa_to_strings a))
  | "sw_dec" -> pr_res (with_rest (fun a -> hex a.sa_version ^ " " ^ pr_task a.sa_meta)) (parse_switch (rd_toks toks))
  | "flags_enc" -> pr_toks [flags_to_arg (rd_flags toks)]
  | "flags_dec" -> "ok " ^ pr_flags (flags_from_arg (tokv toks))
  | "pcm_enc" -> let ord = rd_ord toks in let m = rd_pcm toks in guard (ok_pcm m) (fun () -> pr_toks (pcm_to_args ord m))
  | "pcm_dec" -> pr_res (fun (m, ext) -> pr_pcm m ^ " ext=" ^ b01 ext) (parse_pcm unpack (rd_toks toks))
  | "pcm_zrt" ->
    let m = rd_pcm toks in
    guard (ok_pcm m) (fun () -> pr_res (fun (m, ext) -> pr_pcm m ^ " ext=" ^ b01 ext) (parse_pcm unpack (pcm_to_compressed_args pack m)))
  | "coord_send" ->
    let compress = (cnt toks = 1) in
    let p = rd_cproxy toks in
    let r = coord_repl p in let c = coord_pcm compress p in
    guard (ok_repl r && ok_pcm c) (fun () ->
        "repl " ^ pr_res pr_repl (parse_repl (encode_repl r)) ^ " | cluster "
        ^ pr_res (fun (m, ext) -> pr_pcm m ^ " ext=" ^ b01 ext)
            (parse_pcm unpack (if compress then pcm_to_compressed_args pack c else pcm_to_args all_cfields c)))
  | "infomgr_e2e" ->
    (* migrations of k range lists from proxy 1 / node 1 to proxy 2 / node 2 (addresses of harness/wire/src/e2e.rs): the INFOMGR reply
       elements of the source proxy and what the coordinator reads from them *)
    let name = tokv toks in let epoch = num toks in let k = cnt toks in
    let rls = times k (fun () -> rd_rl toks) in
    let mm = { mm_epoch = epoch; mm_src_proxy = nlist_of_string "127.0.1.1:5299"; mm_src_node = nlist_of_string "127.0.1.1:7001";
               mm_dst_proxy = nlist_of_string "127.0.2.1:5299"; mm_dst_node = nlist_of_string "127.0.2.1:7001" } in
    guard (valid_cluster_name name && le64 epoch && List.for_all ok_rl rls) (fun () ->
        let tasks = List.map (fun rl -> { tm_cluster = name; tm_sr = norm_sr { sr_ranges = rl; sr_tag = TMigrating mm } }) rls in
        let strs = List.map task_to_string tasks in
        let raw = List.sort compare (List.map hex strs) in
        let dec = List.map task_of_string strs in
        let all_ok = List.for_all (fun r -> match r with Ok _ -> true | _ -> false) dec in
        let body =
          if all_ok then
            let v = List.sort compare (List.concat_map (fun r -> match r with Ok t -> [pr_task t] | _ -> []) dec) in
            "ok " ^ pi (List.length v) ^ " " ^ String.concat " ; " v
          else "err None" in
        "reply " ^ String.concat " " raw ^ " | " ^ body)
  | "coord_infomgr" -> pr_res pr_task (task_of_string (tokv toks))
  | "repl_enc" -> let m = rd_repl toks in guard (ok_repl m) (fun () -> pr_toks (encode_repl m))
  | "repl_dec" -> pr_res pr_repl (parse_repl (rd_toks toks))
  (* values of the model's predicates (model side only) *)
  | "cls_pcm" ->
    let ord = rd_ord toks in let m = rd_pcm toks in
    "wf=" ^ b01 (wf_pcm m) ^ " empty=" ^ b01 (has_empty_node m) ^ " norm=" ^ pr_pcm (drop_empty_nodes (normalize m))
    ^ " len=" ^ pi (List.length (pcm_to_args ord m))
  | "cls_trunc" ->
    let k = nat_of_int (cnt toks) in let ord = rd_ord toks in let m = rd_pcm toks in
    "gb=" ^ b01 (at_group_boundary ord m k) ^ " cv=" ^ b01 (at_config_value_cut ord m k)
  | "cls_lang" ->
    let l = rd_toks toks in
    "lang=" ^ b01 (in_language unpack l) ^ " flags=" ^ b01 (flags_token_unrecognized l) ^ " tol=" ^ b01 (config_error_tolerated unpack l)
    ^ " regroup=" ^ b01 (in_language_regrouped unpack l)
  | "cls_rtrunc" -> let k = nat_of_int (cnt toks) in let m = rd_repl toks in "rb=" ^ b01 (at_record_boundary m k)
  | "cls_rlang" -> let l = rd_toks toks in "lang=" ^ b01 (repl_in_language l) ^ " flags=" ^ b01 (repl_flags_token_unrecognized l)
  | "cls_repl" -> let m = rd_repl toks in "wf=" ^ b01 (wf_repl m)
  | "cls_task" -> let t = rd_task toks in "wf=" ^ b01 (wf_task t) ^ " wfstr=" ^ b01 (wf_task_str t) ^ " compact=" ^ b01 (is_compact t.tm_sr.sr_ranges)
  | k -> "unknown-kind " ^ k
