(* Driver of the extracted migration model (property C03).
     accept <src0> | ev | ev | ...        -> the model as an ACCEPTOR of the per-key projection of an observed trace:
         src0: nil | val:<hex>            initial value of the key on the source Redis (ttl: none)
         ev:  inv <idx> <r|w|d> <hex|-> <push 0|1|2> <atsrc 0|1>     push 2 = the effect of a multi-key command on a key other than its
                                                                    first key (classified pushing; its only route at the destination is EvEnsured);
                                                                    push 3 = one `EXISTS key` of ensure_keys_imported (a pull-path read, see `internal`)
              rep <idx> <any|nil|some|val:<hex>|err>
              s <c|p|x> <pttl|dump|del|cmd> <nil|val:<hex>> [<idx|-1> <r|w|d> <hex|->]     command on the SOURCE Redis, with the key's
              d <p|x> <exists|existsq|restore|cmd> <nil|val:<hex>> [<idx|-1> <r|w|d> <hex|->]   value on that node BEFORE the command;
                   existsq = an EXISTS that is either the importing handler's check or an EXISTS command itself (ensure_keys_imported, client EXISTS)
                   c = backend connection of the source proxy (client command), p = backend connection of the destination proxy
                   (pull path / commands), x = migration client of the source proxy (scanner, push path)
              fin <s|d> <nil|val:<hex>>   final content of the node
              kill <idx>                  the multi-key command of internal operation idx has been answered
              cmt0                        the delivery of the committed metadata to the key's destination proxy starts (EvCommit not before)
       -> "accept ok steps=<model steps> hidden=<n>" | "accept outside-premise <c11|commit|classified> ..." |
          "accept reject at=<index of the first observed event no premise-respecting run can reach> ev=<text>" |
          "accept budget at=<n>"
     A depth-first search over the model's runs: between two observed events any sequence of unobservable model events
     (lock attempts, routing, handshake, commit) is allowed; states already visited at the same position are pruned. *)
open Vio

type pre = BinNums.coq_N list option

let parse_pre (t : string) : pre =
  if t = "nil" then None
  else if Stdlib.String.length t >= 4 && Stdlib.String.sub t 0 4 = "val:" then
    Some (unhex (Stdlib.String.sub t 4 (Stdlib.String.length t - 4)))
  else failwith ("bad value token " ^ t)

type repc = RAny | RNil | RSome | RVal of BinNums.coq_N list | RErrC

type oev =
  | OInv of int * Migrate.kind * bool * bool
  | ORep of int * repc
  | ORedis of bool * string * string * pre * int * string * string     (* on_src, who, cmd, pre, idx, kind, hexval *)
  | OFin of bool * pre
  | OKill of int
  | OCommitLB                     (* the coordinator starts delivering the committed metadata to the destination proxy: no commit before *)

let ensured : int list ref = ref []
(* operations that stand for one `EXISTS key` of ensure_keys_imported (push 3): several are provided per multi-key command because a
   redirected command runs ensure_keys_imported again; they only move when the next observed event is an EXISTS command *)
let internal : int list ref = ref []
(* operations that are EXISTS commands (kind e): only they explain an `existsq` execution, and they never explain a GET *)
let exists_ops : int list ref = ref []
(* position of the `kill <idx>` event of an internal operation: its multi-key command has been answered, it cannot start any more *)
let kill_pos : (int, int) Hashtbl.t = Hashtbl.create 64
let commit_lb : int ref = ref 0

let parse_kind k v : Migrate.kind =
  match k with
  | "r" -> Migrate.KRead
  | "w" -> Migrate.KWrite (unhex v)
  | "d" -> Migrate.KDelete
  | _ -> failwith ("bad kind " ^ k)

let parse_ev (toks : string list) : oev =
  match toks with
  | ["inv"; i; k; v; p; a] ->
    let k = if k = "e" then (exists_ops := int_of_string i :: !exists_ops; "r") else k in
    if p = "2" then ensured := int_of_string i :: !ensured;
    if p = "3" then internal := int_of_string i :: !internal;
    OInv (int_of_string i, parse_kind k v, p = "1" || p = "2", a = "1")
  | ["rep"; i; c] ->
    let c' = match c with
      | "any" -> RAny | "nil" -> RNil | "some" -> RSome | "err" -> RErrC
      | _ -> (match parse_pre c with Some v -> RVal v | None -> RNil) in
    ORep (int_of_string i, c')
  | [sd; who; cmd; pre] when sd = "s" || sd = "d" -> ORedis (sd = "s", who, cmd, parse_pre pre, -1, "", "")
  | [sd; who; cmd; pre; i; k; v] when sd = "s" || sd = "d" -> ORedis (sd = "s", who, cmd, parse_pre pre, int_of_string i, k, v)
  | ["fin"; sd; pre] -> OFin (sd = "s", parse_pre pre)
  | ["kill"; i] -> OKill (int_of_string i)
  | ["cmt0"] -> OCommitLB
  | _ -> failwith ("bad event " ^ Stdlib.String.concat " " toks)

let rec split_bar (toks : string list) (cur : string list) (acc : string list list) =
  match toks with
  | [] -> Stdlib.List.rev (if cur = [] then acc else Stdlib.List.rev cur :: acc)
  | "|" :: r -> split_bar r [] (if cur = [] then acc else Stdlib.List.rev cur :: acc)
  | t :: r -> split_bar r (t :: cur) acc

let range n = Stdlib.List.init n (fun i -> i)
let nat = nat_of_int

(* model events that can explain an observed event *)
let candidates (s : Migrate.state) (o : oev) : Migrate.event list =
  let n = Stdlib.List.length s.Migrate.ops in
  let each f = Stdlib.List.map (fun i -> f (nat i)) (range n) in
  match o with
  | OInv (_, k, p, a) -> [Migrate.EvInvoke ({ Migrate.ckind = k; Migrate.cpush = p }, a)]
  | ORep (i, _) -> [Migrate.EvReply (nat i)]
  | OFin _ | OKill _ | OCommitLB -> []
  | ORedis (true, "c", "cmd", _, i, _, _) -> if i >= 0 then [Migrate.EvExecSrc (nat i)] else each (fun i -> Migrate.EvExecSrc i)
  | ORedis (true, "p", "dump", _, _, _, _) -> each (fun i -> Migrate.EvDumpExec i)
  | ORedis (true, "p", "pttl", _, _, _, _) -> each (fun i -> Migrate.EvPttlExec i)
  | ORedis (true, "p", "del", _, _, _, _) -> each (fun i -> Migrate.EvPullDel i)
  | ORedis (true, "x", "pttl", _, _, _, _) -> Migrate.EvScanPttl :: each (fun i -> Migrate.EvFastPttl i) @ each (fun i -> Migrate.EvSlowPttl i)
  | ORedis (true, "x", "dump", _, _, _, _) -> Migrate.EvScanDump :: each (fun i -> Migrate.EvFastDump i) @ each (fun i -> Migrate.EvSlowDump i)
  | ORedis (true, "x", "del", _, _, _, _) -> Migrate.EvScanDel :: each (fun i -> Migrate.EvFastDel i) @ each (fun i -> Migrate.EvSlowDel i)
  | ORedis (false, "p", "exists", _, _, _, _) -> each (fun i -> Migrate.EvExistsExec i)
  | ORedis (false, "p", "existsq", _, _, _, _) -> each (fun i -> Migrate.EvExistsExec i) @ each (fun i -> Migrate.EvExecDst i)
  | ORedis (true, "c", "existsq", _, _, _, _) -> each (fun i -> Migrate.EvExecSrc i)
  | ORedis (false, "p", "restore", _, _, _, _) -> each (fun i -> Migrate.EvRestoreExec i)
  | ORedis (false, "p", "cmd", _, i, _, _) -> if i >= 0 then [Migrate.EvExecDst (nat i)] else each (fun i -> Migrate.EvExecDst i)
  | ORedis (false, "x", "restore", _, _, _, _) ->
    Migrate.EvScanRestore :: each (fun i -> Migrate.EvFastRestore i) @ each (fun i -> Migrate.EvSlowRestore i)
  | ORedis (sd, who, cmd, _, _, _, _) -> failwith ("no model event for " ^ (if sd then "s " else "d ") ^ who ^ " " ^ cmd)

let name_code (cmd : string) : int =
  match cmd with "pttl" -> 0 | "dump" -> 1 | "del" -> 2 | "exists" -> 0 | "restore" -> 1 | _ -> 3

let kind_matches (s : Migrate.state) (e : Migrate.event) (k : string) (v : string) : bool =
  let idx = match e with Migrate.EvExecSrc i | Migrate.EvExecDst i -> int_of_nat i | _ -> -1 in
  if idx < 0 || k = "" then true else
    match Stdlib.List.nth_opt s.Migrate.ops idx with
    | None -> false
    | Some o ->
      (match o.Migrate.ocmd.Migrate.ckind, k with
       | Migrate.KRead, "r" -> not (Stdlib.List.mem idx !exists_ops)
       | Migrate.KRead, "e" -> Stdlib.List.mem idx !exists_ops
       | Migrate.KDelete, "d" -> true
       | Migrate.KWrite w, "w" -> w = unhex v
       | _ -> false)

(* does the model's observation of event e in state s agree with what was observed? *)
let obs_matches (s : Migrate.state) (e : Migrate.event) (o : oev) : bool =
  match o, Migrate.observe s e with
  | OInv _, Migrate.OInvoke -> true
  | ORep (_, c), Migrate.OReply r ->
    (match c, r with
     | RAny, Migrate.ROk _ -> true
     | RNil, Migrate.ROk None -> true
     | RSome, Migrate.ROk (Some _) -> true
     | RVal v, Migrate.ROk (Some w) -> v = w
     | RErrC, Migrate.RErr -> true
     | _ -> false)
  | ORedis (true, _, cmd, pre, _, k, v), Migrate.OSrc (nm, p) -> int_of_nat nm = name_code cmd && p = pre && kind_matches s e k v
  | ORedis (false, _, "existsq", pre, _, _, _), Migrate.ODst (nm, p) ->
    p = pre && (int_of_nat nm = 0 || (int_of_nat nm = 3 && kind_matches s e "e" "-"))
  | ORedis (true, _, "existsq", pre, _, _, _), Migrate.OSrc (nm, p) -> p = pre && int_of_nat nm = 3 && kind_matches s e "e" "-"
  | ORedis (false, _, cmd, pre, _, k, v), Migrate.ODst (nm, p) -> int_of_nat nm = name_code cmd && p = pre && kind_matches s e k v
  | _ -> false

(* Hidden (unobservable) moves are scheduled LAZILY: an operation only moves right before the observed event it has to explain, and
   only from a program counter from which hidden moves can reach that event; lock releases are applied eagerly (see `normalize`).
   Hidden op-local moves commute with everything else except through the locks and the phases, whose own hidden changes are
   always offered, so for runs respecting the premises nothing is lost. *)
type goal = GCheck | GDump | GXfer | GDstCmd | GSrcCmd | GErr | GNone

let goal_of (next : oev) (i0 : int) (o : Migrate.opst) : goal =
  let kind_ok k =
    (match o.Migrate.ocmd.Migrate.ckind, k with
     | Migrate.KRead, "r" | Migrate.KDelete, "d" | Migrate.KWrite _, "w" -> true
     | _, "" -> true
     | _ -> false) in
  match next with
  | ORedis (false, "p", ("exists" | "existsq"), _, _, _, _) -> GCheck
  | ORedis (true, "c", "existsq", _, _, _, _) -> if Stdlib.List.mem i0 !exists_ops then GSrcCmd else GNone
  | ORedis (true, "p", "dump", _, _, _, _) -> GDump
  | ORedis (true, "x", "pttl", _, _, _, _) -> GXfer
  | ORedis (false, "p", "cmd", _, idx, k, _) -> if (idx < 0 || idx = i0) && kind_ok k then GDstCmd else GNone
  | ORedis (true, "c", "cmd", _, idx, k, _) -> if (idx < 0 || idx = i0) && kind_ok k then GSrcCmd else GNone
  | ORep (i, RErrC) -> if i = i0 then GErr else GNone
  | _ -> GNone

(* the hidden moves of operation i0 that lie on a path from its program counter to the observed event `next` *)
let goal_moves (g : goal) (i0 : int) (o : Migrate.opst) : Migrate.event list =
  let i = nat i0 in
  let ens = Stdlib.List.mem i0 !ensured in
  match g, o.Migrate.opc with
  | GNone, _ -> []
  | GSrcCmd, Migrate.PAtSrc -> [Migrate.EvSrcHandoff i]
  | GSrcCmd, Migrate.PAtDst -> [Migrate.EvDstRedirect i]
  | _, Migrate.PSrcQueued -> [Migrate.EvSrcRelease i]
  | GSrcCmd, _ -> []
  | _, Migrate.PAtSrc -> [Migrate.EvSrcRedirect i]
  | GCheck, Migrate.PAtDst -> if ens then [] else [Migrate.EvSendExists i]
  | GCheck, Migrate.PExistsNo -> [Migrate.EvPullLock (i, false)]
  | GDump, Migrate.PExistsNo -> [Migrate.EvPullLock (i, true)]
  | (GXfer | GErr), Migrate.PAtDst -> if ens then [] else [Migrate.EvPushLock (i, true); Migrate.EvPushLock (i, false)]
  | (GXfer | GErr), Migrate.PPushPending _ -> [Migrate.EvPushRetry (i, true); Migrate.EvPushRetry (i, false)]
  | GXfer, Migrate.PUmsyncSent -> [Migrate.EvSyncLock (i, true); Migrate.EvSyncLock (i, false)]
  | GDstCmd, Migrate.PAtDst ->
    if ens then [Migrate.EvDirect i; Migrate.EvEnsured i]
    else [Migrate.EvDirect i; Migrate.EvPushLock (i, true); Migrate.EvPushLock (i, false)]
  | GDstCmd, Migrate.PPushPending _ -> [Migrate.EvPushRetry (i, true); Migrate.EvPushRetry (i, false)]
  | GDstCmd, Migrate.PUmsyncSent -> [Migrate.EvSyncNotFound i; Migrate.EvSyncLock (i, false)]
  | GDstCmd, Migrate.PSyncQueued -> [Migrate.EvSyncFinished i]
  | _ -> []

(* Hidden (unobservable) moves are scheduled LAZILY and GOAL-DIRECTED: an operation only moves right before the observed event it has
   to explain and only along hidden moves that lead to it; lock releases are applied eagerly (`normalize`); the hidden phase / commit
   changes are always offered, and right before one of them the routing moves it would disable are offered too (the code may have
   routed the command before the change).  Hidden op-local moves commute with everything except through locks and phases, so for
   runs respecting the premises nothing is lost. *)
let hidden_events (s : Migrate.state) (next : oev) (pos : int) : Migrate.event list =
  let ops = Array.of_list s.Migrate.ops in
  let after_globals = lazy (Stdlib.List.filter_map (fun g -> Migrate.step s g)
      [Migrate.EvDstPreSwitch; Migrate.EvSrcScanning; Migrate.EvCommit]) in
  let next_existsq = (match next with ORedis (_, _, "existsq", _, _, _, _) -> true | _ -> false) in
  let per i0 (o : Migrate.opst) =
    let i = nat i0 in
    let is_int j = Stdlib.List.mem j !internal in
    let killed = (match Hashtbl.find_opt kill_pos i0 with Some p -> p <= pos | None -> false) in
    (* symmetry: of the interchangeable internal operations of one command only the first that is still waiting may start *)
    let shadowed = i0 > 0 && is_int (i0 - 1) && (match ops.(i0 - 1).Migrate.opc with Migrate.PAtDst | Migrate.PAtSrc -> true | _ -> false)
                   && not (match Hashtbl.find_opt kill_pos (i0 - 1) with Some p -> p <= pos | None -> false) in
    let waiting = (match o.Migrate.opc with Migrate.PAtDst | Migrate.PAtSrc -> true | _ -> false) in
    if is_int i0 && waiting && (not next_existsq || killed || shadowed) then []
    else begin
      let goal = goal_moves (goal_of next i0 o) i0 o
                 @ (match next with
                    | ORedis (false, "p", "existsq", _, _, _, _) when Stdlib.List.mem i0 !exists_ops -> goal_moves GDstCmd i0 o
                    | _ -> []) in
      if goal <> [] || is_int i0 then goal
      else begin
        (* routing moves that a pending phase / commit change would disable *)
        let pending = Lazy.force after_globals in
        if pending = [] then [] else begin
          let cands = (match o.Migrate.opc with
              | Migrate.PAtSrc -> [Migrate.EvSrcHandoff i; Migrate.EvSrcRedirect i]
              | Migrate.PSrcQueued -> [Migrate.EvSrcRelease i]
              | Migrate.PAtDst ->
                if Stdlib.List.mem i0 !ensured then [Migrate.EvDstRedirect i; Migrate.EvEnsured i]
                else [Migrate.EvDstRedirect i; Migrate.EvSendExists i; Migrate.EvPushLock (i, true); Migrate.EvPushLock (i, false)]
              | _ -> []) in
          let disabled_later e = Stdlib.List.exists (fun g -> match Migrate.step g e with None -> true | Some _ -> false) pending in
          Stdlib.List.filter (fun e ->
              match Migrate.step s e with
              | None -> false
              | Some _ -> disabled_later e || (match e with Migrate.EvSrcRedirect _ | Migrate.EvSrcRelease _ -> true | _ -> false)) cands
        end
      end
    end in
  Stdlib.List.concat (Stdlib.List.mapi per s.Migrate.ops)
  @ [Migrate.EvScanSkip; Migrate.EvScanLock; Migrate.EvPreCheckAck; Migrate.EvBlockingDone; Migrate.EvDstPreSwitch;
     Migrate.EvSrcScanning; Migrate.EvScanFinished; Migrate.EvDstFinal; Migrate.EvSrcFinal; Migrate.EvCommit]

(* lock releases that the code performs without any further input are applied as soon as they are enabled *)
let rec normalize (s : Migrate.state) (n : int) : Migrate.state * int =
  let rec find i = function
    | [] -> None
    | (o : Migrate.opst) :: r ->
      let e = (match o.Migrate.opc, o.Migrate.ocl with
          | Migrate.PUmsyncReplied, _ -> Some (Migrate.EvPushForward (nat i))
          | _, Migrate.CLock -> Some (Migrate.EvPullUnlock (nat i))
          | _ -> None) in
      (match e with Some e -> Some e | None -> find (i + 1) r) in
  match find 0 s.Migrate.ops with
  | Some e -> (match Migrate.step s e with Some s' -> normalize s' (n + 1) | None -> (s, n))
  | None -> (s, n)

exception Budget
let debug = (try Sys.getenv "UM_ACCEPT_DEBUG" <> "" with Not_found -> false)

(* enforce: 0 = all premises, 1 = without c11, 2 = without commit, 4 = without ensured, 3 = none *)
let search (s0 : Migrate.state) (evs : oev array) (enforce : int) : (int * int) option * int =
  let n = Array.length evs in
  let visited : (string, unit) Hashtbl.t = Hashtbl.create 4096 in
  let best = ref 0 in
  let nodes = ref 0 in
  let premise s e =
    (enforce = 1 || enforce = 3 || Migrate.c11_step s e) && (enforce = 2 || enforce = 3 || Migrate.commit_step s e)
    && (enforce = 4 || enforce = 3 || Migrate.ensured_step s e) in
  let rec go (s : Migrate.state) (pos : int) (steps : int) (hid : int) : (int * int) option =
    let (s, nn) = normalize s 0 in
    let steps = steps + nn and hid = hid + nn in
    if pos > !best then begin best := pos; if debug then Stdlib.Printf.eprintf "best=%d nodes=%d committed=%b\n%!" pos !nodes s.Migrate.gl.Migrate.committed end;
    if pos = n then Some (steps, hid) else begin
        let live_idx = Stdlib.List.filter (fun (_, (o : Migrate.opst)) ->
            match o.Migrate.opc, o.Migrate.ocl with
            | Migrate.PReplied _, (Migrate.CNone | Migrate.CDone) -> false
            | _ -> true) (Stdlib.List.mapi (fun i o -> (i, o)) s.Migrate.ops) in
        (* operations that are answered and cleaned up are the same along every path reaching this position *)
        let key = Digest.string (Marshal.to_string (pos, s.Migrate.gl, live_idx) [Marshal.No_sharing]) in
      if Hashtbl.mem visited key then None else begin
        Hashtbl.add visited key ();
        incr nodes;
        if !nodes > 400000 then raise Budget;
        let o = evs.(pos) in
        let direct =
          match o with
          | OKill _ | OCommitLB -> go s (pos + 1) steps hid
          | OFin (on_src, pre) ->
            let g = s.Migrate.gl in
            let v = Migrate.coq_val (if on_src then g.Migrate.src else g.Migrate.dst) in
            if v = pre then go s (pos + 1) steps hid else None
          | _ ->
            let rec try_c = function
              | [] -> None
              | e :: r ->
                if obs_matches s e o && premise s e then
                  (match Migrate.step s e with
                   | Some s' -> (match go s' (pos + 1) (steps + 1) hid with Some x -> Some x | None -> try_c r)
                   | None -> try_c r)
                else try_c r in
            try_c (candidates s o) in
        match direct with
        | Some x -> Some x
        | None ->
          let rec try_h = function
            | [] -> None
            | e :: r ->
              if premise s e && not (e = Migrate.EvCommit && pos < !commit_lb) then
                (match Migrate.step s e with
                 | Some s' when s' <> s -> (match go s' pos (steps + 1) (hid + 1) with Some x -> Some x | None -> try_h r)
                 | _ -> try_h r)
              else try_h r in
          try_h (hidden_events s o pos)
      end
    end in
  let r = go s0 0 0 0 in
  (r, !best)

let ev_text (toks : string list list) (i : int) : string =
  match Stdlib.List.nth_opt toks i with Some t -> Stdlib.String.concat " " t | None -> "<end>"

let run_case (line : string) : string =
  let toks = split_ws line in
  match toks with
  | "accept" :: src0 :: rest ->
    let groups = split_bar rest [] [] in
    ensured := []; internal := []; exists_ops := []; Hashtbl.reset kill_pos;
    let evs = Array.of_list (Stdlib.List.map parse_ev groups) in
    commit_lb := 0;
    Array.iteri (fun p e -> match e with OKill i -> Hashtbl.replace kill_pos i p | OCommitLB -> commit_lb := p | _ -> ()) evs;
    let s0 = Migrate.init (match parse_pre src0 with None -> None | Some v -> Some (v, Ttl.coq_PTTL_NO_EXPIRE)) in
    (try
       match search s0 evs 0 with
       | Some (steps, hid), _ -> Stdlib.Printf.sprintf "accept ok steps=%d hidden=%d" steps hid
       | None, best ->
         let outside =
           (match (try fst (search s0 evs 1) with Budget -> None) with
            | Some _ -> Some "c11"
            | None ->
              (match (try fst (search s0 evs 2) with Budget -> None) with
               | Some _ -> Some "commit"
               | None ->
                 (match (try fst (search s0 evs 4) with Budget -> None) with
                  | Some _ -> Some "ensured"
                  | None -> None))) in
         (match outside with
          | Some w -> Stdlib.Printf.sprintf "accept outside-premise %s at=%d ev=%s" w best (ev_text groups best)
          | None -> Stdlib.Printf.sprintf "accept reject at=%d ev=%s" best (ev_text groups best))
     with Budget -> "accept budget")
  | k :: _ -> "unknown-kind " ^ k
  | [] -> "unknown-kind"
