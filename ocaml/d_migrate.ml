(* Driver of the extracted migration model (property C03).
     accept <src0> | ev | ev | ...        -> the model as an ACCEPTOR of the per-key projection of an observed trace:
         src0: nil | val:<hex>            initial value of the key on the source Redis (ttl: none)
         ev:  inv <idx> <r|w|d> <hex|-> <push 0|1> <atsrc 0|1>
              rep <idx> <any|nil|some|val:<hex>|err>
              s <c|p|x> <pttl|dump|del|cmd> <nil|val:<hex>> [<idx|-1> <r|w|d> <hex|->]     command on the SOURCE Redis, with the key's
              d <p|x> <exists|restore|cmd> <nil|val:<hex>> [<idx|-1> <r|w|d> <hex|->]      value on that node BEFORE the command;
                   c = backend connection of the source proxy (client command), p = backend connection of the destination proxy
                   (pull path / commands), x = migration client of the source proxy (scanner, push path)
              fin <s|d> <nil|val:<hex>>   final content of the node
       -> "accept ok steps=<model steps> hidden=<n>" | "accept outside-premise <c11|commit|classified> ..." |
          "accept reject at=<index of the first observed event no premise-respecting run can reach> ev=<text>" |
          "accept budget at=<n>"
     A depth-first search over the model's runs: between two observed events any sequence of unobservable model events
     (lock attempts, routing, handshake, commit) is allowed; states already visited at the same position are pruned. *)
open Vio

type pre = BinNums.coq_N list option

let parse_pre (t : string) : pre =
  if t = "nil" then None
  else if Stdlib.String.length t >= 4 && Stdlib.String.sub t 0 4 = "val:" then
    Some (unhex (Stdlib.String.sub t 4 (Stdlib.String.length t - 4)))
  else failwith ("bad value token " ^ t)

type repc = RAny | RNil | RSome | RVal of BinNums.coq_N list | RErrC

type oev =
  | OInv of int * Migrate.kind * bool * bool
  | ORep of int * repc
  | ORedis of bool * string * string * pre * int * string * string     (* on_src, who, cmd, pre, idx, kind, hexval *)
  | OFin of bool * pre

let parse_kind k v : Migrate.kind =
  match k with
  | "r" -> Migrate.KRead
  | "w" -> Migrate.KWrite (unhex v)
  | "d" -> Migrate.KDelete
  | _ -> failwith ("bad kind " ^ k)

let parse_ev (toks : string list) : oev =
  match toks with
  | ["inv"; i; k; v; p; a] -> OInv (int_of_string i, parse_kind k v, p = "1", a = "1")
  | ["rep"; i; c] ->
    let c' = match c with
      | "any" -> RAny | "nil" -> RNil | "some" -> RSome | "err" -> RErrC
      | _ -> (match parse_pre c with Some v -> RVal v | None -> RNil) in
    ORep (int_of_string i, c')
  | [sd; who; cmd; pre] when sd = "s" || sd = "d" -> ORedis (sd = "s", who, cmd, parse_pre pre, -1, "", "")
  | [sd; who; cmd; pre; i; k; v] when sd = "s" || sd = "d" -> ORedis (sd = "s", who, cmd, parse_pre pre, int_of_string i, k, v)
  | ["fin"; sd; pre] -> OFin (sd = "s", parse_pre pre)
  | _ -> failwith ("bad event " ^ Stdlib.String.concat " " toks)

let rec split_bar (toks : string list) (cur : string list) (acc : string list list) =
  match toks with
  | [] -> Stdlib.List.rev (if cur = [] then acc else Stdlib.List.rev cur :: acc)
  | "|" :: r -> split_bar r [] (if cur = [] then acc else Stdlib.List.rev cur :: acc)
  | t :: r -> split_bar r (t :: cur) acc

let range n = Stdlib.List.init n (fun i -> i)
let nat = nat_of_int

(* model events that can explain an observed event *)
let candidates (s : Migrate.state) (o : oev) : Migrate.event list =
  let n = Stdlib.List.length s.Migrate.ops in
  let each f = Stdlib.List.map (fun i -> f (nat i)) (range n) in
  match o with
  | OInv (_, k, p, a) -> [Migrate.EvInvoke ({ Migrate.ckind = k; Migrate.cpush = p }, a)]
  | ORep (i, _) -> [Migrate.EvReply (nat i)]
  | OFin _ -> []
  | ORedis (true, "c", "cmd", _, i, _, _) -> if i >= 0 then [Migrate.EvExecSrc (nat i)] else each (fun i -> Migrate.EvExecSrc i)
  | ORedis (true, "p", "dump", _, _, _, _) -> each (fun i -> Migrate.EvDumpExec i)
  | ORedis (true, "p", "pttl", _, _, _, _) -> each (fun i -> Migrate.EvPttlExec i)
  | ORedis (true, "p", "del", _, _, _, _) -> each (fun i -> Migrate.EvPullDel i)
  | ORedis (true, "x", "pttl", _, _, _, _) -> Migrate.EvScanPttl :: each (fun i -> Migrate.EvFastPttl i) @ each (fun i -> Migrate.EvSlowPttl i)
  | ORedis (true, "x", "dump", _, _, _, _) -> Migrate.EvScanDump :: each (fun i -> Migrate.EvFastDump i) @ each (fun i -> Migrate.EvSlowDump i)
  | ORedis (true, "x", "del", _, _, _, _) -> Migrate.EvScanDel :: each (fun i -> Migrate.EvFastDel i) @ each (fun i -> Migrate.EvSlowDel i)
  | ORedis (false, "p", "exists", _, _, _, _) -> each (fun i -> Migrate.EvExistsExec i)
  | ORedis (false, "p", "restore", _, _, _, _) -> each (fun i -> Migrate.EvRestoreExec i)
  | ORedis (false, "p", "cmd", _, i, _, _) -> if i >= 0 then [Migrate.EvExecDst (nat i)] else each (fun i -> Migrate.EvExecDst i)
  | ORedis (false, "x", "restore", _, _, _, _) ->
    Migrate.EvScanRestore :: each (fun i -> Migrate.EvFastRestore i) @ each (fun i -> Migrate.EvSlowRestore i)
  | ORedis (sd, who, cmd, _, _, _, _) -> failwith ("no model event for " ^ (if sd then "s " else "d ") ^ who ^ " " ^ cmd)

let name_code (cmd : string) : int =
  match cmd with "pttl" -> 0 | "dump" -> 1 | "del" -> 2 | "exists" -> 0 | "restore" -> 1 | _ -> 3

let kind_matches (s : Migrate.state) (e : Migrate.event) (k : string) (v : string) : bool =
  let idx = match e with Migrate.EvExecSrc i | Migrate.EvExecDst i -> int_of_nat i | _ -> -1 in
  if idx < 0 || k = "" then true else
    match Stdlib.List.nth_opt s.Migrate.ops idx with
    | None -> false
    | Some o ->
      (match o.Migrate.ocmd.Migrate.ckind, k with
       | Migrate.KRead, "r" -> true
       | Migrate.KDelete, "d" -> true
       | Migrate.KWrite w, "w" -> w = unhex v
       | _ -> false)

(* does the model's observation of event e in state s agree with what was observed? *)
let obs_matches (s : Migrate.state) (e : Migrate.event) (o : oev) : bool =
  match o, Migrate.observe s e with
  | OInv _, Migrate.OInvoke -> true
  | ORep (_, c), Migrate.OReply r ->
    (match c, r with
     | RAny, Migrate.ROk _ -> true
     | RNil, Migrate.ROk None -> true
     | RSome, Migrate.ROk (Some _) -> true
     | RVal v, Migrate.ROk (Some w) -> v = w
     | RErrC, Migrate.RErr -> true
     | _ -> false)
  | ORedis (true, _, cmd, pre, _, k, v), Migrate.OSrc (nm, p) -> int_of_nat nm = name_code cmd && p = pre && kind_matches s e k v
  | ORedis (false, _, cmd, pre, _, k, v), Migrate.ODst (nm, p) -> int_of_nat nm = name_code cmd && p = pre && kind_matches s e k v
  | _ -> false

let hidden_events (s : Migrate.state) : Migrate.event list =
  let per i (o : Migrate.opst) =
    let i = nat i in
    match o.Migrate.opc with
    | Migrate.PReplied _ | Migrate.PDone _ ->
      (match o.Migrate.ocl with Migrate.CLock -> [Migrate.EvPullUnlock i] | _ -> [])
    | Migrate.PAtSrc -> [Migrate.EvSrcHandoff i; Migrate.EvSrcQueue i; Migrate.EvSrcRedirect i]
    | Migrate.PSrcQueued -> [Migrate.EvSrcRelease i]
    | Migrate.PAtDst -> [Migrate.EvDstRedirect i; Migrate.EvDirect i; Migrate.EvSendExists i;
                         Migrate.EvPushLock (i, true); Migrate.EvPushLock (i, false)]
    | Migrate.PExistsNo -> [Migrate.EvPullLock (i, true); Migrate.EvPullLock (i, false)]
    | Migrate.PPushPending _ -> [Migrate.EvPushRetry (i, true); Migrate.EvPushRetry (i, false)]
    | Migrate.PUmsyncSent -> [Migrate.EvSyncLock (i, true); Migrate.EvSyncLock (i, false); Migrate.EvSyncNotFound i]
    | Migrate.PSyncQueued -> [Migrate.EvSyncFinished i]
    | Migrate.PUmsyncReplied -> [Migrate.EvPushForward i]
    | Migrate.PFwd -> (match o.Migrate.ocl with Migrate.CLock -> [Migrate.EvPullUnlock i] | _ -> [])
    | _ -> [] in
  Stdlib.List.concat (Stdlib.List.mapi per s.Migrate.ops)
  @ [Migrate.EvScanSkip; Migrate.EvScanLock; Migrate.EvPreCheckAck; Migrate.EvBlockingDone; Migrate.EvDstPreSwitch;
     Migrate.EvSrcScanning; Migrate.EvScanFinished; Migrate.EvDstFinal; Migrate.EvSrcFinal; Migrate.EvCommit]

exception Budget

(* enforce: 0 = all premises, 1 = without c11, 2 = without commit, 3 = none *)
let search (s0 : Migrate.state) (evs : oev array) (enforce : int) : (int * int) option * int =
  let n = Array.length evs in
  let visited : (string, unit) Hashtbl.t = Hashtbl.create 4096 in
  let best = ref 0 in
  let nodes = ref 0 in
  let premise s e =
    (enforce = 1 || enforce = 3 || Migrate.c11_step s e) && (enforce = 2 || enforce = 3 || Migrate.commit_step s e) in
  let rec go (s : Migrate.state) (pos : int) (steps : int) (hid : int) : (int * int) option =
    if pos > !best then best := pos;
    if pos = n then Some (steps, hid) else begin
      let key = Marshal.to_string (pos, s) [] in
      if Hashtbl.mem visited key then None else begin
        Hashtbl.add visited key ();
        incr nodes;
        if !nodes > 400000 then raise Budget;
        let o = evs.(pos) in
        let direct =
          match o with
          | OFin (on_src, pre) ->
            let g = s.Migrate.gl in
            let v = Migrate.coq_val (if on_src then g.Migrate.src else g.Migrate.dst) in
            if v = pre then go s (pos + 1) steps hid else None
          | _ ->
            let rec try_c = function
              | [] -> None
              | e :: r ->
                if obs_matches s e o && premise s e then
                  (match Migrate.step s e with
                   | Some s' -> (match go s' (pos + 1) (steps + 1) hid with Some x -> Some x | None -> try_c r)
                   | None -> try_c r)
                else try_c r in
            try_c (candidates s o) in
        match direct with
        | Some x -> Some x
        | None ->
          let rec try_h = function
            | [] -> None
            | e :: r ->
              if premise s e then
                (match Migrate.step s e with
                 | Some s' when s' <> s -> (match go s' pos (steps + 1) (hid + 1) with Some x -> Some x | None -> try_h r)
                 | _ -> try_h r)
              else try_h r in
          try_h (hidden_events s)
      end
    end in
  let r = go s0 0 0 0 in
  (r, !best)

let ev_text (toks : string list list) (i : int) : string =
  match Stdlib.List.nth_opt toks i with Some t -> Stdlib.String.concat " " t | None -> "<end>"

let run_case (line : string) : string =
  let toks = split_ws line in
  match toks with
  | "accept" :: src0 :: rest ->
    let groups = split_bar rest [] [] in
    let evs = Array.of_list (Stdlib.List.map parse_ev groups) in
    let s0 = Migrate.init (match parse_pre src0 with None -> None | Some v -> Some (v, Ttl.coq_PTTL_NO_EXPIRE)) in
    (try
       match search s0 evs 0 with
       | Some (steps, hid), _ -> Stdlib.Printf.sprintf "accept ok steps=%d hidden=%d" steps hid
       | None, best ->
         let outside =
           (match (try fst (search s0 evs 1) with Budget -> None) with
            | Some _ -> Some "c11"
            | None ->
              (match (try fst (search s0 evs 2) with Budget -> None) with
               | Some _ -> Some "commit"
               | None -> None)) in
         (match outside with
          | Some w -> Stdlib.Printf.sprintf "accept outside-premise %s at=%d ev=%s" w best (ev_text groups best)
          | None -> Stdlib.Printf.sprintf "accept reject at=%d ev=%s" best (ev_text groups best))
     with Budget -> "accept budget")
  | k :: _ -> "unknown-kind " ^ k
  | [] -> "unknown-kind"
