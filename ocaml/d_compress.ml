(* Driver of the extracted C20 model (group compress).  See harness/compress/src/dom.rs for the case kinds.
   zstd is abstract in the model; here compress v = MARK ^ v ^ END and decompress accepts exactly that framing, plus
   the (raw, decoded) pairs of the optional D table of the case (real zstd frames used as raw values). *)
open Vio
module L = Stdlib.List
module S = Stdlib.String

let mark = nlist_of_string "<<ZSTD-MODEL-FRAME:"
let fin = nlist_of_string ":END-OF-FRAME>>"
let compress (v : BinNums.coq_N list) = mark @ v @ fin

let rec strip_prefix p l = match p, l with
  | [], _ -> Some l
  | x :: p', y :: l' when x = y -> strip_prefix p' l'
  | _ -> None

let framed (b : BinNums.coq_N list) : BinNums.coq_N list option =
  match strip_prefix mark b with
  | None -> None
  | Some rest ->
    let n = L.length rest and m = L.length fin in
    if n < m then None
    else
      let body = L.filteri (fun i _ -> i < n - m) rest and tail = L.filteri (fun i _ -> i >= n - m) rest in
      if tail = fin then Some body else None

let table : (BinNums.coq_N list * BinNums.coq_N list option) list ref = ref []
let decompress (b : BinNums.coq_N list) : BinNums.coq_N list option =
  match framed b with
  | Some v -> Some v
  | None -> (match L.assoc_opt b !table with Some r -> r | None -> None)

let strategy_of = function
  | "d" -> Compress.Disabled | "s" -> Compress.SetGetOnly | "a" -> Compress.AllowAll
  | t -> failwith ("bad strategy " ^ t)

let parse_int toks = int_of_string (next toks)
let parse_cmd toks = let n = parse_int toks in L.init n (fun _ -> unhex (next toks))

let parse_table toks =
  table := [];
  match !toks with
  | "D" :: _ ->
    ignore (next toks);
    let n = parse_int toks in
    table := L.init n (fun _ ->
        let raw = unhex (next toks) in
        let d = next toks in
        (raw, if d = "x" then None else Some (unhex d)))
  | _ -> ()

let class_of name = match Compress.cmd_type name with
  | Compress.TGet -> "get" | Compress.TGetset -> "getset" | Compress.TSet -> "set" | Compress.TSetnx -> "setnx"
  | Compress.TSetex -> "setex" | Compress.TPsetex -> "psetex" | Compress.TMset -> "mset" | Compress.TMsetnx -> "msetnx"
  | Compress.TMget -> "mget" | Compress.TStrOther -> "strother" | Compress.TOther -> "other"

let run_case (line : string) : string =
  let toks = ref (split_ws line) in
  match next toks with
  | "run" ->
    let stok = next toks in
    let s = strategy_of stok in
    let npre = parse_int toks in
    let pre = L.init npre (fun _ -> let k = unhex (next toks) in let v = unhex (next toks) in (k, v)) in
    let ncmd = parse_int toks in
    let cmds = L.init ncmd (fun _ -> parse_cmd toks) in
    parse_table toks;
    let verbatim = Hashtbl.create 64 in
    L.iter (fun (_, v) -> Hashtbl.replace verbatim v ()) pre;
    L.iter (fun c -> L.iter (fun e -> Hashtbl.replace verbatim e ()) c) cmds;
    let st = ref pre in
    let outs = L.map (fun c ->
        let (st', r) = Compress.exec compress decompress s !st c in
        st := st';
        let cls = match c with [] -> "other" | n :: _ -> class_of n in
        match r with
        | RespT.Integer _ when cls = "strother" && stok <> "d" -> "I *"
        | _ -> resp_to_string r) cmds in
    let dump = L.sort compare (L.map (fun (k, v) ->
        let tok = if stok = "d" then "r:" ^ hex v
          else match decompress v with
            | Some d -> "c:" ^ hex d
            | None -> if Hashtbl.mem verbatim v then "r:" ^ hex v else "x" in
        (* sort like the BTreeMap of the harness: by key bytes *)
        (bytes_of_nlist k, hex k ^ "=" ^ tok)) !st) in
    "run " ^ S.concat " ; " outs ^ " | " ^ S.concat " " (L.map snd dump)
  | "cc" ->
    let s = strategy_of (next toks) in
    let c = parse_cmd toks in
    (match Compress.compress_cmd compress s c with
     | Compress.CInvalid -> "cc invalid"
     | Compress.CRestricted -> "cc restricted"
     | Compress.CForward c' ->
       let toks' = L.mapi (fun i e ->
           if i < L.length c && L.nth c i = e then "="
           else match decompress e with Some d -> "c:" ^ hex d | None -> "x:" ^ hex e) c' in
       S.concat " " ("cc" :: "fwd" :: toks'))
  | "dr" ->
    let s = strategy_of (next toks) in
    let name = unhex (next toks) in
    let r = parse_resp toks in
    parse_table toks;
    "dr " ^ resp_to_string (Compress.decompress_reply decompress s (Compress.cmd_type name) r)
  | "type" -> "type " ^ class_of (unhex (next toks))
  | "strat" ->
    (match Compress.parse_strategy (unhex (next toks)) with
     | Some Compress.Disabled -> "strat d" | Some Compress.SetGetOnly -> "strat s" | Some Compress.AllowAll -> "strat a"
     | None -> "strat none")
  | "zrt" ->
    let v = unhex (next toks) in
    if decompress (compress v) = Some v then "zrt ok" else "zrt mismatch"
  | "zenc" | "zdec" -> "impl-only"
  | k -> "unknown-kind " ^ k
