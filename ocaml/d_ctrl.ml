(* Model driver for the control-plane group (C07).  Input: the model program printed by harness/ctrl after "M ":
     N <nproxy> ; E <ch0> <rh0> ; V <served table> ; S <faults> ; I <injections> ; Q <INFOMGR reports> ; P step | step ..
   The script (S, I, steps) is the case's own; V (what the broker served at each time), Q (what INFOMGR answered) and the
   proxy order of each round are what the abstract model takes as given.  Output: the observation segments "O ..." in the
   format of the Rust side (without its last, monitor-only segment). *)
open Vio
open BinNums
open Ctrl

let ni = int_of_n
let nn = n_of_int
let cat = Stdlib.String.concat
let split c s = if s = "-" || s = "" then [] else Stdlib.String.split_on_char c s

let trim = Stdlib.String.trim

let parse_fault = function
  | "none" -> FNone | "drop" -> FDrop | "dup" -> FDup | "delay" -> FDelay | "noreply" -> FNoReply | "crash" -> FCrash
  | f -> failwith ("fault " ^ f)

let kind_of = function "R" -> KRepl | "C" -> KCluster | k -> failwith ("kind " ^ k)
let kind_s = function KRepl -> "R" | KCluster -> "C"

let run_case (line : string) : string =
  let segs = Stdlib.List.map trim (Stdlib.String.split_on_char ';' line) in
  let get pfx =
    match Stdlib.List.find_opt (fun s -> Stdlib.String.length s >= 2 && Stdlib.String.sub s 0 2 = pfx ^ " ") segs with
    | Some s -> trim (Stdlib.String.sub s 2 (Stdlib.String.length s - 2))
    | None -> failwith ("missing section " ^ pfx) in
  let nproxy = int_of_string (get "N") in
  let (ch0, rh0) = match split_ws (get "E") with [a; b] -> (a, b) | _ -> failwith "E" in
  (* served table *)
  let served_tbl : (int * int, coq_N * coq_N) Stdlib.Hashtbl.t = Stdlib.Hashtbl.create 64 in
  let hashes : (string, string * string) Stdlib.Hashtbl.t = Stdlib.Hashtbl.create 64 in
  Stdlib.List.iter (fun e ->
      match Stdlib.String.split_on_char '.' e with
      | [t; a; ep; vid; ch; rh] ->
        Stdlib.Hashtbl.replace served_tbl (int_of_string t, int_of_string a) (n_of_decstr ep, n_of_decstr vid);
        Stdlib.Hashtbl.replace hashes vid (ch, rh)
      | _ -> failwith ("V entry " ^ e)) (split ',' (get "V"));
  let served (t : Datatypes.nat) (a : coq_N) : (coq_N * coq_N) option =
    Stdlib.Hashtbl.find_opt served_tbl (int_of_nat t, ni a) in
  let step = Ctrl.step served in
  (* script *)
  let faults = Stdlib.List.map (fun e -> match Stdlib.String.split_on_char ':' e with
      | [n; f] -> (int_of_string n, parse_fault f) | _ -> failwith ("S entry " ^ e)) (split ',' (get "S")) in
  let injects = Stdlib.List.map (fun e -> match Stdlib.String.split_on_char ':' e with
      | [n; k; x; y] -> (int_of_string n, (k, x, y)) | _ -> failwith ("I entry " ^ e)) (split ',' (get "I")) in
  let reports = Stdlib.List.map (fun e -> match Stdlib.String.split_on_char '.' e with
      | [n; id; s; d] -> (int_of_string n, { m_id = nn (int_of_string id); m_src = nn (int_of_string s); m_dst = nn (int_of_string d) })
      | _ -> failwith ("Q entry " ^ e)) (split ',' (get "Q")) in
  let inject_events (k, x, y) (st : state) : event list =
    match k with
    | "r" -> [ProxyRestart (nn (int_of_string x))]
    | "c" -> [Commit (nn (int_of_string x))]
    | "n" -> []
    | "d" -> (match find_call (nn (int_of_string x)) (kind_of y) st.net with
        | Some i -> [Deliver i]
        | None -> [])
    | _ -> failwith ("inject kind " ^ k) in
  let sc = {
    sc_fault = (fun n -> match Stdlib.List.assoc_opt (int_of_nat n) faults with Some f -> f | None -> FNone);
    sc_inject = (fun n st ->
        let mine = Stdlib.List.filter (fun (m, _) -> m = int_of_nat n) injects in
        let (_, evs) = Stdlib.List.fold_left (fun (s, acc) (_, inj) ->
            let e = inject_events inj s in
            (Stdlib.List.fold_left step s e, acc @ e)) (st, []) mine in
        evs);
    sc_reports = (fun n -> Stdlib.List.filter_map (fun (m, r) -> if m = int_of_nat n then Some r else None) reports);
  } in
  (* observation helpers *)
  let hash_of (content : coq_N) =
    if content = N0 then (ch0, rh0)
    else match Stdlib.Hashtbl.find_opt hashes (decstr_of_n content) with Some h -> h | None -> ("?", "?") in
  let observe (st : state) =
    let ps = Stdlib.List.init nproxy (fun i ->
        let a = nn (i + 1) in
        let c = installed st a KCluster and r = installed st a KRepl in
        Stdlib.Printf.sprintf "%d:%s:%s:%s" (i + 1) (decstr_of_n c.k_epoch) (fst (hash_of c.k_content)) (snd (hash_of r.k_content))) in
    let pend = Stdlib.List.sort compare (Stdlib.List.map ni st.pending) in
    Stdlib.Printf.sprintf "st=%s pend=%s nc=%d" (cat "," ps)
      (if pend = [] then "-" else cat "," (Stdlib.List.map string_of_int pend)) (Stdlib.List.length st.commits) in
  (* runs events one at a time and collects the observable ones *)
  let run_traced (evs : event list) (st : state) : state * string list =
    Stdlib.List.fold_left (fun (s, tr) ev ->
        let s' = step s ev in
        let tok = match ev with
          | Fetch (_, a, tag) -> [Stdlib.Printf.sprintf "f.%d.%d" (ni a) (ni tag)]
          | Deliver _ ->
            if Stdlib.List.length s'.dlog > Stdlib.List.length s.dlog then
              (match s'.dlog with
               | (c, r) :: _ -> [Stdlib.Printf.sprintf "d.%d.%s.%s.%s" (ni c.c_to) (kind_s c.c_kind) (decstr_of_n c.c_epoch)
                                   (match r with OK -> "ok" | OLD_EPOCH -> "old")]
               | [] -> [])
            else []
          | Commit id ->
            [Stdlib.Printf.sprintf "c.%d.%s" (ni id)
               (if Stdlib.List.length s'.commits > Stdlib.List.length s.commits then "ok" else "nf")]
          | Report (a, m) -> [Stdlib.Printf.sprintf "p.%d.%d" (ni a) (ni m.m_id)]
          | ProxyRestart a -> [Stdlib.Printf.sprintf "r.%d" (ni a)]
          | _ -> [] in
        (s', tr @ tok)) (st, []) evs in
  let tr_s tr = if tr = [] then "-" else cat "," tr in
  (* ---------- failure detection / handling (C07F cases): Model/CtrlFail.v over the real broker model ---------- *)
  let (fail_mode, ttl, quorum) =
    match (try split_ws (get "B") with Failure _ -> ["0"; "30"; "2"]) with
    | [b; t; q] -> (b = "1", z_of_int (int_of_string t), nn (int_of_string q))
    | _ -> failwith "B" in
  let choices = if not fail_mode then [] else
      Stdlib.List.map (fun e -> match Stdlib.String.split_on_char '.' e with
          | [n; l] -> (int_of_string n, Stdlib.List.map (fun c -> if c = "-" then None else Some (nn (int_of_string c))) (Stdlib.String.split_on_char '/' l))
          | _ -> failwith ("K entry " ^ e)) (split ',' (get "K")) in
  let fsc = { CtrlFail.fc_fault = sc.sc_fault;
              CtrlFail.fc_choices = (fun n -> match Stdlib.List.assoc_opt (int_of_nat n) choices with Some l -> l | None -> []) } in
  let fst_ = ref (CtrlFail.finit (Broker.init_store false)) in
  let fstep = CtrlFail.fstep ttl quorum in
  let fail_obs () =
    let s = !fst_.CtrlFail.fs_store in
    let clock = int_of_z !fst_.CtrlFail.fs_clock in
    let rows = Stdlib.List.concat_map (fun (a, m) ->
        Stdlib.List.map (fun (r, t) -> Stdlib.Printf.sprintf "%d:%d@%d" (ni a) (ni r) (clock - int_of_z t)) m) s.Broker.st_failures in
    let fd = Stdlib.List.map (fun a -> string_of_int (ni a)) s.Broker.st_failed in
    Stdlib.Printf.sprintf "T=%d fl=%s fd=%s" clock (if rows = [] then "-" else cat "," rows) (if fd = [] then "-" else cat "," fd) in
  let frun_traced (evs : CtrlFail.fevent list) : string list =
    Stdlib.List.fold_left (fun tr ev ->
        let s = !fst_ in
        let s' = fstep s ev in
        fst_ := s';
        let ans () = match s'.CtrlFail.fs_answers with a :: _ -> Some a | [] -> None in
        let tok = match ev with
          | CtrlFail.EProbe (_, a, ok) -> [Stdlib.Printf.sprintf "q.%d.%s" (ni a) (if ok then "ok" else "fail")]
          | CtrlFail.EReport (c, a) ->
            [Stdlib.Printf.sprintf "a.%d.%d.%s" (ni c) (ni a) (match ans () with Some (Broker.RBool true) -> "1" | _ -> "0")]
          | CtrlFail.EGetFailures _ ->
            (match ans () with
             | Some (Broker.RList l) -> ["g." ^ (if l = [] then "-" else cat "+" (Stdlib.List.map (fun a -> string_of_int (ni a)) l))]
             | _ -> ["g.?"])
          | CtrlFail.EReplace (i, _) ->
            (match Stdlib.List.nth_opt s.CtrlFail.fs_net (int_of_nat i) with
             | None -> []
             | Some a ->
               [Stdlib.Printf.sprintf "x.%d.%s" (ni a)
                  (match ans () with
                   | Some (Broker.RRepl (Some r)) -> string_of_int (ni r)
                   | Some (Broker.RRepl None) -> "-"
                   | _ -> "err")])
          | _ -> [] in
        tr @ tok) [] evs in
  let steps = Stdlib.List.map trim (Stdlib.String.split_on_char '|' (get "P")) in
  let st = ref init in
  let advance k = for _ = 1 to k do st := step !st (BrokerAdvance []) done in
  let outs = Stdlib.List.map (fun s ->
      match split_ws s with
      | "adv" :: ids :: fop ->
        let (ids, rem) = match Stdlib.String.split_on_char '/' ids with [a; b] -> (a, b) | _ -> (ids, "-") in
        let ms = Stdlib.List.map (fun x -> nn (int_of_string x)) (split ',' ids) in
        let rm = Stdlib.List.map (fun x -> nn (int_of_string x)) (split ',' rem) in
        if rm <> [] then st := step !st (BrokerCancel rm);
        st := step !st (BrokerAdvance ms);
        if not fail_mode then "A " ^ observe !st
        else begin
          let ev = match fop with
            | ["reg"; i] -> CtrlFail.ERegister (nn (int_of_string i), Some (nn (100 + int_of_string i)), None)
            | ["ac"; n; pairs] ->
              let ps = Stdlib.List.map (fun p -> match Stdlib.String.split_on_char ':' p with
                  | [a; b] -> (nn (int_of_string a), nn (int_of_string b)) | _ -> failwith "pair") (split ',' pairs) in
              CtrlFail.EOther (Broker.OAddCluster (nn 1, nn (int_of_string n), nn 1, ps))
            | ["cfg"; v] -> CtrlFail.EOther (Broker.OChangeConfig (nn 1, true, nn (int_of_string v)))
            | _ -> failwith ("fop " ^ s) in
          ignore (frun_traced [ev]);
          "A " ^ observe !st ^ " " ^ fail_obs ()
        end
      | [("tick" | "down" | "up") as kd; x] ->
        let x = int_of_string x in
        let ev = match kd with "tick" -> CtrlFail.ETick (nn x) | "down" -> CtrlFail.EDown (nn x) | _ -> CtrlFail.EUp (nn x) in
        ignore (frun_traced [ev]);
        "T " ^ fail_obs ()
      | [("detect" | "handle") as kd; c; n0; addrs; k] ->
        let c = nn (int_of_string c) and n0 = nat_of_int (int_of_string n0) in
        let ((evs, nb), cr) =
          if kd = "detect" then
            CtrlFail.detect_round ttl quorum fsc c (Stdlib.List.map (fun x -> nn (int_of_string x)) (split ',' addrs)) n0 !fst_
          else CtrlFail.handle_round ttl quorum fsc c n0 !fst_ in
        let tr = frun_traced evs in
        advance (int_of_string k);
        Stdlib.Printf.sprintf "D tr=%s nb=%d cr=%d %s" (tr_s tr) (int_of_nat nb) (if cr then 1 else 0) (fail_obs ())
      | [("meta" | "mig") as kd; k; n0; addrs] ->
        let addrs = Stdlib.List.map (fun x -> nn (int_of_string x)) (split ',' addrs) in
        let k = nn (int_of_string k) and n0 = nat_of_int (int_of_string n0) in
        let ((evs, nb), out) = if kd = "meta" then meta_round served sc k addrs n0 !st else mig_round served sc k addrs n0 !st in
        let (s', tr) = run_traced evs !st in
        st := s';
        Stdlib.Printf.sprintf "R tr=%s nb=%d cr=%d %s" (tr_s tr) (int_of_nat nb) (match out with Crashed -> 1 | _ -> 0) (observe !st)
      | ["nop"] | ["quiet"] -> "F"
      | ["restart"; a] ->
        let (s', tr) = run_traced [ProxyRestart (nn (int_of_string a))] !st in
        st := s';
        Stdlib.Printf.sprintf "X tr=%s %s" (tr_s tr) (observe !st)
      | ["replay"; k; x; y] ->
        let (s', tr) = run_traced (inject_events (k, x, y) !st) !st in
        st := s';
        Stdlib.Printf.sprintf "X tr=%s %s" (tr_s tr) (observe !st)
      | _ -> failwith ("step " ^ s)) steps in
  "O " ^ cat " ; " outs
