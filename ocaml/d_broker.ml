(* Model driver for the broker group. Case line: "H <ordered> ; op ; op ..." (resolved history, see harness/broker).
   Output: "O res hs hv mon ; ..." one segment per op, identical to the Rust side when model and code agree. *)
open Vio
open Broker

let t0 = 2000000000

let ni = int_of_n
let nn = n_of_int
let si n = string_of_int (ni n)
let rec int_of_natc n = int_of_nat n

(* ---------- canonical text ---------- *)
let ranges_s (rl : Ranges.rangelist) =
  if rl = [] then "E" else Stdlib.String.concat "," (Stdlib.List.map (fun (a, b) -> si a ^ "-" ^ si b) rl)
let optranges_s = function None -> "N" | Some rl -> ranges_s rl
let role_s = function RNormal -> "n" | RFirst -> "f" | RSecond -> "s"
let b01 b = if b then "1" else "0"
let mig_s (m : mig_store) =
  let mt = m.ms_meta in
  Stdlib.Printf.sprintf "%s/%s/%s/%d/%s/%d/%s" (ranges_s m.ms_ranges) (b01 m.ms_out) (si mt.mm_epoch)
    (int_of_natc mt.mm_src_idx) (b01 mt.mm_src_part) (int_of_natc mt.mm_dst_idx) (b01 mt.mm_dst_part)
let migs_s l = "[" ^ Stdlib.String.concat " " (Stdlib.List.map mig_s l) ^ "]"
let chunk_s (c : chunk) =
  Stdlib.String.concat ";" [role_s c.ck_role; optranges_s c.ck_stable0; optranges_s c.ck_stable1; migs_s c.ck_mig0; migs_s c.ck_mig1;
                     si c.ck_proxy0; si c.ck_proxy1; si c.ck_host0; si c.ck_host1; si c.ck_n0; si c.ck_n1; si c.ck_n2; si c.ck_n3]
let cluster_s (name, (c : cluster)) =
  Stdlib.Printf.sprintf "{%s:%s:%s:%s}" (si name) (si c.cl_epoch) (si c.cl_config) (Stdlib.String.concat "|" (Stdlib.List.map chunk_s c.cl_chunks))
let res_s (a, (r : presource)) =
  Stdlib.Printf.sprintf "{%s:%s:%s:%s:%s:%s}" (si a) (si r.pr_n0) (si r.pr_n1) (si r.pr_host) (si r.pr_index)
    (match r.pr_cluster with None -> "-" | Some n -> si n)
let failures_s (a, l) =
  Stdlib.Printf.sprintf "{%s:%s}" (si a) (Stdlib.String.concat "," (Stdlib.List.map (fun (r, t) -> si r ^ "=" ^ string_of_int (t0 - int_of_z t)) l))
let state_s (s : store) =
  Stdlib.Printf.sprintf "E%s O%s C%s P%s F[%s] R%s" (si s.st_epoch) (b01 s.st_ordered)
    (Stdlib.String.concat "" (Stdlib.List.map cluster_s s.st_clusters))
    (Stdlib.String.concat "" (Stdlib.List.map res_s s.st_proxies))
    (Stdlib.String.concat "," (Stdlib.List.map si s.st_failed))
    (Stdlib.String.concat "" (Stdlib.List.map failures_s s.st_failures))

let vmeta_s (m : vmeta) = Stdlib.String.concat ":" [si m.vm_epoch; si m.vm_src_proxy; si m.vm_src_node; si m.vm_dst_proxy; si m.vm_dst_node]
let vslot_s ((rl, t) : vslot) =
  ranges_s rl ^ "/" ^ (match t with VNone -> "-" | VMigrating m -> "M:" ^ vmeta_s m | VImporting m -> "I:" ^ vmeta_s m)
let vslots_s l = "[" ^ Stdlib.String.concat " " (Stdlib.List.map vslot_s l) ^ "]"
let vnode_s free (n : vnode) =
  Stdlib.Printf.sprintf "(%s,%s,%s,%s,%s)" (si n.vn_addr) (si n.vn_proxy) (if n.vn_master then "M" else "R") (vslots_s n.vn_slots)
    (if free then "-" else si n.vn_peer_node ^ "@" ^ si n.vn_peer_proxy)
let vcluster_s = function
  | None -> "none"
  | Some None -> "panic"
  | Some (Some (v : vcluster)) ->
    Stdlib.Printf.sprintf "e%s c%s %s" (si v.vc_epoch) (si v.vc_config) (Stdlib.String.concat "" (Stdlib.List.map (vnode_s false) v.vc_nodes))
let vproxy_s = function
  | None -> "none"
  | Some None -> "panic"
  | Some (Some (v : vproxy)) ->
    let free = (v.vp_cluster = None) in
    Stdlib.Printf.sprintf "%s e%s %s peers%s cfg%s" (match v.vp_cluster with None -> "-" | Some n -> si n) (si v.vp_epoch)
      (Stdlib.String.concat "" (Stdlib.List.map (vnode_s free) v.vp_nodes))
      (Stdlib.String.concat "" (Stdlib.List.map (fun (p, sl) -> "<" ^ si p ^ vslots_s sl ^ ">") v.vp_peers))
      (match v.vp_config with None -> "-" | Some c -> si c)

let limits = [0; 1; 2]
let views_s (s : store) =
  let b = Stdlib.Buffer.create 4096 in
  Stdlib.List.iter (fun (name, _) ->
      Stdlib.List.iter (fun l -> Stdlib.Buffer.add_string b (Stdlib.Printf.sprintf "C%s/%d=%s\n" (si name) l (vcluster_s (view_cluster (nn l) s name)))) limits)
    s.st_clusters;
  Stdlib.List.iter (fun (a, _) ->
      Stdlib.List.iter (fun l -> Stdlib.Buffer.add_string b (Stdlib.Printf.sprintf "P%s/%d=%s\n" (si a) l (vproxy_s (view_proxy (nn l) s a)))) limits)
    s.st_proxies;
  Stdlib.Buffer.contents b

let fnv (s : string) : string =
  let h = ref 0xcbf29ce484222325L in
  Stdlib.String.iter (fun c -> h := Stdlib.Int64.mul (Stdlib.Int64.logxor !h (Stdlib.Int64.of_int (Stdlib.Char.code c))) 0x100000001b3L) s;
  Stdlib.Printf.sprintf "%016Lx" !h

(* monitors evaluated on the model state (extracted boolean predicates) *)
let monitors (s : store) : string = "m=" ^ (if check_metadata s then "ok" else "check_metadata")

(* ---------- op parsing ---------- *)
let optn s = if s = "-" then None else Some (nn (int_of_string s))
let pairs_of s =
  if s = "-" then [] else
    Stdlib.List.map (fun p -> match Stdlib.String.split_on_char ':' p with
        | [a; b] -> (nn (int_of_string a), nn (int_of_string b))
        | _ -> failwith "pair") (Stdlib.String.split_on_char ',' s)
let ranges_of s =
  if s = "-" || s = "E" then [] else
    Stdlib.List.map (fun p -> match Stdlib.String.split_on_char '-' p with
        | [a; b] -> (nn (int_of_string a), nn (int_of_string b))
        | _ -> failwith "range") (Stdlib.String.split_on_char ',' s)
let num s = nn (int_of_string s)
let bool_of s = (s = "1")

let err_s = function
  | E_InUse -> "IN_USE" | E_NoAvailableResource -> "NO_AVAILABLE_RESOURCE" | E_ResourceNotBalance -> "RESOURCE_NOT_BALANCE"
  | E_AlreadyExisted -> "ALREADY_EXISTED" | E_ClusterNotFound -> "CLUSTER_NOT_FOUND" | E_FreeNodeNotFound -> "FREE_NODE_NOT_FOUND"
  | E_FreeNodeFound -> "FREE_NODE_FOUND" | E_ProxyNotFound -> "PROXY_NOT_FOUND" | E_InvalidNodeNum -> "INVALID_NODE_NUMBER"
  | E_NodeNumAlreadyEnough -> "NODE_NUM_ALREADY_ENOUGH" | E_InvalidMigrationTask -> "INVALID_MIGRATION_TASK"
  | E_MigrationTaskNotFound -> "MIGRATION_TASK_NOT_FOUND" | E_MigrationRunning -> "MIGRATION_RUNNING" | E_InvalidConfig -> "INVALID_CONFIG"
  | E_SlotsAlreadyEven -> "SLOTS_ALREADY_EVEN" | E_SmallEpoch -> "EPOCH_SMALLER_THAN_CURRENT" | E_MissingIndex -> "MISSING_SERVER_PROXY_INDEX"
  | E_ProxyResourceOutOfOrder -> "PROXY_RESOURCE_OUT_OF_ORDER" | E_OneClusterAlreadyExisted -> "ONE_CLUSTER_ALREADY_EXISTED"
  | E_BadChoice -> "MODEL_REJECTS_CHOICE"

let res_str = function
  | ROk -> "ok"
  | RBool b -> "bool:" ^ b01 b
  | RList l -> "list:" ^ Stdlib.String.concat "," (Stdlib.List.map si l)
  | RScale NoOp -> "scale:noop" | RScale ScaleOut -> "scale:out" | RScale ScaleDown -> "scale:down"
  | RRepl None -> "repl:-" | RRepl (Some r) -> "repl:" ^ si r
  | RErr e -> "err:" ^ err_s e
  | RPanic -> "panic"

let cur_store : store ref = ref (init_store false)

let parse_op (snaps : store array ref) (toks : string list) : op =
  match toks with
  | ["addproxy"; a; h; i] -> OAddProxy (num a, optn h, optn i)
  | ["rmproxy"; a] -> ORemoveProxy (num a)
  | ["addcluster"; n; k; cfg; ps] -> OAddCluster (num n, num k, num cfg, pairs_of ps)
  | ["rmcluster"; n] -> ORemoveCluster (num n)
  | ["addnodes"; n; k; ps] -> OAutoAddNodes (num n, num k, pairs_of ps)
  | ["scaleup"; n; k; ps] -> OAutoScaleUp (num n, num k, pairs_of ps)
  | ["delfree"; n] -> OAutoDeleteFree (num n)
  | ["migrate"; n] -> OMigrateSlots (num n)
  | ["scaledown"; n; k] -> OScaleDown (num n, num k)
  | ["commit"; n; e; tag; clr; rl] ->
    OCommit (num n, ranges_of rl, (match tag with "m" -> TagMigrating | "i" -> TagImporting | _ -> TagNone), num e, bool_of clr)
  | ["commitnth"; n; j; clr] -> OCommitNth (num n, num j, bool_of clr)
  | ["commitstale"; n; j; clr; delta] ->
    (* the j-th pending migration's ranges with an epoch that is delta too old (saturating) *)
    (match nth_out_entry !cur_store (num n) (num j) with
     | Some m ->
       let e = int_of_n m.ms_meta.mm_epoch - int_of_string delta in
       OCommit (num n, m.ms_ranges, TagMigrating, nn (if e < 0 then 0 else e), bool_of clr)
     | None -> OCommit (num n, [], TagMigrating, nn 0, bool_of clr))
  | ["autochange"; n; k; ps] -> OAutoChange (num n, num k, pairs_of ps)
  | ["autoscaleout"; n; k] -> OAutoScaleOut (num n, num k)
  | ["replace"; a; _lim; ch] -> OReplaceFailed (num a, optn ch)
  | ["balance"; n] -> OBalance (num n)
  | ["config"; n; v; c] -> OChangeConfig (num n, bool_of v, num c)
  | ["addfail"; a; r; age] -> OAddFailure (num a, num r, z_of_int (t0 - int_of_string age))
  | ["getfail"; ttl; q] -> OGetFailures (z_of_int t0, z_of_int (int_of_string ttl), num q)
  | ["cleanfail"; ttl; q] -> OCleanupFailures (z_of_int t0, z_of_int (int_of_string ttl), num q)
  | ["forcebump"; e] -> OForceBump (num e)
  | ["recover"; e] -> ORecoverEpoch (num e)
  | ["svcrecover"; m] -> ORecoverEpoch (nn (int_of_string m + 2))   (* service: +1, storage: +1 (BrokerEpochMain.recover_service) *)
  | ["restore"; k] -> ORestore ((!snaps).(int_of_string k))
  | _ -> failwith ("bad op: " ^ Stdlib.String.concat " " toks)

let verbose = (try Sys.getenv "UM_VERBOSE" = "1" with Not_found -> false)

let run_case (line : string) : string =
  let segs = Stdlib.List.map Stdlib.String.trim (Stdlib.String.split_on_char ';' line) in
  match segs with
  | [] -> failwith "empty"
  | hd :: ops ->
    let ordered = (match split_ws hd with ["H"; o] -> o = "1" | _ -> failwith "bad header") in
    let s = ref (init_store ordered) in
    let snaps = ref [| !s |] in
    let outs = Stdlib.List.map (fun optxt ->
        cur_store := !s;
        let o = parse_op snaps (split_ws optxt) in
        let (s', r) = step !s o in
        s := s';
        snaps := Stdlib.Array.append !snaps [| s' |];
        let st = state_s s' and vt = views_s s' in
        let mon = monitors s' in
        if verbose then Stdlib.Printf.sprintf "%s\n  STATE %s\n  VIEWS\n%s  MON %s" (res_str r) st vt mon
        else Stdlib.Printf.sprintf "%s %s %s %s" (res_str r) (fnv st) (fnv vt) mon) ops in
    "O " ^ Stdlib.String.concat " ; " outs
