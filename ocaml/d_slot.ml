(* Driver of the extracted `slot` models (C09 Slot, C14 Topo).  Case lines: see harness/slot/src/dom.rs *)
open Vio

let str_of_bytes (l : BinNums.coq_N list) : string = bytes_of_nlist l
let bytes_of_str (s : string) = nlist_of_string s

(* layout token: "-" | addr@s-e,s-e;addr@... *)
let parse_range (s : string) =
  match String.index_opt s '-' with
  | Some i -> (n_of_decstr (String.sub s 0 i), n_of_decstr (String.sub s (i + 1) (String.length s - i - 1)))
  | None -> failwith ("bad range " ^ s)

let parse_layout (tok : string) =
  if tok = "-" then []
  else
    List.map (fun node ->
        match String.index_opt node '@' with
        | None -> failwith ("bad node " ^ node)
        | Some i ->
          let a = String.sub node 0 i in
          let rs = String.sub node (i + 1) (String.length node - i - 1) in
          let ranges = if rs = "" then [] else List.map parse_range (String.split_on_char ',' rs) in
          (bytes_of_str a, ranges))
      (String.split_on_char ';' tok)

(* run-length encoding of an owner list: "s-e:owner,..." *)
let rle (owners : string list) : string =
  let buf = Buffer.create 256 in
  let rec go i start cur = function
    | [] -> if i > 0 then Buffer.add_string buf (Printf.sprintf "%d-%d:%s" start (i - 1) cur)
    | o :: r ->
      if i = 0 then go 1 0 o r
      else if o = cur then go (i + 1) start cur r
      else begin
        Buffer.add_string buf (Printf.sprintf "%d-%d:%s," start (i - 1) cur);
        go (i + 1) i o r
      end in
  go 0 0 "" owners;
  Buffer.contents buf

let slot_num = 16384

let parse_cfg (s : string) =
  let kv = List.map (fun p -> match String.index_opt p '=' with
      | Some i -> (String.sub p 0 i, String.sub p (i + 1) (String.length p - i - 1))
      | None -> failwith "cfg") (String.split_on_char ',' s) in
  let get k = List.assoc k kv in
  let cf = { Slot.c_ar = (get "ar" = "1");
             Slot.c_default_redir = (if get "dr" = "-" then None else Some (bytes_of_str (get "dr")));
             Slot.c_max_redir = (if get "mr" = "-" then None else Some (n_of_decstr (get "mr"))) } in
  (cf, get "name" = "0")

let install_cache : (string, Slot.installed) Hashtbl.t = Hashtbl.create 16

let parse_elem (t : string) : BinNums.coq_N list option = if t = "N" then None else Some (unhex t)

let fmt_cmd (c : BinNums.coq_N list option list) : string =
  String.concat " " (List.map (fun e -> match e with None -> "N" | Some b -> hex b) c)

let fmt_sent sent =
  let items = List.map (fun (a, c) -> str_of_bytes a ^ " " ^ fmt_cmd c) sent in
  String.concat " ; " (List.sort compare items)

let run_case (line : string) : string =
  let toks = ref (split_ws line) in
  match next toks with
  | "tag" ->
    (match Slot.get_hash_tag (unhex (next toks)) with
     | Slot.TagOk t -> "tag " ^ hex t
     | Slot.TagPanic -> "panic")
  | "crc" -> "crc " ^ decstr_of_n (Slot.crc16 (unhex (next toks)))
  | "slot" -> "slot " ^ decstr_of_n (Slot.slot (unhex (next toks)))
  | "same" -> "same " ^ (if Slot.same_slot (List.map unhex !toks) then "1" else "0")
  | "table" | "fromranges" as k ->
    let m = parse_layout (next toks) in
    let d = Slot.slot_map_new m in
    k ^ " " ^ rle (List.map (fun o -> match o with Some a -> str_of_bytes a | None -> "-") (Slot.slot_map_dump d))
  | "otable" ->
    let m = parse_layout (next toks) in
    let owners = List.init slot_num (fun s ->
        match Slot.owners m (n_of_int s) with
        | [] -> "-"
        | l -> String.concat "|" (List.sort_uniq compare (List.map str_of_bytes l))) in
    "otable " ^ rle owners
  | "route" ->
    let cfs = next toks in
    let ls = next toks in
    let ps = next toks in
    let (cf, noname) = parse_cfg cfs in
    let key = cfs ^ " " ^ ls ^ " " ^ ps in
    let ins = match Hashtbl.find_opt install_cache key with
      | Some i -> i
      | None ->
        let i = Slot.install cf { Slot.m_noname = noname; Slot.m_local = parse_layout ls; Slot.m_peer = parse_layout ps } in
        if Hashtbl.length install_cache > 64 then Hashtbl.reset install_cache;
        Hashtbl.add install_cache key i; i in
    let c = List.map parse_elem !toks in
    (match Slot.handle_cmd Slot.std_backend cf ins c with
     | Slot.Out (r, sent) -> "reply " ^ resp_to_string r ^ " | sent " ^ fmt_sent sent
     | Slot.OutCanceled sent -> "canceled | sent " ^ fmt_sent sent
     | Slot.OutPanic -> "panic"
     | Slot.OutNotModelled -> "notmodelled")
  | k -> "unknown-kind " ^ k

(* ---------- C14: topology ---------- *)
(* tagged layout: "-" | addr@T:s-e,s-e+T:s-e;addr@...   T in n|m|i ; a node without slot ranges: addr@ *)
let parse_tlayout (tok : string) =
  if tok = "-" then []
  else
    List.map (fun node ->
        match String.index_opt node '@' with
        | None -> failwith ("bad node " ^ node)
        | Some i ->
          let a = String.sub node 0 i in
          let rest = String.sub node (i + 1) (String.length node - i - 1) in
          let srs = if rest = "" then [] else
              List.map (fun sr ->
                  let tg = (match sr.[0] with 'n' -> Topo.TNone | 'm' -> Topo.TMigrating | 'i' -> Topo.TImporting | _ -> failwith "tag") in
                  let rs = String.sub sr 2 (String.length sr - 2) in
                  { Topo.sr_ranges = (if rs = "" then [] else List.map parse_range (String.split_on_char ',' rs)); Topo.sr_tag = tg })
                (String.split_on_char '+' rest) in
          (bytes_of_str a, srs))
      (String.split_on_char ';' tok)

let parse_state = function
  | "pc" -> Topo.PreCheck | "pb" -> Topo.PreBlocking | "ps" -> Topo.PreSwitch | "sc" -> Topo.Scanning
  | "fs" -> Topo.FinalSwitch | "cm" -> Topo.SwitchCommitted | s -> failwith ("state " ^ s)

(* states: "-" | s-e,s-e=pc;...  (the resulting HashMap; keys distinct) *)
let parse_states (tok : string) =
  if tok = "-" then []
  else List.map (fun e ->
      match String.index_opt e '=' with
      | None -> failwith "state entry"
      | Some i ->
        let rs = String.sub e 0 i in
        ((if rs = "" then [] else List.map parse_range (String.split_on_char ',' rs)),
         parse_state (String.sub e (i + 1) (String.length e - i - 1))))
      (String.split_on_char ';' tok)

let fmt_ranges (rs : (BinNums.coq_N * BinNums.coq_N) list) : string =
  let l = List.map (fun (a, b) -> (int_of_n a, int_of_n b)) rs in
  String.concat "," (List.map (fun (a, b) -> Printf.sprintf "%d-%d" a b) (List.sort compare l))

let run_topo (with_route : bool) (toks : string list ref) : string =
  let v = (match next toks with "1" -> Topo.V1 | _ -> Topo.V2) in
  let epoch = n_of_decstr (next toks) in
  let self = next toks in
  let local = parse_tlayout (next toks) in
  let peer = parse_tlayout (next toks) in
  let st = parse_states (next toks) in
  let m = { Topo.t_epoch = epoch; Topo.t_local = local; Topo.t_peer = peer } in
  let lines = Topo.gen_cluster_nodes (bytes_of_str self) m st v in
  let nodes = List.map (fun l ->
      let a = str_of_bytes l.Topo.nl_addr in
      let f = str_of_bytes l.Topo.nl_field in
      let fk = if f = a then "v1" else if f = a ^ "@5299" then "v2" else "bad" in
      Printf.sprintf "%s,%s,%s,%s=%s" a (if l.Topo.nl_myself then "m" else "p") (decstr_of_n l.Topo.nl_epoch) fk
        (fmt_ranges l.Topo.nl_ranges)) lines in
  let slots = match Topo.gen_cluster_slots (bytes_of_str self) m st with
    | None -> "err"
    | Some es ->
      let tbl = Hashtbl.create 8 in
      List.iter (fun e ->
          let a = str_of_bytes e.Topo.se_host ^ ":" ^ str_of_bytes e.Topo.se_port in
          let cur = try Hashtbl.find tbl a with Not_found -> [] in
          Hashtbl.replace tbl a ((e.Topo.se_start, e.Topo.se_end) :: cur)) es;
      let items = Hashtbl.fold (fun a rs acc -> (a ^ "=" ^ fmt_ranges rs) :: acc) tbl [] in
      String.concat ";" (List.sort compare items) in
  let route =
    if not with_route then ""
    else begin
      let rm = Topo.routing_meta m in
      (* owner SETS: with overlapping entries (a migrating range is listed at its source and its destination) the table
         winner depends on HashMap order; the implementation's answer must be a member *)
      let set m s = match Slot.owners m (n_of_int s) with
        | [] -> None
        | l -> Some (String.concat "|" (List.sort_uniq compare (List.map str_of_bytes l))) in
      let owners = List.init slot_num (fun s ->
          match set rm.Slot.m_local s with
          | Some a -> "L" ^ a
          | None -> (match set rm.Slot.m_peer s with Some a -> "M" ^ a | None -> "-")) in
      " | route " ^ rle owners
    end in
  "nodes " ^ String.concat ";" (List.sort compare nodes) ^ " | slots " ^ slots ^ route

let run_case (line : string) : string =
  let toks = ref (split_ws line) in
  match !toks with
  | "nodes" :: r -> toks := r; run_topo true toks
  | "pnodes" :: r -> toks := r; run_topo false toks
  | _ -> run_case line
