(* Driver of the extracted `slot` models (C09 Slot, C14 Topo).  Case lines: see harness/slot/src/dom.rs *)
open Vio

let str_of_bytes (l : BinNums.coq_N list) : string = bytes_of_nlist l
let bytes_of_str (s : string) = nlist_of_string s

(* layout token: "-" | addr@s-e,s-e;addr@... *)
let parse_range (s : string) =
  match String.index_opt s '-' with
  | Some i -> (n_of_decstr (String.sub s 0 i), n_of_decstr (String.sub s (i + 1) (String.length s - i - 1)))
  | None -> failwith ("bad range " ^ s)

let parse_layout (tok : string) =
  if tok = "-" then []
  else
    List.map (fun node ->
        match String.index_opt node '@' with
        | None -> failwith ("bad node " ^ node)
        | Some i ->
          let a = String.sub node 0 i in
          let rs = String.sub node (i + 1) (String.length node - i - 1) in
          let ranges = if rs = "" then [] else List.map parse_range (String.split_on_char ',' rs) in
          (bytes_of_str a, ranges))
      (String.split_on_char ';' tok)

(* run-length encoding of an owner list: "s-e:owner,..." *)
let rle (owners : string list) : string =
  let buf = Buffer.create 256 in
  let rec go i start cur = function
    | [] -> if i > 0 then Buffer.add_string buf (Printf.sprintf "%d-%d:%s" start (i - 1) cur)
    | o :: r ->
      if i = 0 then go 1 0 o r
      else if o = cur then go (i + 1) start cur r
      else begin
        Buffer.add_string buf (Printf.sprintf "%d-%d:%s," start (i - 1) cur);
        go (i + 1) i o r
      end in
  go 0 0 "" owners;
  Buffer.contents buf

let slot_num = 16384

let parse_cfg (s : string) =
  let kv = List.map (fun p -> match String.index_opt p '=' with
      | Some i -> (String.sub p 0 i, String.sub p (i + 1) (String.length p - i - 1))
      | None -> failwith "cfg") (String.split_on_char ',' s) in
  let get k = List.assoc k kv in
  let cf = { Slot.c_ar = (get "ar" = "1");
             Slot.c_default_redir = (if get "dr" = "-" then None else Some (bytes_of_str (get "dr")));
             Slot.c_max_redir = (if get "mr" = "-" then None else Some (n_of_decstr (get "mr"))) } in
  (cf, get "name" = "0")

let install_cache : (string, Slot.installed) Hashtbl.t = Hashtbl.create 16

let parse_elem (t : string) : BinNums.coq_N list option = if t = "N" then None else Some (unhex t)

let fmt_cmd (c : BinNums.coq_N list option list) : string =
  String.concat " " (List.map (fun e -> match e with None -> "N" | Some b -> hex b) c)

let fmt_sent sent =
  let items = List.map (fun (a, c) -> str_of_bytes a ^ " " ^ fmt_cmd c) sent in
  String.concat " ; " (List.sort compare items)

let run_case (line : string) : string =
  let toks = ref (split_ws line) in
  match next toks with
  | "tag" ->
    (match Slot.get_hash_tag (unhex (next toks)) with
     | Slot.TagOk t -> "tag " ^ hex t
     | Slot.TagPanic -> "panic")
  | "crc" -> "crc " ^ decstr_of_n (Slot.crc16 (unhex (next toks)))
  | "slot" -> "slot " ^ decstr_of_n (Slot.slot (unhex (next toks)))
  | "same" -> "same " ^ (if Slot.same_slot (List.map unhex !toks) then "1" else "0")
  | "table" | "fromranges" as k ->
    let m = parse_layout (next toks) in
    let d = Slot.slot_map_new m in
    k ^ " " ^ rle (List.map (fun o -> match o with Some a -> str_of_bytes a | None -> "-") (Slot.slot_map_dump d))
  | "otable" ->
    let m = parse_layout (next toks) in
    let owners = List.init slot_num (fun s ->
        match Slot.owners m (n_of_int s) with
        | [] -> "-"
        | l -> String.concat "|" (List.sort_uniq compare (List.map str_of_bytes l))) in
    "otable " ^ rle owners
  | "route" ->
    let cfs = next toks in
    let ls = next toks in
    let ps = next toks in
    let (cf, noname) = parse_cfg cfs in
    let key = cfs ^ " " ^ ls ^ " " ^ ps in
    let ins = match Hashtbl.find_opt install_cache key with
      | Some i -> i
      | None ->
        let i = Slot.install cf { Slot.m_noname = noname; Slot.m_local = parse_layout ls; Slot.m_peer = parse_layout ps } in
        if Hashtbl.length install_cache > 64 then Hashtbl.reset install_cache;
        Hashtbl.add install_cache key i; i in
    let c = List.map parse_elem !toks in
    (match Slot.handle_cmd Slot.std_backend cf ins c with
     | Slot.Out (r, sent) -> "reply " ^ resp_to_string r ^ " | sent " ^ fmt_sent sent
     | Slot.OutCanceled sent -> "canceled | sent " ^ fmt_sent sent
     | Slot.OutPanic -> "panic"
     | Slot.OutNotModelled -> "notmodelled")
  | k -> "unknown-kind " ^ k
