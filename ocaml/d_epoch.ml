(* Driver of the extracted C05 model (group epoch).
   Case lines:
     seq <host> <k> <msg>*k
     concobs <host> <kpre> <msg>*kpre <kthr> <msg>*kthr <ksuf> <msg>*ksuf OBS <r1,..,rk> <roles> <suffix step outputs>*ksuf
     conc ...                      (implementation only; the model answers "conc-skip")
   <msg> ::= C <epoch> <flags> <content> <route> <n> <addr>*n
           | R <epoch> <flags> <nm> (<cluster> <addr> <peers>)*nm <nr> (<cluster> <addr> <peers>)*nr
   Step output: reply/cl_epoch/content/route/roles   (roles = sorted, comma-joined cluster:addr:M|R:peers; "-" if none) *)
open Vio

let parse_n toks = n_of_decstr (next toks)
let parse_int toks = int_of_string (next toks)
let parse_list toks f = let n = parse_int toks in Stdlib.List.init n (fun _ -> f toks)

let parse_node toks : Epoch.rnode =
  let c = unhex (next toks) in
  let a = unhex (next toks) in
  let p = parse_n toks in
  { Epoch.rn_cluster = c; rn_addr = a; rn_peers = p }

let parse_msg toks : Epoch.msg =
  match next toks with
  | "C" ->
    let e = parse_n toks in
    let f = unhex (next toks) in
    let c = parse_n toks in
    let r = unhex (next toks) in
    let l = parse_list toks (fun t -> unhex (next t)) in
    Epoch.MCluster { Epoch.cm_epoch = e; cm_flags = f; cm_locals = l; cm_content = c; cm_route = r }
  | "R" ->
    let e = parse_n toks in
    let f = unhex (next toks) in
    let ms = parse_list toks parse_node in
    let rs = parse_list toks parse_node in
    Epoch.MRepl { Epoch.rm_epoch = e; rm_flags = f; rm_masters = ms; rm_replicas = rs }
  | t -> failwith ("bad msg kind " ^ t)

let reply_word (r : Epoch.reply) = match r with Epoch.OK -> "ok" | Epoch.OLD_EPOCH -> "old" | Epoch.NOT_MY_META -> "notmine"

let roles_string_raw (rs : Epoch.roles) : string =
  let one ((c, a), (role, p)) =
    hex c ^ ":" ^ hex a ^ ":" ^ (match role with Epoch.RMaster -> "M" | Epoch.RReplica -> "R") ^ ":" ^ decstr_of_n p in
  match Stdlib.List.sort compare (Stdlib.List.map one rs) with
  | [] -> "-"
  | l -> Stdlib.String.concat "," l

(* memo (structural equality; few distinct role maps per case) *)
let roles_memo : (Epoch.roles, string) Hashtbl.t = Hashtbl.create 64
let roles_string (rs : Epoch.roles) : string =
  match Hashtbl.find_opt roles_memo rs with
  | Some s -> s
  | None ->
    if Hashtbl.length roles_memo > 5000 then Hashtbl.reset roles_memo;
    let s = roles_string_raw rs in Hashtbl.replace roles_memo rs s; s

let step_string (s : Epoch.pstate) (r : Epoch.reply) : string =
  let content, route = match s.Epoch.cl_meta with
    | None -> "-", "-"
    | Some (c, a) -> decstr_of_n c, hex a in
  Stdlib.String.concat "/" [reply_word r; decstr_of_n s.Epoch.cl_epoch; content; route; roles_string s.Epoch.rp_roles]

let run_seq host (s0 : Epoch.pstate) (ms : Epoch.msg list) : Epoch.pstate * string list =
  Stdlib.List.fold_left (fun (s, outs) m ->
      let (s', r) = Epoch.apply_msg host s m in
      (s', step_string s' r :: outs)) (s0, []) ms
  |> fun (s, outs) -> (s, Stdlib.List.rev outs)

(* ---- exhaustive exploration of the thread model: all quiescent outcomes of a batch ---- *)
let pc_string (p : Epoch.pc) = match p with
  | Epoch.PHost -> "h" | Epoch.PLoad -> "l" | Epoch.PStore -> "s" | Epoch.PSnap -> "n"
  | Epoch.PLock snap -> "k(" ^ roles_string snap ^ ")"
  | Epoch.PLate v -> "t" ^ decstr_of_n v
  | Epoch.PDone r -> "d" ^ (match r with Epoch.R_OK -> "o" | Epoch.R_OLD_EARLY -> "e" | Epoch.R_OLD_LATE -> "L" | Epoch.R_NOT_MY_META -> "n")

let state_key (g : Epoch.gstate) (pool : Epoch.thread list) =
  Stdlib.String.concat "|" (decstr_of_n g.Epoch.g_updating :: decstr_of_n g.Epoch.g_epoch :: (if g.Epoch.g_locked then "L" else "u")
                     :: roles_string g.Epoch.g_roles :: Stdlib.List.map (fun t -> pc_string t.Epoch.t_pc) pool)

let explore host (g0 : Epoch.gstate) (pool0 : Epoch.thread list) : (Epoch.gstate * Epoch.thread list) list =
  let seen = Hashtbl.create 4096 in
  let finals = ref [] in
  let stack = ref [ (g0, pool0) ] in
  Hashtbl.replace seen (state_key g0 pool0) ();
  while !stack <> [] do
    match !stack with
    | [] -> ()
    | (g, pool) :: rest ->
      stack := rest;
      let moved = ref false in
      Stdlib.List.iteri (fun i t ->
          match Epoch.tstep host g t with
          | None -> ()
          | Some (g', t') ->
            moved := true;
            let g' = { g' with Epoch.g_hist = [] } in
            let pool' = Stdlib.List.mapi (fun j u -> if j = i then t' else u) pool in
            let k = state_key g' pool' in
            if not (Hashtbl.mem seen k) then begin
              Hashtbl.replace seen k ();
              stack := (g', pool') :: !stack
            end) pool;
      if not !moved then finals := (g, pool) :: !finals
  done;
  !finals

let rreply_word (p : Epoch.pc) = match p with
  | Epoch.PDone r -> reply_word (Epoch.reply_of_rreply r)
  | _ -> "stuck"

let run_case (line : string) : string =
  let toks = ref (split_ws line) in
  match next toks with
  | "seq" ->
    let host = unhex (next toks) in
    let ms = parse_list toks parse_msg in
    let (_, outs) = run_seq host Epoch.ps_init ms in
    Stdlib.String.concat " " ("seq" :: outs)
  | "conc" -> "conc-skip"
  | "concobs" ->
    let host = unhex (next toks) in
    let pre = parse_list toks parse_msg in
    let thr = parse_list toks parse_msg in
    let suf = parse_list toks parse_msg in
    if next toks <> "OBS" then failwith "OBS expected";
    let obs_replies = next toks in
    let obs_roles = next toks in
    let obs_suffix = Stdlib.List.init (Stdlib.List.length suf) (fun _ -> next toks) in
    let (s1, _) = run_seq host Epoch.ps_init pre in
    let g0 = { Epoch.g_updating = s1.Epoch.rp_updating; g_epoch = s1.Epoch.rp_epoch; g_roles = s1.Epoch.rp_roles;
               g_locked = false; g_hist = [] } in
    let pool0 = Epoch.start_pool (Stdlib.List.map (fun m -> match m with Epoch.MRepl r -> r | _ -> failwith "thread msg must be R") thr) in
    let finals = explore host g0 pool0 in
    let matches (g, pool) =
      let replies = Stdlib.String.concat "," (Stdlib.List.map (fun t -> rreply_word t.Epoch.t_pc) pool) in
      replies = obs_replies && roles_string g.Epoch.g_roles = obs_roles &&
      (let s2 = { s1 with Epoch.rp_updating = g.Epoch.g_updating; rp_epoch = g.Epoch.g_epoch; rp_roles = g.Epoch.g_roles } in
       let (_, outs) = run_seq host s2 suf in
       outs = obs_suffix) in
    let n = Stdlib.List.length finals in
    if Stdlib.List.exists matches finals then Printf.sprintf "accept %d" n
    else begin
      let show (g, pool) = Stdlib.String.concat "," (Stdlib.List.map (fun t -> rreply_word t.Epoch.t_pc) pool) ^ "@" ^ decstr_of_n g.Epoch.g_epoch in
      let shown = Stdlib.List.sort_uniq compare (Stdlib.List.map show finals) in
      Printf.sprintf "reject %d outcomes: %s" n (Stdlib.String.concat " " (Stdlib.List.filteri (fun i _ -> i < 12) shown))
    end
  | k -> "unknown-kind " ^ k
