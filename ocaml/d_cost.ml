(* Model driver for group cost (C16): same case lines as harness/cost/src/dom.rs; prints the model's prediction
   "<ok n|need|invalid|panic> alloc=<bytes> steps=<n> depth=<n>" (the Python check relates it to the measured values) *)
open Vio

let cost_string (c : Cost.cost) : string =
  Printf.sprintf "alloc=%s steps=%s depth=%s" (decstr_of_n c.Cost.c_alloc) (decstr_of_n c.Cost.c_steps) (decstr_of_n c.Cost.c_depth)

let word (r : 'a Cost.cres) : string =
  match r with
  | Cost.COk (_, n) -> "ok " ^ string_of_int (int_of_nat n)
  | Cost.CNeed -> "need"
  | Cost.CInvalid -> "invalid"
  | Cost.CUnexpected -> "invalid"
  | Cost.CFuel -> "model-fuel"
  | Cost.CPanic -> "panic"

let decode_case (b : BinNums.coq_N list) : string =
  let (r, c) = Cost.decode_cost b in
  word r ^ " " ^ cost_string c

let upper (s : string) = String.uppercase_ascii s

let cmd_case (args : BinNums.coq_N list list) : string =
  match args with
  | name :: _ when (upper (bytes_of_nlist name) = "EVAL") ->
    let (r, c) = Cost.eval_keys_c (List.map (fun a -> Some a) args) in
    let w = match r with
      | Cost.EvMissingNumkeys -> "eval missing-numkeys"
      | Cost.EvInvalidNumkeys -> "eval invalid-numkeys"
      | Cost.EvSingle -> "eval single"
      | Cost.EvKeys ks -> "eval keys " ^ string_of_int (List.length ks)
      | Cost.EvPanic -> "panic" in
    w ^ " " ^ cost_string c
  | _ -> "unmodelled"

let range_case (specs : string list) : string =
  let parse s =
    match String.split_on_char '-' s with
    | [a; b] -> (n_of_decstr a, n_of_decstr b)
    | _ -> failwith "range" in
  let ((mn, len), c) = Cost.range_map_c (List.map parse specs) in
  Printf.sprintf "rangemap min=%s len=%s %s" (decstr_of_n mn) (decstr_of_n len) (cost_string c)

let run_case (line : string) : string =
  let toks = ref (split_ws line) in
  match next toks with
  | "alloc" | "hostile" -> decode_case (unhex (match !toks with [] -> "-" | t :: _ -> t))
  | "cmd" -> cmd_case (List.map unhex !toks)
  | "rangemap" -> range_case !toks
  | k -> "unknown-kind " ^ k
