(* generic main loop of a model driver: one canonical result line per case line *)
let main (f : string -> string) : unit =
  (try
     while true do
       let line = Stdlib.String.trim (input_line stdin) in
       if line <> "" && line.[0] <> '#' then begin
         print_endline (try f line with
                        | Failure m -> "model-failure " ^ m
                        | Not_found -> "model-failure not_found"
                        | Invalid_argument m -> "model-failure invalid_argument " ^ m
                        | Stack_overflow -> "model-failure stack_overflow");
         flush stdout
       end
     done
   with End_of_file -> ())
