(* Driver of the extracted barrier model (C11).
   run <term0> <thread specs ...> / <tid> <tid> ...
       thread spec:  S:<hint>:<inner>   hint = n | b | m<cmd_term>      inner = o | r | c
                     B:<polls>   P (a stop_blocking caller)   I (a command already in flight)
       prints one record per executed step (thread ids that are not enabled are skipped silently):
         <tid>:<label>><next label>:b<count>0>t<term>d<running=0>[:A1 = start_blocking returned][:D<done>][:H<task>][:R<task>]
       then " | hand=.. redisp=.. th=<current label of every thread> fin=<all finished>"
   explore <max edges> <term0> <thread specs ...>
       breadth-first exploration of the model's state graph (states deduplicated, logs ignored);
       prints one schedule per edge: the shortest path to the source state followed by the thread of the edge. *)
open Vio
open Barrier

let label_str (l : label) : string =
  match l with
  | L_ref_inc -> "ref_inc" | L_ref_dec -> "ref_dec" | L_task_inc -> "task_inc" | L_task_dec -> "task_dec"
  | L_state_load -> "state_load" | L_handoff -> "handoff" | L_enqueue -> "enqueue" | L_try_recv -> "try_recv"
  | L_redispatch -> "redispatch" | L_cas_load -> "cas_load" | L_cas_cas -> "cas_cas" | L_done_load -> "done_load"
  | L_fin ROk -> "fin.ok" | L_fin RRetry -> "fin.retry" | L_fin RCanceled -> "fin.canceled"
  | L_panic -> "panic"

let parse_hint (s : string) : hint =
  if s = "n" then HNotBlocking
  else if s = "b" then HBlocking
  else if String.length s > 1 && s.[0] = 'm' then
    HNotBlockingInMigration (n_of_decstr (String.sub s 1 (String.length s - 1)))
  else failwith ("bad hint " ^ s)

let parse_inner (s : string) : inner_res =
  match s with "o" -> IOk | "r" -> IRetry | "c" -> ICanceled | _ -> failwith ("bad inner " ^ s)

let parse_thread (s : string) : pc =
  match String.split_on_char ':' s with
  | ["S"; h; i] -> S_ref_inc (parse_hint h, parse_inner i)
  | ["B"; p] -> B_start_load (nat_of_int (int_of_string p))
  | ["P"] -> R_recv
  | ["I"] -> I_run
  | _ -> failwith ("bad thread spec " ^ s)

let ids (l : Datatypes.nat list) : string =
  if l = [] then "-" else String.concat "," (List.rev_map (fun n -> string_of_int (int_of_nat n)) l)

let is_zero_z (z : BinNums.coq_Z) = (z = BinNums.Z0)

let obs (sh : shared) : string =
  Printf.sprintf "b%dt%sd%d" (if sh.sh_count = BinNums.N0 then 0 else 1) (decstr_of_n sh.sh_term)
    (if is_zero_z sh.sh_running then 1 else 0)

let rec nth_pc (l : pc list) (i : int) : pc option =
  match l with [] -> None | x :: r -> if i = 0 then Some x else nth_pc r (i - 1)

let split_specs (toks : string list) : string list * string list =
  let rec go acc = function
    | [] -> (List.rev acc, [])
    | "/" :: r -> (List.rev acc, r)
    | x :: r -> go (x :: acc) r in
  go [] toks

let run (term0 : string) (specs : string list) (sched : string list) : string =
  let ths = List.map parse_thread specs in
  let st = ref (init_state (n_of_decstr term0) ths) in
  let buf = Buffer.create 1024 in
  List.iter (fun tok ->
      let tid = int_of_string tok in
      match nth_pc !st.st_threads tid with
      | None -> ()
      | Some p ->
        if is_finished p then ()
        else begin
          let (st', ev) = step !st (nat_of_int tid) in
          let next = match nth_pc st'.st_threads tid with Some q -> q | None -> failwith "lost thread" in
          if Buffer.length buf > 0 then Buffer.add_char buf ' ';
          Buffer.add_string buf
            (Printf.sprintf "%d:%s>%s:%s" tid (label_str (pc_label p)) (label_str (pc_label next)) (obs st'.st_sh));
          (match ev, p with
           | EvCasOk (_, _), B_start_cas (_, _, _) -> Buffer.add_string buf ":A1"
           | _ -> ());
          (match ev with
           | EvDoneLoad b -> Buffer.add_string buf (if b then ":D1" else ":D0")
           | EvHandoff (t, _) -> Buffer.add_string buf (":H" ^ string_of_int (int_of_nat t))
           | EvRedispatch t -> Buffer.add_string buf (":R" ^ string_of_int (int_of_nat t))
           | _ -> ());
          st := st'
        end) sched;
  let sh = !st.st_sh in
  Printf.sprintf "%s | hand=%s redisp=%s th=%s fin=%d" (Buffer.contents buf) (ids sh.sh_hand) (ids sh.sh_redisp)
    (String.concat "," (List.map (fun p -> label_str (pc_label p)) !st.st_threads))
    (if quiescent !st then 1 else 0)

(* ---- exploration ---- *)
let pc_key (p : pc) : string =
  let n x = string_of_int (int_of_nat x) in
  let h = function HNotBlocking -> "n" | HBlocking -> "b" | HNotBlockingInMigration t -> "m" ^ decstr_of_n t in
  let i = function IOk -> "o" | IRetry -> "r" | ICanceled -> "c" in
  let r = function ROk -> "o" | RRetry -> "r" | RCanceled -> "c" in
  match p with
  | S_ref_inc (a, b) -> "a" ^ h a ^ i b
  | S_load1 (a, b) -> "b" ^ h a ^ i b
  | S_task_inc b -> "c" ^ i b
  | S_retry_dec -> "d"
  | S_handoff b -> "e" ^ i b
  | S_ok_dec -> "f"
  | S_err_task_dec x -> "g" ^ r x
  | S_err_dec x -> "h" ^ r x
  | S_blocked_dec -> "i"
  | S_enqueue -> "j"
  | S_load2 -> "k"
  | R_recv -> "l"
  | R_redispatch t -> "m" ^ n t
  | B_start_load k -> "n" ^ n k
  | B_start_cas (k, c, t) -> "o" ^ n k ^ "." ^ decstr_of_n c ^ "." ^ decstr_of_n t
  | B_poll k -> "p" ^ n k
  | B_drop_load -> "q"
  | B_drop_cas (c, t) -> "r" ^ decstr_of_n c ^ "." ^ decstr_of_n t
  | I_run -> "s"
  | Fin x -> "t" ^ r x
  | Panicked b -> if b then "u" else "v"

let state_key (st : state) : string =
  let sh = st.st_sh in
  String.concat " "
    (decstr_of_n sh.sh_count :: decstr_of_n sh.sh_term :: decstr_of_z sh.sh_running
     :: ids sh.sh_queue :: (if sh.sh_sealed then "S" else "s") :: List.map pc_key st.st_threads)

let explore (maxe : int) (term0 : string) (specs : string list) : string =
  let ths = List.map parse_thread specs in
  let st0 = init_state (n_of_decstr term0) ths in
  let seen = Hashtbl.create 4096 in
  let q = Queue.create () in
  Hashtbl.add seen (state_key st0) ();
  Queue.add (st0, []) q;
  let out = Buffer.create 65536 in
  let edges = ref 0 and states = ref 1 and trunc = ref false in
  while not (Queue.is_empty q) do
    let (st, path) = Queue.pop q in
    List.iteri (fun tid p ->
        if not (is_finished p) then begin
          if !edges >= maxe then trunc := true
          else begin
            incr edges;
            let path' = tid :: path in
            Buffer.add_string out " ; ";
            Buffer.add_string out (String.concat "," (List.rev_map string_of_int path'));
            let (st', _) = step st (nat_of_int tid) in
            let k = state_key st' in
            if not (Hashtbl.mem seen k) then begin
              Hashtbl.add seen k (); incr states; Queue.add (st', path') q
            end
          end
        end) st.st_threads
  done;
  Printf.sprintf "explored states=%d edges=%d truncated=%d%s" !states !edges (if !trunc then 1 else 0) (Buffer.contents out)

let run_case (line : string) : string =
  match split_ws line with
  | "run" :: term0 :: rest -> let (specs, sched) = split_specs rest in run term0 specs sched
  | "explore" :: maxe :: term0 :: specs -> explore (int_of_string maxe) term0 specs
  | k :: _ -> "unknown-kind " ^ k
  | [] -> "empty"
