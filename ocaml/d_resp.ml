(* Model driver for group resp (C15): same case lines and canonical output as harness/resp/src/dom.rs *)
open Vio

let pkt_string (p : Resp.packet) : string =
  match Resp.to_resp_vec p with
  | Some v -> hex p.Resp.pk_data ^ " " ^ resp_to_string v
  | None -> hex p.Resp.pk_data ^ " panic"

let dec_case (b : BinNums.coq_N list) : string =
  match Resp.decode_indexed b with
  | Resp.DSome (p, _) ->
    (match Resp.to_resp_vec p with
     | Some v -> Printf.sprintf "ok %d %s %s" (List.length p.Resp.pk_data) (hex p.Resp.pk_data) (resp_to_string v)
     | None -> "panic IndexedResp::to_resp_vec")
  | Resp.DNone -> "need"
  | Resp.DErr -> "invalid"
  | Resp.DPanic -> "panic split_to out of bounds"
  | Resp.DFuel -> "model-fuel"

let stream_case (chunks : BinNums.coq_N list list) : string =
  let ((ps, left), st) = Resp.feed_all [] chunks in
  let items = List.map pkt_string ps in
  let last = match st with
    | Resp.StOk -> "end " ^ hex left
    | Resp.StErr -> "err"
    | Resp.StPanic -> "panic"
    | Resp.StFuel -> "model-fuel" in
  String.concat " ; " (items @ [last])

let omulti_string (o : Resp.omulti) : string =
  match o with
  | Resp.OSingle v -> "S " ^ resp_to_string v
  | Resp.OMulti vs ->
    String.concat " " (("M " ^ string_of_int (List.length vs)) :: List.map resp_to_string vs)

let multi_case (toks : string list ref) : string =
  let d = ref { Resp.md_state = BinNums.N0; Resp.md_buf = []; Resp.md_hint = None } in
  let buf = ref [] in
  let outs = ref [] in
  while !toks <> [] do
    (match next toks with
     | "P" ->
       let h = next toks in
       let hint = if h = "s" then Resp.HSingle
         else Resp.HMulti (nat_of_int (int_of_string (String.sub h 1 (String.length h - 1)))) in
       let (ok, st) = Resp.hint_produce !d.Resp.md_state hint in
       d := { !d with Resp.md_state = st };
       outs := (if ok then "p-ok" else "p-notready") :: !outs
     | "C" ->
       let c = unhex (next toks) in
       let b = !buf @ c in
       let (((os, r), d'), b') = Resp.mdrain (Resp.mdrain_fuel b) !d b in
       d := d'; buf := b';
       let last = match r with
         | Resp.MNone -> "none" | Resp.MErr -> "err" | Resp.MPanic -> "panic" | Resp.MFuel -> "model-fuel"
         | Resp.MSome _ -> "model-some" in
       outs := String.concat ", " (List.map omulti_string os @ [last]) :: !outs
     | t -> failwith ("bad event " ^ t))
  done;
  String.concat " ; " (List.rev (("left " ^ hex !buf) :: !outs))

let run_case (line : string) : string =
  let toks = ref (split_ws line) in
  match next toks with
  | "enc" -> "enc " ^ hex (Resp.encode (parse_resp toks))
  | "dec" -> dec_case (unhex (match !toks with [] -> "-" | t :: _ -> t))
  | "stream" -> stream_case (List.map unhex !toks)
  | "multi" -> multi_case toks
  | k -> "unknown-kind " ^ k
