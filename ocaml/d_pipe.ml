(* Model driver for group `pipe` (C08).
   acc <hoisted:0|1> <nconn> trace <node>:<event> .. # <observed completions ..>
       replays the observed per-node traces through Pipe.step (one model instance per backend node) and prints
       "accept # <id>=<outcome> .. [client <outcome> ..]"   or   "reject node=<n> at=<i> ev=<tok> # ..."
   fan <ids> err|single|multi<k>   -> Pipe.req_set_result *)
open Vio
open Pipe

let berr_of = function
  | "io" -> EIo | "canceled" -> ECanceled | "invalidstate" -> EInvalidState
  | "timeout" -> ETimeout | "proto" -> EInvalidProtocol
  | s -> failwith ("bad berr " ^ s)
let berr_name = function
  | EIo -> "io" | ECanceled -> "canceled" | EInvalidState -> "invalidstate"
  | ETimeout -> "timeout" | EInvalidProtocol -> "proto"

let outcome_name = function
  | ORep r -> "rep" ^ decstr_of_n r
  | OTaskErr e -> "taskerr:" ^ berr_name e
  | OCmdIo -> "cmdio"
  | OCmdBackend -> "cmdbackenderror"
  | OCanceled -> "cmdcanceled"
  | OConnectFailed -> "connfailed"
  | ORefused -> "refused"
  | OMultiPartial -> "multipartial"
  | ODropped -> "cmddropped"

let starts_with p s = String.length s >= String.length p && String.sub s 0 (String.length p) = p
let after p s = String.sub s (String.length p) (String.length s - String.length p)
let ids_of s = List.map n_of_decstr (String.split_on_char ',' s)

type nodest = { mutable st : state; mutable hclose : bool; mutable evs : event list; mutable n : int }

let run_acc toks =
  let hoisted = (next toks = "1") in
  let nconn = int_of_string (next toks) in
  (match next toks with "trace" -> () | t -> failwith ("expected trace, got " ^ t));
  let nodes = Array.init nconn (fun _ -> { st = init; hclose = false; evs = []; n = 0 }) in
  let sess = ref [] in
  let reject = ref None in
  let apply node tok e =
    let nd = nodes.(node) in
    (match step hoisted nd.st e with
     | Some s' -> nd.st <- s'; nd.evs <- e :: nd.evs
     | None -> if !reject = None then reject := Some (Printf.sprintf "reject node=%d at=%d ev=%s" node nd.n tok));
    nd.n <- nd.n + 1 in
  let rec loop () =
    match !toks with
    | [] -> ()
    | "#" :: _ -> ()
    | tok :: rest ->
      toks := rest;
      (if !reject = None then begin
        let i = String.index tok ':' in
        let node = int_of_string (String.sub tok 0 i) in
        let ev = String.sub tok (i + 1) (String.length tok - i - 1) in
        if node = 9 then sess := ev :: !sess
        else begin
          let nd = nodes.(node) in
          if starts_with "sub" ev then apply node tok (Submit (n_of_decstr (after "sub" ev)))
          else if starts_with "mul" ev then apply node tok (SubmitMulti (ids_of (after "mul" ev)))
          else if ev = "cok" then apply node tok ConnOk
          else if ev = "cfail" then apply node tok ConnFail
          else if ev = "wait" then apply node tok WaitDone
          else if ev = "poll" then apply node tok Poll
          else if starts_with "arr" ev then apply node tok (Arrive (n_of_decstr (after "arr" ev)))
          else if starts_with "werr:" ev then apply node tok (WriteErr (berr_of (after "werr:" ev)))
          else if starts_with "w" ev then apply node tok (WriteOk (n_of_decstr (after "w" ev)))
          else if starts_with "rerr:" ev then apply node tok (ReadErr (berr_of (after "rerr:" ev)))
          else if starts_with "rp" ev then
            let p = after "rp" ev in
            apply node tok (Reply (if p <> "" && p.[0] >= '0' && p.[0] <= '9' then n_of_decstr p else n_of_int 0))
          else if ev = "closed" then apply node tok Closed
          else if ev = "hclose" then nd.hclose <- true
          else if ev = "drop" then begin
            (* the connection objects were dropped: if the model still has the connection open this was the
               backend_timeout (or, after the harness dropped the senders, the closed task channel) *)
            match nd.st.s_mode with
            | MConnected ->
              (* the closure returns at the closed receiver before it touches the writer, so that poll is not in the log *)
              if nd.hclose then (apply node tok Poll; apply node tok SenderClosed) else apply node tok Timeout
            | _ -> ()
          end
          else if ev = "truncated" then ()
          else failwith ("bad event " ^ ev)
        end
      end);
      loop () in
  loop ();
  (* predicted completions *)
  let dones = List.concat_map (fun nd -> List.rev nd.st.s_done) (Array.to_list nodes) in
  let pend = List.concat_map (fun nd -> pending nd.st) (Array.to_list nodes) in
  let all = List.map (fun (t, o) -> (int_of_n t, outcome_name o)) dones
            @ List.map (fun t -> (int_of_n t, "silent")) pend in
  let locals = List.filter_map (fun ev ->
      if starts_with "sloc" ev then begin
        let body = after "sloc" ev in
        let i = String.index body '=' in
        Some (int_of_string (String.sub body 0 i), "rep" ^ String.sub body (i + 1) (String.length body - i - 1))
      end else None) !sess in
  let all = List.sort compare (all @ locals) in
  let phase_bad = List.exists (fun nd -> not (phases_ok (nat_of_int 0) (List.rev nd.evs))) (Array.to_list nodes) in
  let head = match !reject with
    | Some r -> r
    | None -> if phase_bad then "reject phase-order" else "accept" in
  let body = String.concat " " (List.map (fun (t, o) -> Printf.sprintf "%d=%s" t o) all) in
  (* session: requests in order, completions as predicted by the backend models, in the observed resolution order *)
  let sess_evs = List.rev !sess in
  let client =
    if sess_evs = [] then ""
    else begin
      let evs = List.concat_map (fun ev ->
          if starts_with "sreq" ev then [SReq (n_of_decstr (after "sreq" ev)); SPoll]
          else if starts_with "sloc" ev then begin
            (* answered by the session's command handler itself: the future is ready when it is pushed *)
            let body = after "sloc" ev in
            let i = String.index body '=' in
            [SDone (n_of_decstr (String.sub body 0 i), ORep (n_of_decstr (String.sub body (i + 1) (String.length body - i - 1)))); SPoll]
          end
          else if starts_with "sdone" ev then begin
            let body = after "sdone" ev in
            let i = String.index body '=' in
            let q = n_of_decstr (String.sub body 0 i) in
            match List.find_opt (fun (t, _) -> t = q) dones with
            | Some (_, o) -> [SDone (q, o); SPoll]
            | None -> []
          end else failwith ("bad session event " ^ ev)) sess_evs in
      let s = sess_run sess_init evs in
      " client " ^ String.concat " " (List.map (fun (_, o) -> outcome_name o) s.ss_out)
    end in
  head ^ " # " ^ body ^ (if client = " client " then " client" else client)

let run_fan toks =
  let ids = match next toks with "-" -> [] | s -> ids_of s in
  let kind = next toks in
  let res =
    if kind = "err" then MRErr OCanceled
    else if kind = "single" then MRSingle (n_of_int 0)
    else if starts_with "multi" kind then
      let k = int_of_string (after "multi" kind) in
      MRMulti (List.init k (fun i -> n_of_int (1000 + i)))
    else failwith ("bad fan kind " ^ kind) in
  let outs = req_set_result ids res in
  "fan " ^ String.concat " " (List.map (fun (t, o) ->
      Printf.sprintf "%d=%s" (int_of_n t)
        (match o with SubRep r -> "rep" ^ decstr_of_n r | SubErr o -> outcome_name o | SubInnerError -> "cmdinnererror")) outs)

let run_case (line : string) : string =
  let toks = ref (split_ws line) in
  match next toks with
  | "acc" -> run_acc toks
  | "fan" -> run_fan toks
  | k -> "unknown-kind " ^ k
