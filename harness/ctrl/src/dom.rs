// Group `ctrl` (C07): the real coordinator components (hook `undermoon::coordinator::verif`) wired to a real in-process
// MetaStore (hook `undermoon::broker::verif`) and real proxies (SharedForwardHandler) through fake MetaDataBroker /
// MetaManipulationBroker / RedisClientFactory implementations that inject a scripted fault at a chosen call boundary.
//
// Case line:   C07 <nproxy> <faults> <injects> ; step ; step ...
//   faults  : "-" | n:kind,n:kind..      kind = drop | dup | delay | noreply | crash     (n = global call-boundary number)
//   injects : "-" | n:restart:i,n:replay:j..   (performed just before boundary n)
//   steps   : addproxy i | addcluster N | addnodes N | migrate | failover i | config V | rmproxy i      (broker operations)
//             meta K | mig K              one round of ProxyMetaRespSynchronizer / ParMigrationStateSynchronizer (coordinator K)
//             finishmig                   let the real migration handshakes run until every task is SwitchCommitted
//             restart i | replay j        between rounds
// Call boundaries (numbered in the order the coordinator reaches them, over the whole case):
//   L listing of the proxies (all retrieve_proxies broker reads of a round count as one), G get_proxy, R UMCTL SETREPL,
//   C UMCTL SETCLUSTER, I UMCTL INFOMGR, M commit_migration.
// Output:  M <model program> ## O <observations per step>
//   The model program repeats the script and adds what the abstract model takes as given (oracle): the served-view table
//   (time x proxy -> epoch, view id), the listing order of every round, the INFOMGR reports, the migration keys.
use crate::util::*;
use arc_swap::ArcSwap;
use futures::channel::mpsc;
use futures::{stream, Future, SinkExt, Stream, StreamExt, TryStreamExt};
use parking_lot::Mutex;
use std::collections::{BTreeMap, HashMap, HashSet};
use std::net::SocketAddr;
use std::num::NonZeroUsize;
use std::pin::Pin;
use std::sync::atomic::{AtomicBool, AtomicI64, AtomicU64, Ordering};
use std::sync::Arc;
use std::time::Duration;
use undermoon::broker::verif::MetaStore;
use undermoon::broker::MetaStoreError;
use undermoon::common::batch::BatchStrategy;
use undermoon::common::cluster::{Cluster, ClusterName, MigrationTaskMeta, Proxy, Role, SlotRange};
use undermoon::common::config::ClusterConfig;
use undermoon::common::track::TrackedFutureRegistry;
use undermoon::common::utils::generate_slot;
use undermoon::coordinator::broker::{
    MetaDataBroker, MetaDataBrokerError, MetaManipulationBroker, MetaManipulationBrokerError,
};
use undermoon::coordinator::verif::{
    BrokerFailureReporter, BrokerMetaRetriever, BrokerMigrationCommitter, BrokerOrderedProxiesRetriever,
    BrokerProxiesRetriever, BrokerProxyFailureRetriever, FailureDetector, FailureHandler, MigrationStateRespChecker,
    MigrationStateSynchronizer, ParFailureDetector, ParFailureHandler, ParMigrationStateSynchronizer,
    PingFailureDetector, ProxiesRetriever, ProxyMetaRespSender, ProxyMetaRespSynchronizer, ProxyMetaSynchronizer,
    ReplaceNodeHandler,
};
use undermoon::coordinator::service::{CoordinatorConfig, CoordinatorService};
use undermoon::protocol::{
    Array, BinSafeStr, BulkStr, OptionalMulti, RedisClient, RedisClientError, RedisClientFactory, Resp,
    RespPacket, RespVec,
};
use undermoon::proxy::backend::{BackendError, ConnFactory, ConnSink, ConnStream, CreateConnResult};
use undermoon::proxy::command::{new_command_pair, Command};
use undermoon::proxy::executor::SharedForwardHandler;
use undermoon::proxy::manager::MetaMap;
use undermoon::proxy::service::{ClusterNodesVersion, ServerProxyConfig};
use undermoon::proxy::session::{CmdCtx, CmdCtxHandler};
use undermoon::proxy::slowlog::SlowRequestLogger;

const MIGRATION_LIMIT: u64 = 2;
const CLUSTER: &str = "c1";
const PROBE: &[u8] = b"probe";

fn paddr(i: usize) -> String {
    format!("127.0.{}.1:5299", i)
}
fn phost(i: usize) -> String {
    format!("127.0.{}.1", i)
}
fn naddr(i: usize, j: usize) -> String {
    format!("127.0.{}.1:{}", i, 7001 + j)
}
// "127.0.<i>.1:port" -> i
fn pidx(addr: &str) -> usize {
    addr.split('.').nth(2).and_then(|s| s.parse().ok()).unwrap_or(0)
}
fn is_proxy_addr(addr: &str) -> bool {
    addr.ends_with(":5299")
}

pub fn fnv64(s: &str) -> u64 {
    let mut h: u64 = 0xcbf29ce484222325;
    for b in s.as_bytes() {
        h ^= *b as u64;
        h = h.wrapping_mul(0x100000001b3);
    }
    h
}
fn h8(s: &str) -> String {
    format!("{:08x}", fnv64(s) & 0xffff_ffff)
}

// ---------------------------------------------------------------- proxies

type Handler = SharedForwardHandler<ProxyNet, FakeConn>;

pub struct Registry {
    handlers: Mutex<HashMap<String, Arc<Handler>>>,
    gate_open: AtomicBool,
    route_log: Mutex<Vec<(String, Vec<Vec<u8>>)>>,
}

async fn send_cmd(handler: &Handler, elems: Vec<Vec<u8>>) -> Option<RespVec> {
    let resp = Resp::Arr(Array::Arr(
        elems.into_iter().map(|b| Resp::Bulk(BulkStr::Str(b))).collect(),
    ));
    let cmd = Command::new(Box::new(RespPacket::Data(resp)));
    let (s, r) = new_command_pair(&cmd);
    let ctx = CmdCtx::new(cmd, s, 0, false);
    let auth = AtomicBool::new(false);
    match handler.handle_cmd_ctx(ctx, r, &auth).await {
        Ok(reply) => Some(reply.into_resp_vec()),
        Err(_) => None,
    }
}

async fn dispatch(reg: &Registry, addr: &str, cmd: Vec<Vec<u8>>) -> Option<RespVec> {
    let h = { reg.handlers.lock().get(addr).cloned() };
    match h {
        Some(h) => send_cmd(&h, cmd).await,
        None => None,
    }
}

fn fake_redis(cmd: &[Vec<u8>]) -> RespVec {
    let name = cmd
        .get(0)
        .map(|c| String::from_utf8_lossy(c).to_uppercase())
        .unwrap_or_default();
    match name.as_str() {
        "SCAN" => Resp::Arr(Array::Arr(vec![
            Resp::Bulk(BulkStr::Str(b"0".to_vec())),
            Resp::Arr(Array::Arr(vec![])),
        ])),
        "PING" => Resp::Simple(b"PONG".to_vec()),
        "EXISTS" | "DEL" => Resp::Integer(b"0".to_vec()),
        "PTTL" => Resp::Integer(b"-2".to_vec()),
        "DUMP" | "GET" => Resp::Bulk(BulkStr::Nil),
        _ => Resp::Simple(b"OK".to_vec()),
    }
}

// control connections opened by the proxies themselves (migration handshake to the peer proxy, Redis control commands)
pub struct ProxyNet {
    reg: Arc<Registry>,
}
pub struct ProxyNetClient {
    reg: Arc<Registry>,
    addr: String,
}
impl ProxyNetClient {
    async fn one(&self, cmd: Vec<BinSafeStr>) -> Result<RespVec, RedisClientError> {
        if is_proxy_addr(&self.addr) {
            let is_precheck = cmd.len() > 1
                && cmd[0].eq_ignore_ascii_case(b"UMCTL")
                && cmd[1].eq_ignore_ascii_case(b"PRECHECK");
            if is_precheck && !self.reg.gate_open.load(Ordering::SeqCst) {
                return Err(RedisClientError::Canceled);
            }
            dispatch(&self.reg, &self.addr, cmd)
                .await
                .ok_or(RedisClientError::Canceled)
        } else {
            Ok(fake_redis(&cmd))
        }
    }
}
impl RedisClient for ProxyNetClient {
    fn execute<'s>(
        &'s mut self,
        command: OptionalMulti<Vec<BinSafeStr>>,
    ) -> Pin<Box<dyn Future<Output = Result<OptionalMulti<RespVec>, RedisClientError>> + Send + 's>>
    {
        Box::pin(async move {
            match command {
                OptionalMulti::Single(c) => Ok(OptionalMulti::Single(self.one(c).await?)),
                OptionalMulti::Multi(cs) => {
                    let mut out = vec![];
                    for c in cs {
                        out.push(self.one(c).await?);
                    }
                    Ok(OptionalMulti::Multi(out))
                }
            }
        })
    }
}
impl RedisClientFactory for ProxyNet {
    type Client = ProxyNetClient;
    fn create_client<'s>(
        &'s self,
        address: String,
    ) -> Pin<Box<dyn Future<Output = Result<Self::Client, RedisClientError>> + Send + 's>> {
        let reg = self.reg.clone();
        Box::pin(async move { Ok(ProxyNetClient { reg, addr: address }) })
    }
}

// data connections of a proxy: to Redis nodes (logged, answered by the stand-in) or to peer proxies (dispatched)
pub struct FakeConn {
    reg: Arc<Registry>,
}
impl ConnFactory for FakeConn {
    type Pkt = RespPacket;
    fn create_conn(
        &self,
        addr: SocketAddr,
    ) -> Pin<Box<dyn Future<Output = CreateConnResult<Self::Pkt>> + Send>> {
        let (sender, receiver) = mpsc::unbounded();
        let reg = self.reg.clone();
        let addr_s = addr.to_string();
        let receiver = receiver.then(move |packet: RespPacket| {
            let reg = reg.clone();
            let addr_s = addr_s.clone();
            async move {
                let cmd: Vec<Vec<u8>> = match packet.to_resp_vec() {
                    Resp::Arr(Array::Arr(resps)) => resps
                        .iter()
                        .map(|r| match r {
                            Resp::Bulk(BulkStr::Str(s)) => s.clone(),
                            _ => vec![],
                        })
                        .collect(),
                    _ => vec![],
                };
                let reply = if is_proxy_addr(&addr_s) {
                    dispatch(&reg, &addr_s, cmd)
                        .await
                        .unwrap_or_else(|| Resp::Error(b"ERR canceled".to_vec()))
                } else {
                    reg.route_log.lock().push((addr_s.clone(), cmd.clone()));
                    fake_redis(&cmd)
                };
                Ok::<_, ()>(RespPacket::Data(reply))
            }
        });
        let sink: ConnSink<RespPacket> = Box::pin(sender.sink_map_err(|_| BackendError::Canceled));
        let stream: ConnStream<RespPacket> = Box::pin(receiver.map_err(|_| BackendError::Canceled));
        Box::pin(async { Ok((sink, stream)) })
    }
}

fn new_handler(reg: &Arc<Registry>, i: usize) -> Arc<Handler> {
    let self_addr = paddr(i);
    let config = Arc::new(ServerProxyConfig {
        address: self_addr.clone(),
        announce_address: self_addr,
        announce_host: phost(i),
        slowlog_len: NonZeroUsize::new(16).unwrap(),
        slowlog_log_slower_than: AtomicI64::new(-1),
        slowlog_sample_rate: AtomicU64::new(1),
        thread_number: NonZeroUsize::new(2).unwrap(),
        backend_conn_num: NonZeroUsize::new(1).unwrap(),
        active_redirection: false,
        max_redirections: None,
        default_redirection_address: None,
        backend_batch_strategy: BatchStrategy::Disabled,
        backend_flush_size: NonZeroUsize::new(1024).unwrap(),
        backend_low_flush_interval: Duration::from_nanos(200_000),
        backend_high_flush_interval: Duration::from_nanos(800_000),
        session_timeout: None,
        backend_timeout: Duration::from_secs(3),
        password: None,
        command_cluster_nodes_version: ClusterNodesVersion::V2,
    });
    let meta_map = Arc::new(ArcSwap::new(Arc::new(MetaMap::empty())));
    let (stopped, rx) = mpsc::unbounded();
    std::mem::forget(rx);
    Arc::new(SharedForwardHandler::new(
        config.clone(),
        Arc::new(ProxyNet { reg: reg.clone() }),
        Arc::new(SlowRequestLogger::new(config)),
        meta_map,
        Arc::new(FakeConn { reg: reg.clone() }),
        Arc::new(TrackedFutureRegistry::default()),
        stopped,
    ))
}

// ---------------------------------------------------------------- fault script and shared control state

#[derive(Clone, Copy, PartialEq, Debug)]
enum Fault {
    None,
    Drop,
    Dup,
    Delay,
    NoReply,
    Crash,
}
fn fault_word(f: Fault) -> &'static str {
    match f {
        Fault::None => "none",
        Fault::Drop => "drop",
        Fault::Dup => "dup",
        Fault::Delay => "delay",
        Fault::NoReply => "noreply",
        Fault::Crash => "crash",
    }
}

#[derive(Clone, Debug)]
enum Inject {
    Restart(usize),
    Replay(usize),
}

enum Held {
    ProxyCall { addr: String, cmd: Vec<Vec<u8>>, kind: char },
    Commit(MigrationTaskMeta),
}

struct Ctl {
    boundary: usize,
    faults: HashMap<usize, Fault>,
    injects: HashMap<usize, Vec<Inject>>,
    held: BTreeMap<usize, Held>,
    crashed: bool,
    listing: Option<bool>, // decision for the listing of the current round
    round_ordered: bool,
    last_listing: Option<Vec<usize>>, // what an unfaulted listing answers at the moment of the listing boundary
    trace: Vec<String>,    // observable events of the current step
    reports: Vec<(usize, usize, usize, usize)>, // (INFOMGR boundary, key id, src, dst)
    replays: Vec<String>,  // model-program text of every replay performed: boundary-or-step -> event
    keys: Vec<String>,     // migration key -> id (position + 1)
    time: usize,
    served: Vec<(usize, usize, u64, u64, String, String)>, // (time, proxy, epoch, view id, cluster hash, repl hash)
    commits_ok: usize,
    nproxy: usize,
    order_violations: Vec<String>,
    post_commit: HashMap<usize, (usize, usize)>, // key id -> (src, dst) awaiting the dst-before-src check
    dst_done: HashSet<usize>,
    // failure detection / handling (C07F cases)
    vclock: i64,                              // virtual broker clock, seconds
    vt: HashMap<(String, String), i64>,       // virtual time of every stored report (address, reporter)
    down: HashSet<usize>,                     // proxies that do not answer PING
    choices: Vec<(usize, Vec<String>)>,       // replace_proxy boundary -> replacement chosen at each arrival
    // faults addressed by "the k-th commit_migration call of the case" (M<k>), resolved to boundaries when reached
    commit_faults: HashMap<usize, Fault>,
    commit_boundaries: Vec<usize>,
    held_commit_meta: HashMap<usize, (usize, usize)>, // boundary of a held commit -> (src, dst) of its migration
    commit_mismatch: Vec<String>,             // accepted commits that removed something else than their own (ranges, epoch)
}

const FAIL_TTL: i64 = 30;
const FAIL_QUORUM: u64 = 2;

pub struct World {
    fail_mode: bool,
    snap: Mutex<Option<MetaStore>>,      // `snapshot` / `restore`: the broker restarts from an earlier copy of its store
    restores: Mutex<Vec<usize>>,         // broker times at which the store was replaced by the snapshot
    store: Mutex<MetaStore>,
    reg: Arc<Registry>,
    ctl: Mutex<Ctl>,
}

fn key_of(task: &MigrationTaskMeta) -> String {
    let epoch = task
        .slot_range
        .tag
        .get_migration_meta()
        .map(|m| m.epoch)
        .unwrap_or(0);
    format!(
        "{}|{}|{}",
        task.cluster_name,
        task.slot_range.get_range_list().to_strings().join(" "),
        epoch
    )
}

impl World {
    fn key_id(&self, key: &str) -> usize {
        let mut c = self.ctl.lock();
        if let Some(p) = c.keys.iter().position(|k| k == key) {
            return p + 1;
        }
        c.keys.push(key.to_string());
        c.keys.len()
    }

    fn pending_keys(&self) -> Vec<String> {
        let st = self.store.lock();
        let mut v = vec![];
        for (name, c) in st.clusters.iter() {
            for chunk in c.chunks.iter() {
                for part in chunk.migrating_slots.iter() {
                    for m in part.iter() {
                        if m.is_migrating {
                            v.push(format!("{}|{}|{}", name, m.range_list.to_strings().join(" "), m.meta.epoch));
                        }
                    }
                }
            }
        }
        v.sort();
        v
    }

    // keys of the migrations the store holds (is_migrating entries), sorted by id
    fn pending_ids(&self) -> Vec<usize> {
        let keys: Vec<String> = {
            let st = self.store.lock();
            let mut v = vec![];
            for (name, c) in st.clusters.iter() {
                for chunk in c.chunks.iter() {
                    for part in chunk.migrating_slots.iter() {
                        for m in part.iter() {
                            if m.is_migrating {
                                v.push(format!(
                                    "{}|{}|{}",
                                    name,
                                    m.range_list.to_strings().join(" "),
                                    m.meta.epoch
                                ));
                            }
                        }
                    }
                }
            }
            v.sort();
            v
        };
        let mut ids: Vec<usize> = keys.iter().map(|k| self.key_id(k)).collect();
        ids.sort();
        ids
    }

    fn view(&self, i: usize) -> Option<Proxy> {
        self.store.lock().get_proxy_by_address(&paddr(i), MIGRATION_LIMIT)
    }

    // the broker changed (or time 0): record what it serves to every proxy now
    fn record_served(&self, advance: bool) {
        let n = { self.ctl.lock().nproxy };
        let mut rows = vec![];
        for i in 1..=n {
            if let Some(p) = self.view(i) {
                let cc = canon_cluster(&p);
                let cr = canon_repl(&p);
                let vid = fnv64(&format!("{}##{}", cc, cr));
                rows.push((i, p.get_epoch(), vid, h8(&cc), h8(&cr)));
            }
        }
        let mut c = self.ctl.lock();
        if advance {
            c.time += 1;
        }
        let t = c.time;
        for (i, e, vid, ch, rh) in rows {
            c.served.push((t, i, e, vid, ch, rh));
        }
    }
}

// ---------------------------------------------------------------- canonical forms of a view and of a proxy's state

fn canon_slot_range(sr: &SlotRange) -> String {
    let r = sr.get_range_list().to_strings().join(" ");
    match sr.tag.get_migration_meta() {
        Some(m) => format!(
            "{}@{},{},{},{},{}",
            r,
            m.epoch,
            pidx(&m.src_proxy_address),
            m.src_node_address,
            pidx(&m.dst_proxy_address),
            m.dst_node_address
        ),
        None => r,
    }
}
fn canon_map(mut entries: Vec<(String, Vec<String>)>) -> String {
    for e in entries.iter_mut() {
        e.1.sort();
    }
    entries.sort();
    entries
        .iter()
        .map(|(k, v)| format!("{}={}", k, v.join(";")))
        .collect::<Vec<_>>()
        .join(",")
}

// what UMCTL SETCLUSTER built from this view installs: cluster name, local masters with their slots, peers
// (a node or peer without slots does not appear in the plain encoding)
fn canon_cluster(p: &Proxy) -> String {
    let name = p.get_cluster_name().map(|n| n.to_string()).unwrap_or_default();
    let local: Vec<(String, Vec<String>)> = p
        .get_nodes()
        .iter()
        .filter(|n| n.get_role() == Role::Master && !n.get_slots().is_empty())
        .map(|n| (n.get_address().to_string(), n.get_slots().iter().map(canon_slot_range).collect()))
        .collect();
    let peers: Vec<(String, Vec<String>)> = p
        .get_peers()
        .iter()
        .filter(|pp| !pp.slots.is_empty())
        .map(|pp| (pp.proxy_address.clone(), pp.slots.iter().map(canon_slot_range).collect()))
        .collect();
    let name = if local.is_empty() && peers.is_empty() { String::new() } else { name };
    format!("{}|L:{}|P:{}", name, canon_map(local), canon_map(peers))
}

// what UMCTL SETREPL built from this view installs
fn canon_repl(p: &Proxy) -> String {
    let mut out = vec![];
    for f in p.get_free_nodes() {
        out.push(format!(",M,{},", f));
    }
    if let Some(name) = p.get_cluster_name() {
        for n in p.get_nodes() {
            let mut peers: Vec<String> = n
                .get_repl_meta()
                .get_peers()
                .iter()
                .map(|pr| format!("{}@{}", pr.node_address, pr.proxy_address))
                .collect();
            peers.sort();
            out.push(format!(
                "{},{},{},{}",
                name,
                if n.get_role() == Role::Master { "M" } else { "R" },
                n.get_address(),
                peers.join("+")
            ));
        }
    }
    out.sort();
    out.join(";")
}

fn bulk_text(r: &RespVec) -> String {
    match r {
        Resp::Bulk(BulkStr::Str(b)) => String::from_utf8_lossy(b).to_string(),
        _ => "?".to_string(),
    }
}

// one "<node> [[meta.. ranges]..]" table of UMCTL INFO
fn parse_ranges_table(items: &[RespVec]) -> Vec<(String, Vec<String>)> {
    let mut out = vec![];
    for it in items {
        if let Resp::Arr(Array::Arr(pair)) = it {
            if pair.len() != 2 {
                continue;
            }
            let node = bulk_text(&pair[0]);
            let mut srs = vec![];
            if let Resp::Arr(Array::Arr(list)) = &pair[1] {
                for sr in list {
                    if let Resp::Arr(Array::Arr(lines)) = sr {
                        let texts: Vec<String> = lines.iter().map(bulk_text).collect();
                        if texts.len() == 6 {
                            let f = |s: &str, p: &str| s.strip_prefix(p).unwrap_or("?").to_string();
                            srs.push(format!(
                                "{}@{},{},{},{},{}",
                                texts[5],
                                texts[0],
                                pidx(&f(&texts[1], "src_proxy: ")),
                                f(&texts[2], "src_node: "),
                                pidx(&f(&texts[3], "dst_proxy: ")),
                                f(&texts[4], "dst_node: ")
                            ));
                        } else if texts.len() == 1 {
                            srs.push(texts[0].clone());
                        } else {
                            srs.push(format!("?{}", texts.join("/")));
                        }
                    }
                }
            }
            out.push((node, srs));
        }
    }
    out
}

// (cluster epoch, canonical cluster text, canonical replication text) as the proxy itself reports them
async fn proxy_state(h: &Handler) -> (String, String, String) {
    let epoch = match send_cmd(h, vec![b"UMCTL".to_vec(), b"GETEPOCH".to_vec()]).await {
        Some(Resp::Integer(b)) => String::from_utf8_lossy(&b).to_string(),
        _ => "?".into(),
    };
    let mut cluster = "?".to_string();
    if let Some(Resp::Arr(Array::Arr(top))) = send_cmd(h, vec![b"UMCTL".to_vec(), b"INFO".to_vec()]).await {
        // ["Cluster", [name, "local", [name:, epoch:, nodes:, tables..], "peer", ["peers:", tables..]], "Replication", .., "Migration", ..]
        if top.len() >= 2 {
            if let Resp::Arr(Array::Arr(c)) = &top[1] {
                if c.len() == 5 {
                    let name = bulk_text(&c[0]);
                    let local = match &c[2] {
                        Resp::Arr(Array::Arr(l)) if l.len() >= 3 => parse_ranges_table(&l[3..]),
                        _ => vec![],
                    };
                    let peers = match &c[4] {
                        Resp::Arr(Array::Arr(l)) if !l.is_empty() => parse_ranges_table(&l[1..]),
                        _ => vec![],
                    };
                    let name = if local.is_empty() && peers.is_empty() { String::new() } else { name };
                    cluster = format!("{}|L:{}|P:{}", name, canon_map(local), canon_map(peers));
                }
            }
        }
    }
    let mut repl = vec![];
    if let Some(Resp::Arr(Array::Arr(entries))) =
        send_cmd(h, vec![b"UMCTL".to_vec(), b"INFOREPL".to_vec()]).await
    {
        for e in entries {
            if let Resp::Arr(Array::Arr(lines)) = e {
                let (mut cl, mut role, mut addr) = (String::new(), String::new(), String::new());
                let mut peers = vec![];
                for l in lines.iter() {
                    let t = bulk_text(l);
                    let t = t.strip_suffix('\n').unwrap_or(&t).to_string();
                    if let Some(v) = t.strip_prefix("cluster:") {
                        cl = v.to_string();
                    } else if let Some(v) = t.strip_prefix("role:") {
                        role = if v == "master" { "M".into() } else { "R".into() };
                    } else if let Some(v) = t.strip_prefix("node_address:") {
                        addr = v.to_string();
                    } else if let Some(v) = t.strip_prefix("replica:").or_else(|| t.strip_prefix("master:")) {
                        peers.push(v.to_string());
                    }
                }
                peers.sort();
                repl.push(format!("{},{},{},{}", cl, role, addr, peers.join("+")));
            }
        }
    }
    repl.sort();
    (epoch, cluster, repl.join(";"))
}

// ---------------------------------------------------------------- the fake network seen by the coordinator

fn reply_word(r: &Option<RespVec>) -> String {
    match r {
        Some(Resp::Simple(b)) if b == b"OK" => "ok".into(),
        Some(Resp::Error(b)) if b == b"OLD_EPOCH" => "old".into(),
        Some(Resp::Error(b)) => format!("err:{}", hex(b)),
        Some(_) => "other".into(),
        None => "canceled".into(),
    }
}

enum Gate {
    Dead,
    Go(usize, Fault),
}

impl World {
    // a set-call (SETREPL / SETCLUSTER) arrives at its proxy; logs the observable event
    async fn arrive(&self, addr: &str, cmd: Vec<Vec<u8>>, kind: char, fresh: bool) -> Option<RespVec> {
        let epoch = if kind == 'R' {
            cmd.get(2).map(|b| String::from_utf8_lossy(b).to_string())
        } else {
            cmd.get(3).map(|b| String::from_utf8_lossy(b).to_string())
        }
        .unwrap_or_default();
        let r = dispatch(&self.reg, addr, cmd).await;
        let a = pidx(addr);
        let mut c = self.ctl.lock();
        c.trace.push(format!("d.{}.{}.{}.{}", a, kind, epoch, reply_word(&r)));
        // monitor: within one sync_migration_state the coordinator's own SETCLUSTER reaches the source only after its
        // SETCLUSTER reached the destination (replayed stale calls are environment events, not the coordinator's order)
        if kind == 'C' && fresh {
            let ids: Vec<usize> = c.post_commit.keys().cloned().collect();
            for id in ids {
                let (src, dst) = c.post_commit[&id];
                if a == dst {
                    c.dst_done.insert(id);
                } else if a == src && !c.dst_done.contains(&id) {
                    c.order_violations.push(format!("key{}:src{}-before-dst{}", id, src, dst));
                }
            }
        }
        r
    }

    async fn arrive_commit(&self, task: MigrationTaskMeta) -> Result<(), MetaStoreError> {
        let id = self.key_id(&key_of(&task));
        let own = key_of(&task);
        let before = self.pending_keys();
        let r = { self.store.lock().commit_migration(task, false) };
        let after = self.pending_keys();
        // monitor: the broker accepts a commit only for the (ranges, epoch) that is pending, and removes exactly that entry
        let removed: Vec<String> = before.iter().filter(|k| !after.contains(k)).cloned().collect();
        let added: Vec<String> = after.iter().filter(|k| !before.contains(k)).cloned().collect();
        let fine = if r.is_ok() { removed == vec![own.clone()] && added.is_empty() } else { removed.is_empty() && added.is_empty() };
        if !fine {
            self.ctl.lock().commit_mismatch.push(format!(
                "commit[{}]:{}:removed[{}]",
                own.replace(' ', "_"),
                if r.is_ok() { "accepted" } else { "rejected" },
                removed.join("+").replace(' ', "_")
            ));
        }
        let word = match &r {
            Ok(()) => "ok".to_string(),
            Err(MetaStoreError::MigrationTaskNotFound) => "nf".to_string(),
            Err(e) => format!("err:{}", e.to_code()),
        };
        if r.is_ok() {
            self.record_served(true);
            self.ctl.lock().commits_ok += 1;
        }
        self.ctl.lock().trace.push(format!("c.{}.{}", id, word));
        r
    }

    // add_failure reaches the broker; the stored timestamp is kept in virtual time
    fn arrive_add_failure(&self, address: &str, reporter: &str) {
        let added = { self.store.lock().add_failure(address.to_string(), reporter.to_string()) };
        if added {
            self.record_served(true); // add_failure bumps the global epoch
        }
        let mut c = self.ctl.lock();
        if added {
            let t = c.vclock;
            c.vt.insert((address.to_string(), reporter.to_string()), t);
        }
        let rid: usize = reporter.trim_start_matches('c').parse().unwrap_or(0);
        c.trace.push(format!("a.{}.{}.{}", rid, pidx(address), if added { 1 } else { 0 }));
    }

    // get_failures reaches the broker: real timestamps are rewritten so that (real now - timestamp) = virtual age
    fn arrive_get_failures(&self) -> Vec<String> {
        let (clock, vt) = {
            let c = self.ctl.lock();
            (c.vclock, c.vt.clone())
        };
        let mut l = {
            let mut st = self.store.lock();
            let now = chrono::Utc::now().timestamp();
            for (a, m) in st.failures.iter_mut() {
                for (r, ts) in m.iter_mut() {
                    let t = vt.get(&(a.clone(), r.clone())).cloned().unwrap_or(clock);
                    *ts = now - (clock - t);
                }
            }
            st.get_failures(chrono::Duration::seconds(FAIL_TTL), FAIL_QUORUM)
        };
        l.sort_by_key(|a| pidx(a));
        let txt = if l.is_empty() { "-".to_string() } else { l.iter().map(|a| pidx(a).to_string()).collect::<Vec<_>>().join("+") };
        self.ctl.lock().trace.push(format!("g.{}", txt));
        l
    }

    fn arrive_replace(&self, n: usize, address: &str) -> Result<Option<Proxy>, MetaStoreError> {
        let r = { self.store.lock().replace_failed_proxy(address.to_string(), MIGRATION_LIMIT) };
        self.record_served(true);
        let word = match &r {
            Ok(Some(p)) => pidx(p.get_address()).to_string(),
            Ok(None) => "-".to_string(),
            Err(_) => "err".to_string(),
        };
        let mut c = self.ctl.lock();
        c.trace.push(format!("x.{}.{}", pidx(address), word));
        let ch = if word == "err" { "-".to_string() } else { word };
        match c.choices.iter_mut().find(|(b, _)| *b == n) {
            Some((_, v)) => v.push(ch),
            None => c.choices.push((n, vec![ch])),
        }
        r
    }

    // failure table of the real store in virtual time: address:reporter@age ; failed set
    fn fail_obs(&self) -> String {
        let c = self.ctl.lock();
        let st = self.store.lock();
        let mut rows: Vec<(usize, usize, i64)> = vec![];
        for (a, m) in st.failures.iter() {
            for (r, _) in m.iter() {
                let t = c.vt.get(&(a.clone(), r.clone())).cloned().unwrap_or(c.vclock);
                rows.push((pidx(a), r.trim_start_matches('c').parse().unwrap_or(0), c.vclock - t));
            }
        }
        rows.sort();
        let mut fd: Vec<usize> = st.get_failed_proxies().iter().map(|a| pidx(a)).collect();
        fd.sort();
        format!(
            "T={} fl={} fd={}",
            c.vclock,
            if rows.is_empty() { "-".to_string() } else { rows.iter().map(|(a, r, g)| format!("{}:{}@{}", a, r, g)).collect::<Vec<_>>().join(",") },
            if fd.is_empty() { "-".to_string() } else { fd.iter().map(|x| x.to_string()).collect::<Vec<_>>().join(",") }
        )
    }

    async fn do_inject(&self, inj: &Inject, at: String) {
        match inj {
            Inject::Restart(i) => {
                let h = new_handler(&self.reg, *i);
                self.reg.handlers.lock().insert(paddr(*i), h);
                let mut c = self.ctl.lock();
                c.replays.push(format!("{} r {} -", at, i));
                c.trace.push(format!("r.{}", i));
            }
            Inject::Replay(j) => {
                let held = { self.ctl.lock().held.remove(j) };
                match held {
                    Some(Held::ProxyCall { addr, cmd, kind }) => {
                        let tag = if kind == 'R' { j - 1 } else { j - 2 };
                        self.ctl.lock().replays.push(format!("{} d {} {}", at, tag, kind));
                        self.arrive(&addr, cmd, kind, false).await;
                    }
                    Some(Held::Commit(task)) => {
                        let id = self.key_id(&key_of(&task));
                        self.ctl.lock().replays.push(format!("{} c {} -", at, id));
                        let _ = self.arrive_commit(task).await;
                    }
                    None => {}
                }
            }
        }
    }

    // a call boundary of the coordinator: performs the scripted injections and returns the fault to apply
    async fn boundary(&self) -> Gate {
        let (n, f, injs) = {
            let mut c = self.ctl.lock();
            if c.crashed {
                return Gate::Dead;
            }
            let n = c.boundary;
            c.boundary += 1;
            let f = c.faults.get(&n).cloned().unwrap_or(Fault::None);
            let injs = c.injects.get(&n).cloned().unwrap_or_default();
            (n, f, injs)
        };
        for inj in injs.iter() {
            self.do_inject(inj, format!("b{}", n)).await;
        }
        Gate::Go(n, f)
    }

    fn crash(&self) {
        self.ctl.lock().crashed = true;
    }

    // the listing reads of one round count as one boundary
    async fn listing_ok(&self) -> bool {
        {
            let c = self.ctl.lock();
            if let Some(d) = c.listing {
                return d && !c.crashed;
            }
        }
        let ok = match self.boundary().await {
            Gate::Dead => false,
            Gate::Go(_, f) => match f {
                Fault::None | Fault::Dup => true,
                Fault::Drop | Fault::Delay | Fault::NoReply => false,
                Fault::Crash => {
                    self.crash();
                    false
                }
            },
        };
        self.ctl.lock().listing = Some(ok);
        ok
    }
}

pub struct CoordNet {
    w: Arc<World>,
}
pub struct CoordClient {
    w: Arc<World>,
    addr: String,
}
impl CoordClient {
    async fn one(&self, cmd: Vec<BinSafeStr>) -> Result<RespVec, RedisClientError> {
        let sub = cmd.get(1).map(|c| String::from_utf8_lossy(c).to_uppercase()).unwrap_or_default();
        let kind = match sub.as_str() {
            "SETREPL" => 'R',
            "SETCLUSTER" => 'C',
            "INFOMGR" => 'I',
            _ => 'O',
        };
        let (n, f) = match self.w.boundary().await {
            Gate::Dead => return Err(RedisClientError::Canceled),
            Gate::Go(n, f) => (n, f),
        };
        let lost = || Err(RedisClientError::Timeout);
        if cmd.get(0).map(|c| c.eq_ignore_ascii_case(b"PING")).unwrap_or(false) {
            // PingFailureDetector: answered iff the call and its reply get through and the proxy is up
            let a = pidx(&self.addr);
            let up = { !self.w.ctl.lock().down.contains(&a) };
            let answered = matches!(f, Fault::None | Fault::Dup) && up;
            if f == Fault::Crash {
                self.w.crash();
            }
            self.w.ctl.lock().trace.push(format!("q.{}.{}", a, if answered { "ok" } else { "fail" }));
            return if answered { Ok(Resp::Simple(b"PONG".to_vec())) } else { lost() };
        }
        if kind == 'I' {
            return match f {
                Fault::Drop | Fault::Delay | Fault::NoReply => lost(),
                Fault::Crash => {
                    self.w.crash();
                    lost()
                }
                Fault::None | Fault::Dup => {
                    let r = dispatch(&self.w.reg, &self.addr, cmd).await.ok_or(RedisClientError::Canceled)?;
                    // oracle: what this INFOMGR reported
                    if let Resp::Arr(Array::Arr(items)) = &r {
                        for it in items {
                            if let Resp::Bulk(BulkStr::Str(s)) = it {
                                let text = String::from_utf8_lossy(s).to_string();
                                let mut toks = text.split(' ').map(|x| x.to_string()).collect::<Vec<_>>().into_iter().peekable();
                                if let Some(task) = MigrationTaskMeta::from_strings(&mut toks) {
                                    let id = self.w.key_id(&key_of(&task));
                                    let (src, dst) = task
                                        .slot_range
                                        .tag
                                        .get_migration_meta()
                                        .map(|m| (pidx(&m.src_proxy_address), pidx(&m.dst_proxy_address)))
                                        .unwrap_or((0, 0));
                                    let mut c = self.w.ctl.lock();
                                    c.reports.push((n, id, src, dst));
                                    c.trace.push(format!("p.{}.{}", pidx(&self.addr), id));
                                }
                            }
                        }
                    }
                    Ok(r)
                }
            };
        }
        match f {
            Fault::None => self.w.arrive(&self.addr, cmd, kind, true).await.ok_or(RedisClientError::Canceled),
            Fault::Dup => {
                let r = self.w.arrive(&self.addr, cmd.clone(), kind, true).await;
                self.w.arrive(&self.addr, cmd, kind, true).await;
                r.ok_or(RedisClientError::Canceled)
            }
            Fault::Drop => lost(),
            Fault::Delay => {
                self.w.ctl.lock().held.insert(n, Held::ProxyCall { addr: self.addr.clone(), cmd, kind });
                lost()
            }
            Fault::NoReply => {
                self.w.arrive(&self.addr, cmd, kind, true).await;
                lost()
            }
            Fault::Crash => {
                self.w.arrive(&self.addr, cmd, kind, true).await;
                self.w.crash();
                lost()
            }
        }
    }
}
impl RedisClient for CoordClient {
    fn execute<'s>(
        &'s mut self,
        command: OptionalMulti<Vec<BinSafeStr>>,
    ) -> Pin<Box<dyn Future<Output = Result<OptionalMulti<RespVec>, RedisClientError>> + Send + 's>>
    {
        Box::pin(async move {
            match command {
                OptionalMulti::Single(c) => Ok(OptionalMulti::Single(self.one(c).await?)),
                OptionalMulti::Multi(cs) => {
                    let mut out = vec![];
                    for c in cs {
                        out.push(self.one(c).await?);
                    }
                    Ok(OptionalMulti::Multi(out))
                }
            }
        })
    }
}
impl RedisClientFactory for CoordNet {
    type Client = CoordClient;
    fn create_client<'s>(
        &'s self,
        address: String,
    ) -> Pin<Box<dyn Future<Output = Result<Self::Client, RedisClientError>> + Send + 's>> {
        let w = self.w.clone();
        Box::pin(async move { Ok(CoordClient { w, addr: address }) })
    }
}

// the broker seen by the coordinator; `faulty = false` is the harness's own unfaulted view (oracle listing)
pub struct FakeBroker {
    w: Arc<World>,
    faulty: bool,
}

type BoxStream<'s, T> = Pin<Box<dyn Stream<Item = T> + Send + 's>>;
type BoxFut<'s, T> = Pin<Box<dyn Future<Output = T> + Send + 's>>;

impl FakeBroker {
    // the listing boundary; right after its injections the harness records what an unfaulted listing answers now
    async fn listing_gate(&self) -> bool {
        let first = { self.w.ctl.lock().listing.is_none() };
        let ok = self.w.listing_ok().await;
        if first {
            let ordered = { self.w.ctl.lock().round_ordered };
            let l: Pin<Box<dyn Future<Output = Vec<usize>> + Send + '_>> = Box::pin(oracle_listing(&self.w, ordered));
            let l = l.await;
            self.w.ctl.lock().last_listing = Some(l);
        }
        ok
    }

    async fn listing<T: Send + 'static>(
        &self,
        f: impl FnOnce(&MetaStore) -> Vec<T>,
    ) -> Vec<Result<T, MetaDataBrokerError>> {
        if self.faulty && !self.listing_gate().await {
            return vec![Err(MetaDataBrokerError::RequestFailed)];
        }
        let st = self.w.store.lock();
        f(&st).into_iter().map(Ok).collect()
    }
}

impl MetaDataBroker for FakeBroker {
    fn get_cluster_names<'s>(&'s self) -> BoxStream<'s, Result<ClusterName, MetaDataBrokerError>> {
        Box::pin(
            async move {
                let v = self
                    .listing(|st| {
                        let mut n = st.get_cluster_names();
                        n.sort_by(|a, b| a.as_str().cmp(b.as_str()));
                        n
                    })
                    .await;
                stream::iter(v)
            }
            .into_stream_flat(),
        )
    }

    fn get_cluster<'s>(&'s self, name: ClusterName) -> BoxFut<'s, Result<Option<Cluster>, MetaDataBrokerError>> {
        Box::pin(async move {
            if self.faulty && !self.listing_gate().await {
                return Err(MetaDataBrokerError::RequestFailed);
            }
            Ok(self.w.store.lock().get_cluster_by_name(name.as_str(), MIGRATION_LIMIT))
        })
    }

    fn get_proxy_addresses<'s>(&'s self) -> BoxStream<'s, Result<String, MetaDataBrokerError>> {
        Box::pin(
            async move {
                let v = self
                    .listing(|st| {
                        let mut n = st.get_proxies();
                        n.sort_by_key(|a| pidx(a));
                        n
                    })
                    .await;
                stream::iter(v)
            }
            .into_stream_flat(),
        )
    }

    fn get_proxy<'s>(&'s self, address: String) -> BoxFut<'s, Result<Option<Proxy>, MetaDataBrokerError>> {
        Box::pin(async move {
            if !self.faulty {
                return Ok(self.w.store.lock().get_proxy_by_address(&address, MIGRATION_LIMIT));
            }
            let (n, f) = match self.w.boundary().await {
                Gate::Dead => return Err(MetaDataBrokerError::RequestFailed),
                Gate::Go(n, f) => (n, f),
            };
            match f {
                Fault::Drop | Fault::Delay | Fault::NoReply => Err(MetaDataBrokerError::RequestFailed),
                Fault::Crash => {
                    self.w.crash();
                    Err(MetaDataBrokerError::RequestFailed)
                }
                Fault::None | Fault::Dup => {
                    let p = self.w.store.lock().get_proxy_by_address(&address, MIGRATION_LIMIT);
                    if p.is_some() {
                        self.w.ctl.lock().trace.push(format!("f.{}.{}", pidx(&address), n));
                    }
                    Ok(p)
                }
            }
        })
    }

    fn add_failure<'s>(&'s self, address: String, reporter_id: String) -> BoxFut<'s, Result<(), MetaDataBrokerError>> {
        Box::pin(async move {
            let f = match self.w.boundary().await {
                Gate::Dead => return Err(MetaDataBrokerError::RequestFailed),
                Gate::Go(_, f) => f,
            };
            let lost = Err(MetaDataBrokerError::RequestFailed);
            match f {
                Fault::None => {
                    self.w.arrive_add_failure(&address, &reporter_id);
                    Ok(())
                }
                Fault::Dup => {
                    self.w.arrive_add_failure(&address, &reporter_id);
                    self.w.arrive_add_failure(&address, &reporter_id);
                    Ok(())
                }
                Fault::Drop | Fault::Delay => lost,
                Fault::NoReply => {
                    self.w.arrive_add_failure(&address, &reporter_id);
                    lost
                }
                Fault::Crash => {
                    self.w.arrive_add_failure(&address, &reporter_id);
                    self.w.crash();
                    lost
                }
            }
        })
    }

    fn get_failures<'s>(&'s self) -> BoxStream<'s, Result<String, MetaDataBrokerError>> {
        Box::pin(
            async move {
                let f = match self.w.boundary().await {
                    Gate::Dead => return stream::iter(vec![Err(MetaDataBrokerError::RequestFailed)]),
                    Gate::Go(_, f) => f,
                };
                let v = match f {
                    Fault::Drop | Fault::Delay => vec![Err(MetaDataBrokerError::RequestFailed)],
                    Fault::NoReply => {
                        self.w.arrive_get_failures();
                        vec![Err(MetaDataBrokerError::RequestFailed)]
                    }
                    Fault::Crash => {
                        self.w.arrive_get_failures();
                        self.w.crash();
                        vec![Err(MetaDataBrokerError::RequestFailed)]
                    }
                    Fault::None | Fault::Dup => self.w.arrive_get_failures().into_iter().map(Ok).collect(),
                };
                stream::iter(v)
            }
            .into_stream_flat(),
        )
    }

    fn get_failed_proxies<'s>(&'s self) -> BoxStream<'s, Result<String, MetaDataBrokerError>> {
        Box::pin(
            async move {
                let v = self.listing(|st| st.get_failed_proxies()).await;
                stream::iter(v)
            }
            .into_stream_flat(),
        )
    }
}

// future of a stream -> stream
trait IntoStreamFlat: Future + Sized {
    fn into_stream_flat(self) -> futures::stream::Flatten<futures::future::IntoStream<Self>>
    where
        Self::Output: Stream;
}
impl<F: Future> IntoStreamFlat for F {
    fn into_stream_flat(self) -> futures::stream::Flatten<futures::future::IntoStream<Self>>
    where
        Self::Output: Stream,
    {
        use futures::FutureExt;
        self.into_stream().flatten()
    }
}

// mirrors coordinator/http_mani_broker.rs + broker/service.rs status mapping: 200 and 404 are Ok, 409 is Retry
fn http_class(r: Result<(), MetaStoreError>) -> Result<(), MetaManipulationBrokerError> {
    match r {
        Ok(()) => Ok(()),
        Err(MetaStoreError::ClusterNotFound)
        | Err(MetaStoreError::FreeNodeNotFound)
        | Err(MetaStoreError::ProxyNotFound)
        | Err(MetaStoreError::MigrationTaskNotFound) => Ok(()),
        Err(MetaStoreError::InvalidClusterName)
        | Err(MetaStoreError::InvalidMigrationTask)
        | Err(MetaStoreError::InvalidProxyAddress) => Err(MetaManipulationBrokerError::InvalidReply),
        Err(_) => Err(MetaManipulationBrokerError::Retry),
    }
}

impl MetaManipulationBroker for FakeBroker {
    fn replace_proxy<'s>(
        &'s self,
        failed_proxy_address: String,
    ) -> BoxFut<'s, Result<Option<Proxy>, MetaManipulationBrokerError>> {
        Box::pin(async move {
            let (n, f) = match self.w.boundary().await {
                Gate::Dead => return Err(MetaManipulationBrokerError::RequestFailed),
                Gate::Go(n, f) => (n, f),
            };
            let lost = Err(MetaManipulationBrokerError::RequestFailed);
            let conv = |r: Result<Option<Proxy>, MetaStoreError>| r.map_err(|_| MetaManipulationBrokerError::InvalidReply);
            match f {
                Fault::None => conv(self.w.arrive_replace(n, &failed_proxy_address)),
                Fault::Dup => {
                    let r = self.w.arrive_replace(n, &failed_proxy_address);
                    let _ = self.w.arrive_replace(n, &failed_proxy_address);
                    conv(r)
                }
                Fault::Drop | Fault::Delay => lost,
                Fault::NoReply => {
                    let _ = self.w.arrive_replace(n, &failed_proxy_address);
                    lost
                }
                Fault::Crash => {
                    let _ = self.w.arrive_replace(n, &failed_proxy_address);
                    self.w.crash();
                    lost
                }
            }
        })
    }

    fn commit_migration<'s>(&'s self, meta: MigrationTaskMeta) -> BoxFut<'s, Result<(), MetaManipulationBrokerError>> {
        Box::pin(async move {
            let (n, f) = match self.w.boundary().await {
                Gate::Dead => return Err(MetaManipulationBrokerError::RequestFailed),
                Gate::Go(n, f) => (n, f),
            };
            let lost = Err(MetaManipulationBrokerError::RequestFailed);
            let id = self.w.key_id(&key_of(&meta));
            let f = {
                let mut c = self.w.ctl.lock();
                c.commit_boundaries.push(n);
                let k = c.commit_boundaries.len();
                match c.commit_faults.get(&k).cloned() {
                    Some(cf) => {
                        c.faults.insert(n, cf);
                        cf
                    }
                    None => f,
                }
            };
            let (src, dst) = meta
                .slot_range
                .tag
                .get_migration_meta()
                .map(|m| (pidx(&m.src_proxy_address), pidx(&m.dst_proxy_address)))
                .unwrap_or((0, 0));
            let arm = |w: &World| {
                let mut c = w.ctl.lock();
                c.post_commit.insert(id, (src, dst));
                c.dst_done.remove(&id);
            };
            match f {
                Fault::None => {
                    let r = self.w.arrive_commit(meta).await;
                    arm(&self.w);
                    http_class(r)
                }
                Fault::Dup => {
                    let r = self.w.arrive_commit(meta.clone()).await;
                    let _ = self.w.arrive_commit(meta).await;
                    arm(&self.w);
                    http_class(r)
                }
                Fault::Drop => lost,
                Fault::Delay => {
                    let mut c = self.w.ctl.lock();
                    c.held_commit_meta.insert(n, (src, dst));
                    c.held.insert(n, Held::Commit(meta));
                    lost
                }
                Fault::NoReply => {
                    let _ = self.w.arrive_commit(meta).await;
                    lost
                }
                Fault::Crash => {
                    let _ = self.w.arrive_commit(meta).await;
                    self.w.crash();
                    lost
                }
            }
        })
    }
}

// ---------------------------------------------------------------- running a case

fn parse_fault(s: &str) -> Fault {
    match s {
        "drop" => Fault::Drop,
        "dup" => Fault::Dup,
        "delay" => Fault::Delay,
        "noreply" => Fault::NoReply,
        "crash" => Fault::Crash,
        "none" => Fault::None,
        other => panic!("bad fault {}", other),
    }
}

async fn observe(w: &Arc<World>) -> String {
    let n = { w.ctl.lock().nproxy };
    let mut st = vec![];
    for i in 1..=n {
        let h = { w.reg.handlers.lock().get(&paddr(i)).cloned() };
        if let Some(h) = h {
            let (e, c, r) = proxy_state(&h).await;
            st.push(format!("{}:{}:{}:{}", i, e, h8(&c), h8(&r)));
        }
    }
    let pend = w.pending_ids();
    let nc = { w.ctl.lock().commits_ok };
    format!(
        "st={} pend={} nc={}",
        st.join(","),
        if pend.is_empty() { "-".to_string() } else { pend.iter().map(|x| x.to_string()).collect::<Vec<_>>().join(",") },
        nc
    )
}

fn take_trace(w: &World) -> String {
    let mut c = w.ctl.lock();
    let t = std::mem::take(&mut c.trace);
    if t.is_empty() {
        "-".to_string()
    } else {
        t.join(",")
    }
}

// proxy address pairs of the cluster's chunks, in chunk order
fn chunk_pairs(w: &World) -> Vec<(String, String)> {
    let st = w.store.lock();
    let mut v = vec![];
    for (_, c) in st.clusters.iter() {
        for ch in c.chunks.iter() {
            v.push((ch.proxy_addresses[0].clone(), ch.proxy_addresses[1].clone()));
        }
    }
    v
}

async fn oracle_listing(w: &Arc<World>, ordered: bool) -> Vec<usize> {
    let b = Arc::new(FakeBroker { w: w.clone(), faulty: false });
    let v: Vec<_> = if ordered {
        BrokerOrderedProxiesRetriever::new(b).retrieve_proxies().collect().await
    } else {
        BrokerProxiesRetriever::new(b).retrieve_proxies().collect().await
    };
    v.into_iter().filter_map(|r| r.ok()).map(|a| pidx(&a)).collect()
}

async fn probe_route(w: &Arc<World>, i: usize) -> String {
    let h = { w.reg.handlers.lock().get(&paddr(i)).cloned() };
    let h = match h {
        Some(h) => h,
        None => return "?".into(),
    };
    w.reg.route_log.lock().clear();
    match send_cmd(&h, vec![b"GET".to_vec(), PROBE.to_vec()]).await {
        Some(Resp::Error(e)) => {
            let t = String::from_utf8_lossy(&e).to_string();
            let parts: Vec<&str> = t.split(' ').collect();
            if parts.len() == 3 && parts[0] == "MOVED" {
                format!("moved:{}", pidx(parts[2]))
            } else {
                format!("err:{}", parts[0])
            }
        }
        Some(_) => {
            let log = w.reg.route_log.lock();
            match log.iter().find(|(_, c)| !c.is_empty() && c[0].eq_ignore_ascii_case(b"GET")) {
                Some((a, _)) => format!("local:{}", a),
                None => "nolog".to_string(),
            }
        }
        None => "canceled".into(),
    }
}

// where the broker's cluster view puts the probe slot when nothing is migrating: (proxy index, node address)
fn probe_owner(w: &World, cluster: &str) -> Option<(usize, String)> {
    let slot = generate_slot(PROBE);
    let c = w.store.lock().get_cluster_by_name(cluster, MIGRATION_LIMIT)?;
    for n in c.get_nodes() {
        if n.get_role() != Role::Master {
            continue;
        }
        for sr in n.get_slots() {
            if !sr.tag.is_stable() {
                return None;
            }
            if sr.get_range_list().get_ranges().iter().any(|r| r.start() <= slot && slot <= r.end()) {
                return Some((pidx(n.get_proxy_address()), n.get_address().to_string()));
            }
        }
    }
    None
}

async fn run_steps(w: Arc<World>, steps: Vec<Vec<String>>) -> (Vec<String>, Vec<String>) {
    let mut prog = vec![]; // model program steps
    let mut obs = vec![];
    let mut ops_words: Vec<String> = vec![];
    let mut round_words: Vec<String> = vec![];
    let mut fm_words: Vec<String> = vec![];
    let mut svc_words: Vec<String> = vec![];
    w.record_served(false);
    for (si, toks) in steps.iter().enumerate() {
        let u = |k: usize| -> usize { toks[k].parse().expect("num") };
        match toks[0].as_str() {
            "service" => {
                // wiring probe: the production CoordinatorService (its four loops as service.rs assembles them, 1 s timers) runs for a
                // while over the fake broker / network without faults; must be the last step of a case (the model does not follow it)
                {
                    let mut c = w.ctl.lock();
                    c.crashed = false;
                    c.listing = Some(true);
                }
                let cfg = CoordinatorConfig {
                    address: "127.0.0.1:0".to_string(),
                    broker_addresses: Arc::new(ArcSwap::new(Arc::new(vec![]))),
                    reporter_id: "c7".to_string(),
                    thread_number: 1,
                    proxy_timeout: 1,
                    enable_compression: false,
                    disable_failover: false,
                };
                let db = Arc::new(FakeBroker { w: w.clone(), faulty: true });
                let svc = CoordinatorService::new(cfg, db.clone(), db, CoordNet { w: w.clone() });
                let _ = tokio::time::timeout(Duration::from_millis(u(1) as u64), svc.run()).await;
                let tr = take_trace(&w);
                let o = observe(&w).await;
                svc_words.push(format!("svctr={} svc{}", tr, o.replace(" pend=", " svcpend=").replace(" nc=", " svcnc=")));
                prog.push("nop".to_string());
                obs.push("F".to_string());
            }
            "snapshot" => {
                let copy = { w.store.lock().clone() };
                *w.snap.lock() = Some(copy);
                prog.push("nop".to_string());
                obs.push("F".to_string());
            }
            "addproxy" | "addcluster" | "addnodes" | "migrate" | "failover" | "config" | "rmproxy" | "scaledown" | "failoverheld"
            | "addclusterx" | "rmclusterx" | "restore" | "recover" => {
                let before = w.pending_ids();
                let chunks_before: Vec<(String, String)> = chunk_pairs(&w);
                // epoch recovery takes the largest epoch any proxy reports (fetch_max_epoch: UMCTL GETEPOCH)
                let mut max_proxy_epoch: u64 = 0;
                if toks[0] == "recover" {
                    let n = { w.ctl.lock().nproxy };
                    for i in 1..=n {
                        let h = { w.reg.handlers.lock().get(&paddr(i)).cloned() };
                        if let Some(h) = h {
                            if let Some(Resp::Integer(b)) = send_cmd(&h, vec![b"UMCTL".to_vec(), b"GETEPOCH".to_vec()]).await {
                                max_proxy_epoch = max_proxy_epoch.max(String::from_utf8_lossy(&b).parse().unwrap_or(0));
                            }
                        }
                    }
                }
                if toks[0] == "restore" {
                    let t = { w.ctl.lock().time + 1 };
                    w.restores.lock().push(t);
                }
                let snap_copy = { w.snap.lock().clone() };
                let res: Result<(), MetaStoreError> = {
                    let mut st = w.store.lock();
                    match toks[0].as_str() {
                        "addproxy" => {
                            let i = u(1);
                            st.add_proxy(paddr(i), [naddr(i, 0), naddr(i, 1)], Some(phost(i)), None)
                        }
                        "addcluster" => st.add_cluster(CLUSTER.to_string(), u(1), ClusterConfig::default()),
                        "addnodes" => st.auto_add_nodes(CLUSTER.to_string(), u(1)).map(|_| ()),
                        "migrate" => st.migrate_slots(CLUSTER.to_string()),
                        "failover" => st.replace_failed_proxy(paddr(u(1)), MIGRATION_LIMIT).map(|_| ()),
                        "scaledown" => st.migrate_slots_to_scale_down(CLUSTER.to_string(), u(1)),
                        "addclusterx" => st.add_cluster(format!("c{}", u(1)), u(2), ClusterConfig::default()),
                        "rmclusterx" => st.remove_cluster(format!("c{}", u(1))),
                        "restore" => {
                            // the broker process restarts from the snapshot: whatever happened after it is lost
                            if let Some(sn) = snap_copy {
                                *st = sn;
                            }
                            Ok(())
                        }
                        "recover" => {
                            // service.rs recover_epoch: storage.recover_epoch(max + 1); storage.rs: store.recover_epoch(.. + 1)
                            st.recover_epoch(max_proxy_epoch + 1 + 1);
                            Ok(())
                        }
                        "failoverheld" => {
                            // fail the source (or destination) proxy of the migration whose k-th commit call is held
                            let k: usize = toks[1].trim_start_matches('M').parse().expect("k");
                            let tgt = {
                                let c = w.ctl.lock();
                                c.commit_boundaries.get(k - 1).and_then(|b| c.held_commit_meta.get(b)).cloned()
                            };
                            match tgt {
                                Some((src, dst)) => {
                                    let a = if toks[2] == "src" { src } else { dst };
                                    st.replace_failed_proxy(paddr(a), MIGRATION_LIMIT).map(|_| ())
                                }
                                None => Ok(()),
                            }
                        }
                        "config" => {
                            let mut m = HashMap::new();
                            m.insert("migration_scan_count".to_string(), toks[1].clone());
                            st.change_config(CLUSTER.to_string(), m)
                        }
                        _ => st.remove_proxy(paddr(u(1))),
                    }
                };
                w.record_served(true);
                let after = w.pending_ids();
                let newk: Vec<String> = after.iter().filter(|k| !before.contains(k)).map(|k| k.to_string()).collect();
                // the same operation for the broker model of the failure-handling part (C07F cases)
                let fop = if !w.fail_mode {
                    String::new()
                } else {
                    match toks[0].as_str() {
                        "addproxy" => format!(" reg {}", u(1)),
                        "addcluster" => {
                            let newp: Vec<String> = chunk_pairs(&w)
                                .iter()
                                .filter(|p| !chunks_before.contains(p))
                                .map(|(a, b)| format!("{}:{}", pidx(a), pidx(b)))
                                .collect();
                            format!(" ac {} {}", u(1), if newp.is_empty() { "-".to_string() } else { newp.join(",") })
                        }
                        "config" => format!(" cfg {}", toks[1]),
                        other => panic!("step {} is not available in a C07F case", other),
                    }
                };
                // keys that vanished without a commit (a failover re-issues the migration epoch: the old key is gone)
                let remk: Vec<String> = before.iter().filter(|k| !after.contains(k)).map(|k| k.to_string()).collect();
                let ids = format!(
                    "{}{}",
                    if newk.is_empty() { "-".to_string() } else { newk.join(",") },
                    if remk.is_empty() { String::new() } else { format!("/{}", remk.join(",")) }
                );
                prog.push(format!("adv {}{}", ids, fop));
                let word = match res {
                    Ok(()) => "ok".to_string(),
                    Err(e) => format!("err:{}", e.to_code()),
                };
                ops_words.push(word);
                if w.fail_mode {
                    obs.push(format!("A {} {}", observe(&w).await, w.fail_obs()));
                } else {
                    obs.push(format!("A {}", observe(&w).await));
                }
            }
            "meta" | "mig" => {
                let k = u(1);
                let ordered = toks[0] == "meta";
                let addrs = oracle_listing(&w, ordered).await;
                {
                    let mut c = w.ctl.lock();
                    c.crashed = false;
                    c.listing = None;
                    c.round_ordered = ordered;
                    c.last_listing = None;
                }
                let n0 = { w.ctl.lock().boundary };
                let db = Arc::new(FakeBroker { w: w.clone(), faulty: true });
                let net = Arc::new(CoordNet { w: w.clone() });
                let results: Vec<_> = if ordered {
                    let sync = ProxyMetaRespSynchronizer::new(
                        BrokerOrderedProxiesRetriever::new(db.clone()),
                        BrokerMetaRetriever::new(db.clone()),
                        ProxyMetaRespSender::new(net, false),
                    );
                    sync.run().collect().await
                } else {
                    let sync = ParMigrationStateSynchronizer::new(
                        BrokerProxiesRetriever::new(db.clone()),
                        MigrationStateRespChecker::new(net.clone()),
                        BrokerMigrationCommitter::new(db.clone()),
                        BrokerMetaRetriever::new(db.clone()),
                        ProxyMetaRespSender::new(net, false),
                    );
                    sync.run().collect().await
                };
                let round_ok = results.iter().all(|r| r.is_ok());
                let (nb, cr, addrs) = {
                    let mut c = w.ctl.lock();
                    c.post_commit.clear();
                    c.dst_done.clear();
                    let l = c.last_listing.take().unwrap_or(addrs);
                    (c.boundary, c.crashed, l)
                };
                prog.push(format!(
                    "{} {} {} {}",
                    toks[0],
                    k,
                    n0,
                    if addrs.is_empty() { "-".to_string() } else { addrs.iter().map(|a| a.to_string()).collect::<Vec<_>>().join(",") }
                ));
                round_words.push(if round_ok { "1".to_string() } else { "0".to_string() });
                obs.push(format!(
                    "R tr={} nb={} cr={} {}",
                    take_trace(&w),
                    nb,
                    if cr { 1 } else { 0 },
                    observe(&w).await
                ));
            }
            "finishmig" => {
                // let every handshake run: both sides of every task the proxies hold must reach SwitchCommitted
                w.reg.gate_open.store(true, Ordering::SeqCst);
                let n = { w.ctl.lock().nproxy };
                let mut done = false;
                for _ in 0..400 {
                    let mut all = true;
                    for i in 1..=n {
                        let h = { w.reg.handlers.lock().get(&paddr(i)).cloned() };
                        if let Some(h) = h {
                            if let Some(Resp::Arr(Array::Arr(top))) = send_cmd(&h, vec![b"UMCTL".to_vec(), b"INFO".to_vec()]).await {
                                if let Some(Resp::Arr(Array::Arr(lines))) = top.get(5) {
                                    for l in lines.iter().skip(1) {
                                        if !bulk_text(l).ends_with("SWITCH_COMMITTED") {
                                            all = false;
                                        }
                                    }
                                }
                            }
                        }
                    }
                    if all {
                        done = true;
                        break;
                    }
                    tokio::time::sleep(Duration::from_millis(10)).await;
                }
                w.reg.gate_open.store(false, Ordering::SeqCst);
                prog.push("nop".to_string());
                fm_words.push(if done { "done".to_string() } else { "timeout".to_string() });
                obs.push("F".to_string());
            }
            "tick" | "down" | "up" => {
                {
                    let mut c = w.ctl.lock();
                    match toks[0].as_str() {
                        "tick" => c.vclock += u(1) as i64,
                        "down" => {
                            c.down.insert(u(1));
                        }
                        _ => {
                            c.down.remove(&u(1));
                        }
                    }
                }
                prog.push(format!("{} {}", toks[0], u(1)));
                obs.push(format!("T {}", w.fail_obs()));
            }
            "detect" | "handle" => {
                let k = u(1);
                let detect = toks[0] == "detect";
                let addrs = oracle_listing(&w, false).await;
                let t0 = {
                    let mut c = w.ctl.lock();
                    c.crashed = false;
                    c.listing = None;
                    c.round_ordered = false;
                    c.last_listing = None;
                    c.time
                };
                let n0 = { w.ctl.lock().boundary };
                let db = Arc::new(FakeBroker { w: w.clone(), faulty: true });
                let net = Arc::new(CoordNet { w: w.clone() });
                let round_ok = if detect {
                    let det = ParFailureDetector::new(
                        BrokerProxiesRetriever::new(db.clone()),
                        PingFailureDetector::new(net),
                        BrokerFailureReporter::new(format!("c{}", k), db.clone()),
                    );
                    det.run().await.is_ok()
                } else {
                    let h = ParFailureHandler::new(BrokerProxyFailureRetriever::new(db.clone()), ReplaceNodeHandler::new(db.clone()));
                    let results: Vec<_> = h.run().collect().await;
                    results.iter().all(|r| r.is_ok())
                };
                let (nb, cr, addrs, adv) = {
                    let mut c = w.ctl.lock();
                    let l = c.last_listing.take().unwrap_or(addrs);
                    (c.boundary, c.crashed, l, c.time - t0)
                };
                round_words.push(if round_ok { "1".to_string() } else { "0".to_string() });
                let al = if addrs.is_empty() { "-".to_string() } else { addrs.iter().map(|a| a.to_string()).collect::<Vec<_>>().join(",") };
                prog.push(format!("{} {} {} {} {}", toks[0], k, n0, if detect { al } else { "-".to_string() }, adv));
                obs.push(format!("D tr={} nb={} cr={} {}", take_trace(&w), nb, if cr { 1 } else { 0 }, w.fail_obs()));
            }
            "quiet" => {
                // from here on no scripted fault or injection applies (the fault-free tail)
                let mut c = w.ctl.lock();
                let b = c.boundary;
                c.faults.retain(|n, _| *n < b);
                c.injects.retain(|n, _| *n < b);
                prog.push("quiet".to_string());
                obs.push("F".to_string());
            }
            "restart" => {
                w.do_inject(&Inject::Restart(u(1)), format!("s{}", si)).await;
                {
                    let mut c = w.ctl.lock();
                    c.replays.pop();
                }
                prog.push(format!("restart {}", u(1)));
                obs.push(format!("X tr={} {}", take_trace(&w), observe(&w).await));
            }
            "replay" => {
                let before = { w.ctl.lock().replays.len() };
                let j = match toks[1].strip_prefix('M') {
                    Some(k) => {
                        let k: usize = k.parse().expect("k");
                        w.ctl.lock().commit_boundaries.get(k - 1).cloned().unwrap_or(usize::MAX)
                    }
                    None => u(1),
                };
                w.do_inject(&Inject::Replay(j), format!("s{}", si)).await;
                let ev = {
                    let c = w.ctl.lock();
                    if c.replays.len() > before {
                        let parts: Vec<&str> = c.replays[before].split(' ').collect();
                        format!("replay {} {} {}", parts[1], parts[2], parts[3])
                    } else {
                        "replay n - -".to_string()
                    }
                };
                {
                    let mut c = w.ctl.lock();
                    c.replays.truncate(before);
                }
                prog.push(ev);
                obs.push(format!("X tr={} {}", take_trace(&w), observe(&w).await));
            }
            other => panic!("bad step {}", other),
        }
    }
    // final facts for the monitors (not compared with the model)
    let n = { w.ctl.lock().nproxy };
    let mut fin = vec![];
    for i in 1..=n {
        let v = w.view(i);
        let owner = v
            .as_ref()
            .and_then(|p| p.get_cluster_name().map(|c| c.to_string()))
            .and_then(|c| probe_owner(&w, &c));
        let route = probe_route(&w, i).await;
        let want = match (&owner, &v) {
            (Some((op, on)), Some(p)) if p.get_cluster_name().is_some() => {
                if *op == i {
                    format!("local:{}", on)
                } else {
                    format!("moved:{}", op)
                }
            }
            _ => "-".to_string(),
        };
        fin.push(format!(
            "{}|{}|{}|{}",
            i,
            v.map(|p| p.get_epoch().to_string()).unwrap_or_else(|| "-".into()),
            route,
            want
        ));
    }
    let ov = { w.ctl.lock().order_violations.clone() };
    let cmis = { w.ctl.lock().commit_mismatch.clone() };
    let restores: Vec<String> = { w.restores.lock().iter().map(|t| t.to_string()).collect() };
    let mut failed: Vec<String> = { w.store.lock().get_failed_proxies().iter().map(|a| pidx(a).to_string()).collect() };
    failed.sort();
    let j = |v: &Vec<String>| if v.is_empty() { "-".to_string() } else { v.join(",") };
    obs.push(format!(
        "Z ops={} rounds={} fm={} failed={} restores={} fin={} cmis={} {}order={}",
        j(&ops_words),
        j(&round_words),
        j(&fm_words),
        j(&failed),
        j(&restores),
        fin.join(","),
        if cmis.is_empty() { "ok".to_string() } else { cmis.join("+") },
        if svc_words.is_empty() { String::new() } else { format!("{} ", svc_words.join(" ")) },
        if ov.is_empty() { "ok".to_string() } else { ov.join("+") }
    ));
    (prog, obs)
}

pub fn run_case(rt: &tokio::runtime::Runtime, line: &str) -> String {
    let mut segs = line.split(';').map(|s| s.trim());
    let hd: Vec<&str> = segs.next().expect("header").split_whitespace().collect();
    assert!((hd[0] == "C07" || hd[0] == "C07F") && hd.len() == 4, "header");
    let nproxy: usize = hd[1].parse().expect("nproxy");
    let mut faults = HashMap::new();
    let mut commit_faults: HashMap<usize, Fault> = HashMap::new();
    if hd[2] != "-" {
        for e in hd[2].split(',') {
            let mut it = e.split(':');
            let key = it.next().expect("n");
            let f = parse_fault(it.next().expect("kind"));
            if let Some(k) = key.strip_prefix('M') {
                commit_faults.insert(k.parse().expect("k"), f);
            } else {
                faults.insert(key.parse().expect("n"), f);
            }
        }
    }
    let mut injects: HashMap<usize, Vec<Inject>> = HashMap::new();
    if hd[3] != "-" {
        for e in hd[3].split(',') {
            let p: Vec<&str> = e.split(':').collect();
            let n: usize = p[0].parse().expect("n");
            let arg: usize = p[2].parse().expect("arg");
            let inj = match p[1] {
                "restart" => Inject::Restart(arg),
                "replay" => Inject::Replay(arg),
                other => panic!("bad inject {}", other),
            };
            injects.entry(n).or_default().push(inj);
        }
    }
    let steps: Vec<Vec<String>> = segs
        .filter(|s| !s.is_empty())
        .map(|s| s.split_whitespace().map(|t| t.to_string()).collect())
        .collect();
    let reg = Arc::new(Registry {
        handlers: Mutex::new(HashMap::new()),
        gate_open: AtomicBool::new(false),
        route_log: Mutex::new(vec![]),
    });
    let w = Arc::new(World {
        fail_mode: hd[0] == "C07F",
        snap: Mutex::new(None),
        restores: Mutex::new(vec![]),
        store: Mutex::new(MetaStore::new(false)),
        reg: reg.clone(),
        ctl: Mutex::new(Ctl {
            boundary: 0,
            faults,
            injects,
            held: BTreeMap::new(),
            crashed: false,
            listing: None,
            round_ordered: false,
            last_listing: None,
            trace: vec![],
            reports: vec![],
            replays: vec![],
            keys: vec![],
            time: 0,
            served: vec![],
            commits_ok: 0,
            nproxy,
            order_violations: vec![],
            post_commit: HashMap::new(),
            dst_done: HashSet::new(),
            vclock: 0,
            vt: HashMap::new(),
            down: HashSet::new(),
            choices: vec![],
            commit_faults,
            commit_boundaries: vec![],
            held_commit_meta: HashMap::new(),
            commit_mismatch: vec![],
        }),
    });
    let (prog, obs) = rt.block_on(async {
        for i in 1..=nproxy {
            let h = new_handler(&reg, i);
            reg.handlers.lock().insert(paddr(i), h);
        }
        let r = tokio::time::timeout(Duration::from_secs(60), run_steps(w.clone(), steps)).await;
        // drop the proxies of this case (their background tasks stop with them)
        reg.handlers.lock().clear();
        match r {
            Ok(x) => x,
            Err(_) => (vec!["timeout".to_string()], vec!["timeout".to_string()]),
        }
    });
    let c = w.ctl.lock();
    let mut fl: Vec<(usize, Fault)> = c.faults.iter().map(|(k, v)| (*k, *v)).collect();
    fl.sort_by_key(|x| x.0);
    let empty = Proxy::new(None, String::new(), 0, vec![], vec![], None);
    let mut m = vec![format!("N {}", nproxy)];
    m.push(format!("E {} {}", h8(&canon_cluster(&empty)), h8(&canon_repl(&empty))));
    m.push(format!(
        "V {}",
        if c.served.is_empty() {
            "-".to_string()
        } else {
            c.served
                .iter()
                .map(|(t, a, e, vid, ch, rh)| format!("{}.{}.{}.{}.{}.{}", t, a, e, vid, ch, rh))
                .collect::<Vec<_>>()
                .join(",")
        }
    ));
    m.push(format!(
        "S {}",
        if fl.is_empty() { "-".to_string() } else { fl.iter().map(|(n, f)| format!("{}:{}", n, fault_word(*f))).collect::<Vec<_>>().join(",") }
    ));
    // injections as model events: restart a | replayed call (tag, kind) | replayed commit
    let mut inj_txt = vec![];
    for r in c.replays.iter() {
        let p: Vec<&str> = r.split(' ').collect();
        if let Some(n) = p[0].strip_prefix('b') {
            inj_txt.push(format!("{}:{}:{}:{}", n, p[1], p[2], p[3]));
        }
    }
    m.push(format!("I {}", if inj_txt.is_empty() { "-".to_string() } else { inj_txt.join(",") }));
    m.push(format!(
        "Q {}",
        if c.reports.is_empty() {
            "-".to_string()
        } else {
            c.reports.iter().map(|(n, id, s, d)| format!("{}.{}.{}.{}", n, id, s, d)).collect::<Vec<_>>().join(",")
        }
    ));
    m.push(format!(
        "B {} {} {}",
        if w.fail_mode { 1 } else { 0 },
        FAIL_TTL,
        FAIL_QUORUM
    ));
    m.push(format!(
        "K {}",
        if c.choices.is_empty() {
            "-".to_string()
        } else {
            c.choices.iter().map(|(n, v)| format!("{}.{}", n, v.join("/"))).collect::<Vec<_>>().join(",")
        }
    ));
    m.push(format!("P {}", prog.join(" | ")));
    format!("M {} ## O {}", m.join(" ; "), obs.join(" ; "))
}
