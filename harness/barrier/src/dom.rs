// C11: the pre-switch barrier, real code under a deterministic scheduler (hook H3, common::verif_sched).
//   run <term0> <thread specs ...> / <tid> <tid> ...
//       thread spec:  S:<hint>:<inner>   hint = n | b | m<cmd_term>      inner = o | r | c
//                     B:<polls>   P (a stop_blocking caller)   I (a command already in flight)
// Real OS threads call the real TaskBlockingQueueSender::send / start_blocking / blocking_done / drop of the
// handle / stop_blocking. The hook parks every thread before each shared-memory access; the controller
// releases exactly one parked thread per schedule entry (entries naming a thread that does not exist or has
// finished are skipped). An in-flight command is the CounterTask kept by the fake inner sender; its thread id
// is its position in the pool (assigned at the hand-off) and its single step is the drop of that CounterTask,
// executed by the controller itself.
// Output: one record per executed step
//   <tid>:<label>><next label>:b<blocking>t<term>d<blocking_done>[:A1 = start_blocking returned][:D<done seen by the blocker>][:H<task>][:R<task>]
// then " | hand=.. redisp=.. th=<label of every thread> fin=<all finished>".
use crossbeam_channel::{unbounded, Receiver, RecvTimeoutError, Sender};
use parking_lot::Mutex;
use std::cell::RefCell;
use std::panic::{catch_unwind, AssertUnwindSafe};
use std::sync::atomic::{AtomicBool, AtomicU64, Ordering};
use std::sync::{Arc, Once};
use std::time::Duration;
use undermoon::common::verif_sched;
use undermoon::protocol::{Resp, RespPacket, RespVec};
use undermoon::proxy::backend::{CmdTask, SenderBackendError};
use undermoon::proxy::blocking::{
    BlockingCmdTaskSender, BlockingHint, BlockingHintTask, BlockingMap, CounterTask,
    TaskBlockingController, TaskBlockingQueueSenderFactory,
};
use undermoon::proxy::command::{CommandError, CommandResult};
use undermoon::proxy::sender::{CmdTaskSender, CmdTaskSenderFactory};
use undermoon::proxy::slowlog::TaskEvent;

const STEP_TIMEOUT: Duration = Duration::from_secs(10);

// ---------- the task ----------
pub struct FakeTask {
    id: usize,
}

impl CmdTask for FakeTask {
    type Pkt = RespPacket;
    type TaskType = ();
    type Context = ();

    fn get_key(&self) -> Option<&[u8]> {
        None
    }
    fn get_slot(&self) -> Option<usize> {
        Some(self.id)
    }
    fn set_result(self, _result: CommandResult<Self::Pkt>) {}
    fn get_packet(&self) -> Self::Pkt {
        RespPacket::from_resp_vec(Resp::Simple(vec![]))
    }
    fn get_type(&self) -> Self::TaskType {}
    fn get_context(&self) -> Self::Context {}
    fn set_resp_result(self, _result: Result<RespVec, CommandError>) {}
    fn log_event(&mut self, _event: TaskEvent) {}
}

#[derive(Clone, Copy, PartialEq)]
enum InnerRes {
    Ok,
    Retry,
    Canceled,
}

// ---------- state shared between the fakes and the controller ----------
enum Slot {
    Real,
    Inflight(Option<CounterTask<FakeTask>>),
}

struct CaseShared {
    hand: Mutex<Vec<usize>>,
    redisp: Mutex<Vec<usize>>,
    pool: Mutex<Vec<Slot>>,
    plan: Vec<InnerRes>, // by task id (= pool index of the sender)
    setup: AtomicBool,
    setup_store: Mutex<Vec<CounterTask<FakeTask>>>,
}

struct FakeInner {
    sh: Arc<CaseShared>,
}

impl CmdTaskSender for FakeInner {
    type Task = CounterTask<FakeTask>;

    fn send(&self, task: Self::Task) -> Result<(), SenderBackendError<Self::Task>> {
        let id = task.get_slot().expect("id");
        if self.sh.setup.load(Ordering::SeqCst) {
            self.sh.setup_store.lock().push(task);
            return Ok(());
        }
        self.sh.hand.lock().push(id);
        match self.sh.plan[id] {
            InnerRes::Ok => {
                self.sh.pool.lock().push(Slot::Inflight(Some(task)));
                Ok(())
            }
            InnerRes::Retry => Err(SenderBackendError::Retry(task)),
            InnerRes::Canceled => {
                // no lock is held here: the drop parks at "task_dec"
                drop(task);
                Err(SenderBackendError::Canceled)
            }
        }
    }
}

struct FakeInnerFactory {
    sh: Arc<CaseShared>,
}

impl CmdTaskSenderFactory for FakeInnerFactory {
    type Sender = FakeInner;

    fn create(&self, _address: String) -> Self::Sender {
        FakeInner {
            sh: self.sh.clone(),
        }
    }
}

struct FakeRedisp {
    sh: Arc<CaseShared>,
}

impl CmdTaskSender for FakeRedisp {
    type Task = FakeTask;

    fn send(&self, task: Self::Task) -> Result<(), SenderBackendError<Self::Task>> {
        self.sh.redisp.lock().push(task.id);
        Ok(())
    }
}

impl BlockingCmdTaskSender for FakeRedisp {}

// ---------- the scheduler side of the hook ----------
enum Msg {
    Parked {
        id: usize,
        label: &'static str,
        note: String,
    },
    Finished {
        id: usize,
        result: String,
        note: String,
    },
}

struct ThreadCtx {
    gen: u64,
    id: usize,
    to_ctl: Sender<Msg>,
    go: Receiver<()>,
    note: String,
}

thread_local! {
    static TL: RefCell<Option<ThreadCtx>> = RefCell::new(None);
}

static GEN: AtomicU64 = AtomicU64::new(0);
static INSTALL: Once = Once::new();

fn hook(label: &'static str) {
    // The borrow of the thread-local ends before the thread blocks.
    let parked = TL.with(|tl| {
        let mut b = tl.borrow_mut();
        match b.as_mut() {
            None => None,
            Some(ctx) => {
                if ctx.gen != GEN.load(Ordering::SeqCst) {
                    return None;
                }
                let note = std::mem::take(&mut ctx.note);
                let _ = ctx.to_ctl.send(Msg::Parked {
                    id: ctx.id,
                    label,
                    note,
                });
                Some(ctx.go.clone())
            }
        }
    });
    if let Some(go) = parked {
        let _ = go.recv();
    }
}

fn set_note(s: &str) {
    TL.with(|tl| {
        if let Some(ctx) = tl.borrow_mut().as_mut() {
            ctx.note = s.to_string();
        }
    });
}

#[derive(Clone)]
enum Spec {
    Sender(BlockingHint, InnerRes),
    Blocker(usize),
    Stopper,
    Inflight,
}

fn parse_spec(s: &str) -> Spec {
    let parts: Vec<&str> = s.split(':').collect();
    match parts[0] {
        "S" => {
            let h = parts[1];
            let hint = if h == "n" {
                BlockingHint::NotBlocking
            } else if h == "b" {
                BlockingHint::Blocking
            } else if let Some(t) = h.strip_prefix('m') {
                BlockingHint::NotBlockingInMigration(t.parse().expect("cmd_term"))
            } else {
                panic!("bad hint {}", h)
            };
            let inner = match parts[2] {
                "o" => InnerRes::Ok,
                "r" => InnerRes::Retry,
                "c" => InnerRes::Canceled,
                x => panic!("bad inner {}", x),
            };
            Spec::Sender(hint, inner)
        }
        "B" => Spec::Blocker(parts[1].parse().expect("polls")),
        "P" => Spec::Stopper,
        "I" => Spec::Inflight,
        x => panic!("bad thread spec {}", x),
    }
}

enum Status {
    Parked(&'static str),
    Finished(String),
}

fn ids(v: &[usize]) -> String {
    if v.is_empty() {
        return "-".to_string();
    }
    v.iter()
        .map(|x| x.to_string())
        .collect::<Vec<_>>()
        .join(",")
}

fn fin_label(result: &str) -> String {
    if result == "panic" {
        "panic".to_string()
    } else {
        format!("fin.{}", result)
    }
}

pub fn run_case(_rt: &tokio::runtime::Runtime, line: &str) -> String {
    let toks: Vec<&str> = line.split_whitespace().collect();
    match toks.first().copied() {
        Some("run") => run(&toks[1..]),
        Some("explore") => "unsupported-on-implementation".to_string(),
        Some(k) => format!("unknown-kind {}", k),
        None => "empty".to_string(),
    }
}

fn run(toks: &[&str]) -> String {
    INSTALL.call_once(|| {
        verif_sched::set_callback(Some(Arc::new(hook)));
    });
    let term0: u32 = toks[0].parse().expect("term0");
    if term0 % 2 != 0 {
        return "unsupported odd term0".to_string();
    }
    let split = toks.iter().position(|t| *t == "/").unwrap_or(toks.len());
    let specs: Vec<Spec> = toks[1..split].iter().map(|s| parse_spec(s)).collect();
    let sched: Vec<usize> = toks[(split + 1).min(toks.len())..]
        .iter()
        .map(|s| s.parse().expect("tid"))
        .collect();

    let gen = GEN.fetch_add(1, Ordering::SeqCst) + 1;
    let plan: Vec<InnerRes> = specs
        .iter()
        .map(|s| match s {
            Spec::Sender(_, ir) => *ir,
            _ => InnerRes::Ok,
        })
        .collect();
    let sh = Arc::new(CaseShared {
        hand: Mutex::new(vec![]),
        redisp: Mutex::new(vec![]),
        pool: Mutex::new(vec![]),
        plan,
        setup: AtomicBool::new(true),
        setup_store: Mutex::new(vec![]),
    });
    let map = Arc::new(BlockingMap::new(
        FakeInnerFactory { sh: sh.clone() },
        Arc::new(FakeRedisp { sh: sh.clone() }),
    ));
    let ctrl = map.get_blocking_queue("backend".to_string());
    let sender = Arc::new(TaskBlockingQueueSenderFactory::new(map.clone()).create("backend".to_string()));

    // setup on the controller thread (never parks: no thread context): term0 / 2 start+stop cycles,
    // one completed hand-off per command that is in flight at the start
    for _ in 0..term0 / 2 {
        let h = ctrl.start_blocking();
        drop(h);
    }
    {
        let mut pool = sh.pool.lock();
        for _ in 0..specs.len() {
            pool.push(Slot::Real);
        }
    }
    for (i, s) in specs.iter().enumerate() {
        if let Spec::Inflight = s {
            let r = sender.send(BlockingHintTask::new(FakeTask { id: i }, BlockingHint::NotBlocking));
            assert!(r.is_ok(), "setup hand-off failed");
            let t = sh.setup_store.lock().pop().expect("setup task");
            let mut pool = sh.pool.lock();
            pool[i] = Slot::Inflight(Some(t));
        }
    }
    sh.setup.store(false, Ordering::SeqCst);

    // real threads
    let (to_ctl, from_threads) = unbounded::<Msg>();
    let mut gos: Vec<Option<Sender<()>>> = vec![];
    let mut joins = vec![];
    let mut status: Vec<Option<Status>> = vec![];
    let mut nreal = 0;
    for (i, s) in specs.iter().enumerate() {
        if let Spec::Inflight = s {
            gos.push(None);
            status.push(None);
            continue;
        }
        nreal += 1;
        let (go_tx, go_rx) = unbounded::<()>();
        gos.push(Some(go_tx));
        status.push(None);
        let to_ctl2 = to_ctl.clone();
        let spec = s.clone();
        let ctrl2 = ctrl.clone();
        let sender2 = sender.clone();
        let j = std::thread::spawn(move || {
            TL.with(|tl| {
                *tl.borrow_mut() = Some(ThreadCtx {
                    gen,
                    id: i,
                    to_ctl: to_ctl2.clone(),
                    go: go_rx,
                    note: String::new(),
                })
            });
            let res = catch_unwind(AssertUnwindSafe(|| match spec {
                Spec::Sender(hint, _) => {
                    match sender2.send(BlockingHintTask::new(FakeTask { id: i }, hint)) {
                        Ok(()) => "ok",
                        Err(SenderBackendError::Retry(_)) => "retry",
                        Err(SenderBackendError::Canceled) => "canceled",
                        Err(_) => "other-error",
                    }
                }
                Spec::Blocker(polls) => {
                    let h = ctrl2.start_blocking();
                    set_note("A1"); // the handle exists from here on
                    let mut n = polls;
                    while n > 0 {
                        let d = ctrl2.blocking_done();
                        set_note(if d { "D1" } else { "D0" });
                        if d {
                            break;
                        }
                        n -= 1;
                    }
                    drop(h);
                    "ok"
                }
                Spec::Stopper => {
                    ctrl2.stop_blocking();
                    "ok"
                }
                Spec::Inflight => "ok",
            }));
            let result = match res {
                Ok(s) => s.to_string(),
                Err(_) => "panic".to_string(),
            };
            let note = TL.with(|tl| {
                tl.borrow_mut()
                    .as_mut()
                    .map(|c| std::mem::take(&mut c.note))
                    .unwrap_or_default()
            });
            let _ = to_ctl2.send(Msg::Finished {
                id: i,
                result,
                note,
            });
        });
        joins.push(j);
    }

    let mut out: Vec<String> = vec![];
    let mut wedged: Option<String> = None;

    // every real thread reports its first scheduling point
    for _ in 0..nreal {
        match from_threads.recv_timeout(STEP_TIMEOUT) {
            Ok(Msg::Parked { id, label, .. }) => status[id] = Some(Status::Parked(label)),
            Ok(Msg::Finished { id, result, .. }) => status[id] = Some(Status::Finished(result)),
            Err(_) => {
                wedged = Some("wedged at start".to_string());
                break;
            }
        }
    }

    let observe = |ctrl: &Arc<_>| -> String {
        let c: &Arc<undermoon::proxy::blocking::TaskBlockingQueue<FakeInner, FakeRedisp>> = ctrl;
        let st = c.get_blocking_state();
        let d = c.blocking_done();
        format!(
            "b{}t{}d{}",
            if st.blocking { 1 } else { 0 },
            st.term,
            if d { 1 } else { 0 }
        )
    };

    if wedged.is_none() {
        for (k, &tid) in sched.iter().enumerate() {
            let npool = sh.pool.lock().len();
            if tid >= npool {
                continue;
            }
            let is_real = matches!(sh.pool.lock()[tid], Slot::Real);
            let hand_before = sh.hand.lock().len();
            let redisp_before = sh.redisp.lock().len();
            let (label, next, note): (String, String, String);
            if is_real {
                let cur = match &status[tid] {
                    Some(Status::Parked(l)) => *l,
                    _ => continue,
                };
                gos[tid].as_ref().expect("go").send(()).expect("go send");
                match from_threads.recv_timeout(STEP_TIMEOUT) {
                    Ok(Msg::Parked { id, label: l, note: n }) => {
                        assert_eq!(id, tid, "message from an unexpected thread");
                        status[tid] = Some(Status::Parked(l));
                        label = cur.to_string();
                        next = l.to_string();
                        note = n;
                    }
                    Ok(Msg::Finished { id, result, note: n }) => {
                        assert_eq!(id, tid, "message from an unexpected thread");
                        label = cur.to_string();
                        next = fin_label(&result);
                        status[tid] = Some(Status::Finished(result));
                        note = n;
                    }
                    Err(RecvTimeoutError::Timeout) | Err(RecvTimeoutError::Disconnected) => {
                        wedged = Some(format!("wedged at schedule position {} thread {} label {}", k, tid, cur));
                        break;
                    }
                }
            } else {
                let task = match &mut sh.pool.lock()[tid] {
                    Slot::Inflight(t) => t.take(),
                    Slot::Real => None,
                };
                match task {
                    None => continue,
                    Some(t) => {
                        drop(t); // the completion of the command: AutoCounter::drop on this thread (not parked)
                        label = "task_dec".to_string();
                        next = "fin.ok".to_string();
                        note = String::new();
                    }
                }
            }
            // the pool may have grown (hand-off): status vectors follow
            let npool2 = sh.pool.lock().len();
            while status.len() < npool2 {
                status.push(None);
                gos.push(None);
            }
            let mut rec = format!("{}:{}>{}:{}", tid, label, next, observe(&ctrl));
            if !note.is_empty() {
                rec.push(':');
                rec.push_str(&note);
            }
            let hand = sh.hand.lock();
            if hand.len() > hand_before {
                rec.push_str(&format!(":H{}", hand[hand.len() - 1]));
            }
            drop(hand);
            let redisp = sh.redisp.lock();
            if redisp.len() > redisp_before {
                rec.push_str(&format!(":R{}", redisp[redisp.len() - 1]));
            }
            drop(redisp);
            out.push(rec);
        }
    }

    // summary, then let every remaining thread run free
    let mut th: Vec<String> = vec![];
    let mut fin = true;
    {
        let pool = sh.pool.lock();
        for (i, slot) in pool.iter().enumerate() {
            match slot {
                Slot::Real => match status.get(i).and_then(|s| s.as_ref()) {
                    Some(Status::Parked(l)) => {
                        fin = false;
                        th.push(l.to_string())
                    }
                    Some(Status::Finished(r)) => th.push(fin_label(r)),
                    None => {
                        fin = false;
                        th.push("?".to_string())
                    }
                },
                Slot::Inflight(Some(_)) => {
                    fin = false;
                    th.push("task_dec".to_string())
                }
                Slot::Inflight(None) => th.push("fin.ok".to_string()),
            }
        }
    }
    let summary = format!(
        "{} | hand={} redisp={} th={} fin={}",
        out.join(" "),
        ids(&sh.hand.lock()),
        ids(&sh.redisp.lock()),
        th.join(","),
        if fin { 1 } else { 0 }
    );
    GEN.fetch_add(1, Ordering::SeqCst); // hooks of this case's threads no longer park
    for g in gos.iter().flatten() {
        let _ = g.send(());
    }
    drop(gos);
    match wedged {
        None => {
            for j in joins {
                let _ = j.join();
            }
            summary
        }
        Some(w) => format!("{} ;; {}", w, summary),
    }
}
