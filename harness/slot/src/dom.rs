// Group `slot` (C09 routing, C14 topology): the real code driven on the case lines the extracted model gets.
//
//   tag <key>                    common::utils::get_hash_tag                  -> "tag <hex>"
//   crc <bytes>                  crc16::State::<XMODEM>::calculate            -> "crc <n>"
//   slot <key>                   common::utils::generate_slot                 -> "slot <n>"
//   same <key>..                 common::utils::same_slot                     -> "same 0|1"
//   table <layout>               proxy::slot::SlotMapData::new + get, all 16384 slots -> "table <runs>"
//   otable <layout>              same, for layouts whose nodes overlap (the model prints owner sets)
//   fromranges <layout>          proxy::slot::SlotMap::from_ranges + get, all 16384 slots
//   route <cfg> <local> <peer> <el>..   a real proxy (SharedForwardHandler) with fake Redis / peer connections:
//                                metadata delivered with UMCTL SETCLUSTER built by ProxyClusterMeta::to_args
//                                (enc=p) or to_compressed_args (enc=c), then the command through handle_cmd_ctx
//                                -> "reply <resp> | sent <addr> <el>.. ; .." (what each fake connection received)
//   layout: "-" | addr@s-e,s-e;addr@..     cfg: ar=0|1,dr=<addr>|-,mr=<n>|-,enc=p|c,name=0|1
//   element: hex | "-" (empty) | "N" (nil bulk)
use crate::util::*;
use arc_swap::ArcSwap;
use futures::channel::mpsc;
use futures::{Future, SinkExt, StreamExt, TryStreamExt};
use parking_lot::Mutex;
use std::collections::HashMap;
use std::convert::TryFrom;
use std::net::SocketAddr;
use std::num::NonZeroUsize;
use std::panic::{catch_unwind, AssertUnwindSafe};
use std::pin::Pin;
use std::sync::atomic::{AtomicBool, AtomicI64, AtomicU64};
use std::sync::Arc;
use std::time::Duration;
use undermoon::common::batch::BatchStrategy;
use undermoon::common::cluster::{ClusterName, Range, RangeList, SlotRange, SlotRangeTag};
use undermoon::common::config::ClusterConfig;
use undermoon::common::proto::{ClusterMapFlags, ProxyClusterMeta};
use undermoon::common::track::TrackedFutureRegistry;
use undermoon::common::utils::{generate_slot, get_hash_tag, same_slot, SLOT_NUM};
use undermoon::protocol::{
    Array, BinSafeStr, BulkStr, OptionalMulti, RedisClient, RedisClientError, RedisClientFactory,
    Resp, RespPacket, RespVec,
};
use undermoon::proxy::backend::{BackendError, ConnFactory, ConnSink, ConnStream, CreateConnResult};
use undermoon::proxy::command::{new_command_pair, Command};
use undermoon::proxy::executor::SharedForwardHandler;
use undermoon::proxy::manager::MetaMap;
use undermoon::proxy::service::{ClusterNodesVersion, ServerProxyConfig};
use undermoon::proxy::session::{CmdCtx, CmdCtxHandler};
use undermoon::proxy::verif_slot::{SlotMap, SlotMapData};
use undermoon::proxy::slowlog::SlowRequestLogger;

pub type Layout = Vec<(String, Vec<(usize, usize)>)>;

pub fn parse_layout(tok: &str) -> Layout {
    if tok == "-" {
        return vec![];
    }
    tok.split(';')
        .map(|node| {
            let mut it = node.splitn(2, '@');
            let addr = it.next().expect("addr").to_string();
            let rs = it.next().expect("ranges");
            let ranges = if rs.is_empty() {
                vec![]
            } else {
                rs.split(',')
                    .map(|r| {
                        let mut p = r.splitn(2, '-');
                        let s: usize = p.next().expect("start").parse().expect("start");
                        let e: usize = p.next().expect("end").parse().expect("end");
                        (s, e)
                    })
                    .collect()
            };
            (addr, ranges)
        })
        .collect()
}

pub fn rle(owners: &[String]) -> String {
    let mut out = vec![];
    let mut start = 0usize;
    for i in 1..=owners.len() {
        if i == owners.len() || owners[i] != owners[start] {
            out.push(format!("{}-{}:{}", start, i - 1, owners[start]));
            start = i;
        }
    }
    out.join(",")
}

pub fn raw_range_list(ranges: &[(usize, usize)]) -> RangeList {
    let mut rl = RangeList::new(vec![]);
    *rl.get_mut_ranges() = ranges.iter().map(|(s, e)| Range(*s, *e)).collect();
    rl
}

fn untagged(layout: &Layout) -> HashMap<String, Vec<SlotRange>> {
    layout
        .iter()
        .map(|(a, rs)| {
            (
                a.clone(),
                vec![SlotRange {
                    range_list: raw_range_list(rs),
                    tag: SlotRangeTag::None,
                }],
            )
        })
        .collect()
}

// ---------- fake network ----------
pub type Log = Arc<Mutex<Vec<(String, Vec<Option<Vec<u8>>>)>>>;

pub fn upper(b: &[u8]) -> Vec<u8> {
    b.iter().map(|x| x.to_ascii_uppercase()).collect()
}

// the stand-in backend: must equal Slot.std_backend
fn std_backend(addr: &str, cmd: &[Option<Vec<u8>>]) -> RespVec {
    let mut c = cmd;
    if c.len() >= 2 {
        if let Some(n) = &c[0] {
            if upper(n) == b"UMFORWARD" {
                c = &c[2..];
            }
        }
    }
    let name = match c.get(0) {
        Some(Some(n)) => upper(n),
        _ => return Resp::Error(b"?".to_vec()),
    };
    match name.as_slice() {
        b"GET" => {
            let mut v = b"v@".to_vec();
            v.extend_from_slice(addr.as_bytes());
            Resp::Bulk(BulkStr::Str(v))
        }
        b"DEL" | b"EXISTS" | b"MSETNX" => Resp::Integer(b"1".to_vec()),
        b"EVAL" | b"EVALSHA" => Resp::Integer(b"7".to_vec()),
        _ => Resp::Simple(b"OK".to_vec()),
    }
}

pub struct FakeConnFactory {
    pub log: Log,
}

impl ConnFactory for FakeConnFactory {
    type Pkt = RespPacket;

    fn create_conn(
        &self,
        addr: SocketAddr,
    ) -> Pin<Box<dyn Future<Output = CreateConnResult<Self::Pkt>> + Send>> {
        let (sender, receiver) = mpsc::unbounded();
        let log = self.log.clone();
        let addr_s = addr.to_string();
        let receiver = receiver.map(move |packet: RespPacket| {
            let cmd: Vec<Option<Vec<u8>>> = match packet.to_resp_vec() {
                Resp::Arr(Array::Arr(resps)) => resps
                    .iter()
                    .map(|r| match r {
                        Resp::Bulk(BulkStr::Str(s)) => Some(s.clone()),
                        _ => None,
                    })
                    .collect(),
                _ => vec![],
            };
            let resp = std_backend(&addr_s, &cmd);
            log.lock().push((addr_s.clone(), cmd));
            Ok::<_, ()>(RespPacket::Data(resp))
        });
        let sink: ConnSink<RespPacket> = Box::pin(sender.sink_map_err(|_| BackendError::Canceled));
        let stream: ConnStream<RespPacket> = Box::pin(receiver.map_err(|_| BackendError::Canceled));
        Box::pin(async { Ok((sink, stream)) })
    }
}

// Control connections of the migration tasks (UMCTL PRECHECK / PRESWITCH / FINALSWITCH to the peer proxy, SCAN on the source
// node).  `level` pins the migrating (source) task: 0 = everything fails (the task stays in PreCheck; this is the old
// NullClient), 1 = PRECHECK is accepted (-> PreBlocking -> PreSwitch), 2 = PRESWITCH accepted (-> Scanning, the SCAN keeps
// answering a non-zero cursor), 3 = the SCAN finishes (-> FinalSwitch), 4 = FINALSWITCH accepted (-> SwitchCommitted).
pub struct GatedClient {
    level: Arc<std::sync::atomic::AtomicUsize>,
}
impl GatedClient {
    fn answer(&self, cmd: &[BinSafeStr]) -> RespVec {
        let level = self.level.load(std::sync::atomic::Ordering::SeqCst);
        if level == 0 {
            return Resp::Error(b"ERR fake".to_vec());
        }
        let name = cmd.get(0).map(|c| upper(c)).unwrap_or_default();
        let sub = cmd.get(1).map(|c| upper(c)).unwrap_or_default();
        let ok = Resp::Simple(b"OK".to_vec());
        let gate = |need: usize| if level >= need { ok.clone() } else { Resp::Error(b"ERR gate".to_vec()) };
        match (name.as_slice(), sub.as_slice()) {
            (b"UMCTL", b"PRECHECK") => gate(1),
            (b"UMCTL", b"PRESWITCH") => gate(2),
            (b"UMCTL", b"FINALSWITCH") => gate(4),
            (b"SCAN", _) => {
                let cursor: &[u8] = if level >= 3 { b"0" } else { b"7" };
                Resp::Arr(Array::Arr(vec![
                    Resp::Bulk(BulkStr::Str(cursor.to_vec())),
                    Resp::Arr(Array::Arr(vec![])),
                ]))
            }
            _ => ok,
        }
    }
}
impl RedisClient for GatedClient {
    fn execute<'s>(
        &'s mut self,
        command: OptionalMulti<Vec<BinSafeStr>>,
    ) -> Pin<Box<dyn Future<Output = Result<OptionalMulti<RespVec>, RedisClientError>> + Send + 's>>
    {
        let res = match command {
            OptionalMulti::Single(c) => OptionalMulti::Single(self.answer(&c)),
            OptionalMulti::Multi(cs) => OptionalMulti::Multi(cs.iter().map(|c| self.answer(c)).collect()),
        };
        Box::pin(async move { Ok(res) })
    }
}
pub struct NullClientFactory {
    pub level: Arc<std::sync::atomic::AtomicUsize>,
}
impl RedisClientFactory for NullClientFactory {
    type Client = GatedClient;
    fn create_client<'s>(
        &'s self,
        _address: String,
    ) -> Pin<Box<dyn Future<Output = Result<Self::Client, RedisClientError>> + Send + 's>> {
        let level = self.level.clone();
        Box::pin(async move { Ok(GatedClient { level }) })
    }
}

pub type Handler = SharedForwardHandler<NullClientFactory, FakeConnFactory>;

pub struct Proxy {
    pub handler: Handler,
    pub log: Log,
    pub gate: Arc<std::sync::atomic::AtomicUsize>,
}

pub struct Cfg {
    pub ar: bool,
    pub dr: Option<String>,
    pub mr: Option<usize>,
    pub compressed: bool,
    pub named: bool,
    pub v1: bool,
}

pub fn parse_cfg(s: &str) -> Cfg {
    let mut m = HashMap::new();
    for p in s.split(',') {
        let mut it = p.splitn(2, '=');
        m.insert(it.next().expect("k").to_string(), it.next().expect("v").to_string());
    }
    let get = |k: &str| m.get(k).cloned().unwrap_or_else(|| "-".to_string());
    Cfg {
        ar: get("ar") == "1",
        dr: if get("dr") == "-" { None } else { Some(get("dr")) },
        mr: if get("mr") == "-" { None } else { Some(get("mr").parse().expect("mr")) },
        compressed: get("enc") == "c",
        named: get("name") != "0",
        v1: get("ver") == "1",
    }
}

pub const SELF_ADDR: &str = "127.0.0.1:5299";

pub fn new_proxy(cfg: &Cfg) -> Proxy {
    let config = Arc::new(ServerProxyConfig {
        address: SELF_ADDR.to_string(),
        announce_address: SELF_ADDR.to_string(),
        announce_host: "127.0.0.1".to_string(),
        slowlog_len: NonZeroUsize::new(16).unwrap(),
        slowlog_log_slower_than: AtomicI64::new(-1),
        slowlog_sample_rate: AtomicU64::new(1),
        thread_number: NonZeroUsize::new(2).unwrap(),
        backend_conn_num: NonZeroUsize::new(1).unwrap(),
        active_redirection: cfg.ar,
        max_redirections: cfg.mr.and_then(NonZeroUsize::new),
        default_redirection_address: cfg.dr.clone(),
        backend_batch_strategy: BatchStrategy::Disabled,
        backend_flush_size: NonZeroUsize::new(1024).unwrap(),
        backend_low_flush_interval: Duration::from_nanos(200_000),
        backend_high_flush_interval: Duration::from_nanos(800_000),
        session_timeout: None,
        backend_timeout: Duration::from_secs(3),
        password: None,
        command_cluster_nodes_version: if cfg.v1 { ClusterNodesVersion::V1 } else { ClusterNodesVersion::V2 },
    });
    let log: Log = Arc::new(Mutex::new(vec![]));
    let gate = Arc::new(std::sync::atomic::AtomicUsize::new(0));
    let conn_factory = Arc::new(FakeConnFactory { log: log.clone() });
    let meta_map = Arc::new(ArcSwap::new(Arc::new(MetaMap::empty())));
    let (stopped, rx) = mpsc::unbounded();
    std::mem::forget(rx);
    let handler = SharedForwardHandler::new(
        config.clone(),
        Arc::new(NullClientFactory { level: gate.clone() }),
        Arc::new(SlowRequestLogger::new(config)),
        meta_map,
        conn_factory,
        Arc::new(TrackedFutureRegistry::default()),
        stopped,
    );
    Proxy { handler, log, gate }
}

pub enum Sent {
    Reply(RespVec),
    Canceled,
}

pub async fn send_cmd(handler: &Handler, elems: Vec<Option<Vec<u8>>>) -> Sent {
    let resp = Resp::Arr(Array::Arr(
        elems
            .into_iter()
            .map(|e| match e {
                Some(b) => Resp::Bulk(BulkStr::Str(b)),
                None => Resp::Bulk(BulkStr::Nil),
            })
            .collect(),
    ));
    let cmd = Command::new(Box::new(RespPacket::Data(resp)));
    let (s, r) = new_command_pair(&cmd);
    let ctx = CmdCtx::new(cmd, s, 0, false);
    let auth = AtomicBool::new(false);
    match handler.handle_cmd_ctx(ctx, r, &auth).await {
        Ok(reply) => Sent::Reply(reply.into_resp_vec()),
        Err(_) => Sent::Canceled,
    }
}

pub async fn set_cluster(
    handler: &Handler,
    compressed: bool,
    epoch: u64,
    local: HashMap<String, Vec<SlotRange>>,
    peer: HashMap<String, Vec<SlotRange>>,
) -> String {
    set_cluster_cfg(handler, compressed, epoch, local, peer, ClusterConfig::default()).await
}

pub async fn set_cluster_cfg(
    handler: &Handler,
    compressed: bool,
    epoch: u64,
    local: HashMap<String, Vec<SlotRange>>,
    peer: HashMap<String, Vec<SlotRange>>,
    cluster_config: ClusterConfig,
) -> String {
    let meta = ProxyClusterMeta::new(
        epoch,
        ClusterMapFlags {
            force: false,
            compress: compressed,
        },
        ClusterName::try_from("vc").expect("name"),
        local,
        peer,
        cluster_config,
    );
    let args = if compressed {
        meta.to_compressed_args().expect("compress")
    } else {
        meta.to_args()
    };
    let mut elems = vec![Some(b"UMCTL".to_vec()), Some(b"SETCLUSTER".to_vec())];
    elems.extend(args.into_iter().map(|a| Some(a.into_bytes())));
    match send_cmd(handler, elems).await {
        Sent::Reply(r) => resp_to_string(&r),
        Sent::Canceled => "canceled".to_string(),
    }
}

fn parse_elem(t: &str) -> Option<Vec<u8>> {
    if t == "N" {
        None
    } else {
        Some(unhex(t))
    }
}

fn fmt_cmd(c: &[Option<Vec<u8>>]) -> String {
    c.iter()
        .map(|e| match e {
            None => "N".to_string(),
            Some(b) => hex(b),
        })
        .collect::<Vec<_>>()
        .join(" ")
}

const NUMKEYS_PREFIX: &[u8] = b"ERR: Invalid `numkeys` ";
const UNEXPECTED_PREFIX: &[u8] = b"unexpected reply from ";
const SENTINEL: &[u8] = b"VSENTINEL";

fn is_sentinel(c: &[Option<Vec<u8>>]) -> bool {
    let c = if c.len() >= 2 && c[0].as_deref().map(|n| upper(n) == b"UMFORWARD").unwrap_or(false) {
        &c[2..]
    } else {
        c
    };
    matches!(c.get(0), Some(Some(n)) if n.as_slice() == SENTINEL)
}

fn canon_reply(r: RespVec) -> RespVec {
    match r {
        Resp::Error(e) => {
            if e.starts_with(NUMKEYS_PREFIX) {
                Resp::Error(NUMKEYS_PREFIX.to_vec())
            } else if e.starts_with(UNEXPECTED_PREFIX) {
                let cut = e.iter().position(|x| *x == b':').unwrap_or(e.len());
                Resp::Error(e[..cut].to_vec())
            } else {
                Resp::Error(e)
            }
        }
        other => other,
    }
}

thread_local! {
    static PROXIES: std::cell::RefCell<HashMap<String, Arc<Proxy>>> = std::cell::RefCell::new(HashMap::new());
}

fn run_route(rt: &tokio::runtime::Runtime, toks: &[&str]) -> String {
    let cfg = parse_cfg(toks[0]);
    let key = format!("{} {} {}", toks[0], toks[1], toks[2]);
    let cached = PROXIES.with(|p| p.borrow().get(&key).cloned());
    let proxy = match cached {
        Some(p) => p,
        None => {
            let p = rt.block_on(async {
                let p = new_proxy(&cfg);
                if cfg.named {
                    let local = untagged(&parse_layout(toks[1]));
                    let peer = untagged(&parse_layout(toks[2]));
                    let r = set_cluster(&p.handler, cfg.compressed, 1, local, peer).await;
                    if r != "S 4f4b" {
                        panic!("SETCLUSTER answered {}", r);
                    }
                }
                Arc::new(p)
            });
            PROXIES.with(|c| {
                let mut c = c.borrow_mut();
                if c.len() > 32 {
                    c.clear();
                }
                c.insert(key, p.clone());
            });
            p
        }
    };
    proxy.log.lock().clear();
    let elems: Vec<Option<Vec<u8>>> = toks[3..].iter().map(|t| parse_elem(t)).collect();
    let res = catch_unwind(AssertUnwindSafe(|| rt.block_on(send_cmd(&proxy.handler, elems))));
    let res = match res {
        Ok(r) => r,
        Err(_) => return "panic".to_string(),
    };
    let head = match res {
        Sent::Reply(r) => format!("reply {}", resp_to_string(&canon_reply(r))),
        Sent::Canceled => "canceled".to_string(),
    };
    // Quiescence before the log is read.  A reply can come back while sub commands that were already handed to a backend
    // sender are still in flight (MSET with a missing value answers right after dispatching its SETs).  Every sender is a
    // FIFO channel feeding ONE connection (backend_conn_num = 1) whose replies are produced in order by the recording
    // closure, so a sentinel command routed to the same node and answered proves that everything dispatched to that node
    // before it has been recorded.  One sentinel per node that can receive anything: every local node, and every peer under
    // active redirection; a node without a slot can never be sent anything.
    if cfg.named {
        let local_l = parse_layout(toks[1]);
        let peer_l = parse_layout(toks[2]);
        let mut slots: Vec<usize> = vec![];
        for (_, rs) in local_l.iter().chain(peer_l.iter().filter(|_| cfg.ar)) {
            if let Some((s, _)) = rs.iter().find(|(s, e)| s <= e && *s < SLOT_NUM) {
                slots.push(*s);
            }
        }
        let drained = rt.block_on(async {
            for s in slots {
                let cmd = vec![Some(SENTINEL.to_vec()), Some(crate::topo::key_for_slot(s))];
                match tokio::time::timeout(Duration::from_secs(20), send_cmd(&proxy.handler, cmd)).await {
                    Ok(_) => (),
                    Err(_) => return false,
                }
            }
            true
        });
        if !drained {
            return "drain-timeout".to_string();
        }
    }
    let mut items: Vec<String> = proxy
        .log
        .lock()
        .iter()
        .filter(|(_, c)| !is_sentinel(c))
        .map(|(a, c)| format!("{} {}", a, fmt_cmd(c)))
        .collect();
    items.sort();
    format!("{} | sent {}", head, items.join(" ; "))
}

pub fn run_case(rt: &tokio::runtime::Runtime, line: &str) -> String {
    let toks: Vec<&str> = line.split_whitespace().collect();
    match toks[0] {
        "tag" => format!("tag {}", hex(get_hash_tag(&unhex(toks[1])))),
        "crc" => format!(
            "crc {}",
            crc16::State::<crc16::XMODEM>::calculate(&unhex(toks[1]))
        ),
        "slot" => format!("slot {}", generate_slot(&unhex(toks[1]))),
        "same" => {
            let keys: Vec<Vec<u8>> = toks[1..].iter().map(|t| unhex(t)).collect();
            format!("same {}", if same_slot(keys.iter().map(|k| k.as_slice())) { 1 } else { 0 })
        }
        "table" | "otable" => {
            let layout = parse_layout(toks[1]);
            let m: HashMap<String, Vec<(usize, usize)>> = layout.into_iter().collect();
            let d = SlotMapData::new(m);
            let owners: Vec<String> = (0..SLOT_NUM)
                .map(|s| d.get(s).map(|a| a.to_string()).unwrap_or_else(|| "-".to_string()))
                .collect();
            // beyond the table nothing is owned
            for s in [SLOT_NUM, SLOT_NUM + 1, 65535, usize::MAX] {
                if d.get(s).is_some() {
                    return format!("{} owner-beyond-table {}", toks[0], s);
                }
            }
            format!("{} {}", toks[0], rle(&owners))
        }
        "fromranges" => {
            let layout = parse_layout(toks[1]);
            let d = SlotMap::from_ranges(untagged(&layout));
            let owners: Vec<String> = (0..SLOT_NUM)
                .map(|s| d.get(s).map(|a| a.to_string()).unwrap_or_else(|| "-".to_string()))
                .collect();
            format!("fromranges {}", rle(&owners))
        }
        "route" => run_route(rt, &toks[1..]),
        k if k == "nodes" || k == "pnodes" || k == "seq" => crate::topo::run_case(rt, &toks),
        k => format!("unknown-kind {}", k),
    }
}
