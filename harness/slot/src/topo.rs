// C14: CLUSTER NODES / CLUSTER SLOTS.
//   nodes <ver> <epoch> <self> <local> <peer> <states>
//        the real ClusterBackendMap (from_cluster_map with recording dummy senders): gen_cluster_nodes,
//        gen_cluster_slots with the given HashMap<RangeList, MigrationState>, and ClusterBackendMap::send probed for
//        one key of every slot  -> "nodes <lines> | slots <entries> | route <runs>"
//   pnodes <ver> <epoch> <self> <local> <peer> <switch cmds>
//        a real proxy: metadata through UMCTL SETCLUSTER (real migration tasks are created; their control client fails,
//        so a migrating task stays in PreCheck), importing tasks driven with real UMCTL PRECHECK/PRESWITCH/FINALSWITCH,
//        then CLUSTER NODES, CLUSTER SLOTS and the task states read back from UMCTL INFO
//        -> "nodes .. | slots .. | states <range list>=<state>;.."
//   tagged layout: "-" | addr@T:s-e,s-e+T:s-e;addr@..   T in n|m|i      states: "-" | s-e,s-e=pc|pb|ps|sc|fs|cm;..
//   canonical NODES line: addr,m|p,epoch,v1|v2=ranges (sorted);  SLOTS: host:port=ranges (sorted)
use crate::dom::*;
use crate::util::*;
use std::collections::{BTreeMap, HashMap};
use std::convert::TryFrom;
use std::sync::Arc;
use parking_lot::Mutex;
use undermoon::common::cluster::{
    ClusterName, MigrationMeta, MigrationTaskMeta, RangeList, SlotRange, SlotRangeTag,
};
use undermoon::common::config::ClusterConfig;
use undermoon::common::proto::{ClusterMapFlags, ProxyClusterMeta};
use undermoon::common::utils::{generate_slot, SLOT_NUM};
use undermoon::common::version::UNDERMOON_MIGRATION_VERSION;
use undermoon::migration::task::{MigrationState, SwitchArg};
use undermoon::protocol::{Array, BulkStr, Resp, RespPacket, RespVec};
use undermoon::proxy::backend::{CmdTask, SenderBackendError};
use undermoon::proxy::cluster::ClusterBackendMap;
use undermoon::proxy::command::{new_command_pair, Command};
use undermoon::proxy::sender::{CmdTaskSender, CmdTaskSenderFactory};
use undermoon::proxy::service::ClusterNodesVersion;
use undermoon::proxy::session::CmdCtx;

type TLayout = Vec<(String, Vec<(char, Vec<(usize, usize)>)>)>;

fn parse_tlayout(tok: &str) -> TLayout {
    if tok == "-" {
        return vec![];
    }
    tok.split(';')
        .map(|node| {
            let mut it = node.splitn(2, '@');
            let addr = it.next().expect("addr").to_string();
            let rest = it.next().expect("srs");
            let srs = if rest.is_empty() {
                vec![]
            } else {
                rest.split('+')
                    .map(|sr| {
                        let tag = sr.chars().next().expect("tag");
                        let rs = &sr[2..];
                        let ranges = if rs.is_empty() {
                            vec![]
                        } else {
                            rs.split(',')
                                .map(|r| {
                                    let mut p = r.splitn(2, '-');
                                    let s: usize = p.next().expect("s").parse().expect("s");
                                    let e: usize = p.next().expect("e").parse().expect("e");
                                    (s, e)
                                })
                                .collect()
                        };
                        (tag, ranges)
                    })
                    .collect()
            };
            (addr, srs)
        })
        .collect()
}

fn mig_meta() -> MigrationMeta {
    MigrationMeta {
        epoch: 1,
        src_proxy_address: "127.0.8.1:5299".to_string(),
        src_node_address: "127.0.8.1:7000".to_string(),
        dst_proxy_address: "127.0.8.2:5299".to_string(),
        dst_node_address: "127.0.8.2:7000".to_string(),
    }
}

fn tagged(layout: &TLayout) -> HashMap<String, Vec<SlotRange>> {
    layout
        .iter()
        .map(|(a, srs)| {
            (
                a.clone(),
                srs.iter()
                    .map(|(t, rs)| SlotRange {
                        range_list: raw_range_list(rs),
                        tag: match t {
                            'm' => SlotRangeTag::Migrating(mig_meta()),
                            'i' => SlotRangeTag::Importing(mig_meta()),
                            _ => SlotRangeTag::None,
                        },
                    })
                    .collect(),
            )
        })
        .collect()
}

fn parse_state(s: &str) -> MigrationState {
    match s {
        "pc" => MigrationState::PreCheck,
        "pb" => MigrationState::PreBlocking,
        "ps" => MigrationState::PreSwitch,
        "sc" => MigrationState::Scanning,
        "fs" => MigrationState::FinalSwitch,
        "cm" => MigrationState::SwitchCommitted,
        other => panic!("state {}", other),
    }
}

fn parse_ranges(rs: &str) -> Vec<(usize, usize)> {
    if rs.is_empty() {
        return vec![];
    }
    rs.split(',')
        .map(|r| {
            let mut p = r.splitn(2, '-');
            let s: usize = p.next().expect("s").parse().expect("s");
            let e: usize = p.next().expect("e").parse().expect("e");
            (s, e)
        })
        .collect()
}

fn parse_states(tok: &str) -> Vec<(Vec<(usize, usize)>, String)> {
    if tok == "-" {
        return vec![];
    }
    tok.split(';')
        .map(|e| {
            let mut it = e.splitn(2, '=');
            let rs = parse_ranges(it.next().expect("ranges"));
            (rs, it.next().expect("state").to_string())
        })
        .collect()
}

fn fmt_ranges(mut rs: Vec<(usize, usize)>) -> String {
    rs.sort();
    rs.iter()
        .map(|(a, b)| format!("{}-{}", a, b))
        .collect::<Vec<_>>()
        .join(",")
}

// "<id> <addr> <flags> - 0 0 <epoch> connected <ranges..>" per line
fn canon_nodes(text: &str) -> String {
    let mut out = vec![];
    for line in text.split('\n') {
        if line.is_empty() {
            continue;
        }
        let f: Vec<&str> = line.split(' ').collect();
        if f.len() < 8 || f[0].len() != 40 || f[3] != "-" || f[4] != "0" || f[5] != "0" || f[7] != "connected" {
            out.push(format!("badline[{}]", line));
            continue;
        }
        let (addr, fk) = match f[1].find('@') {
            Some(i) => (&f[1][..i], if &f[1][i..] == "@5299" { "v2" } else { "bad" }),
            None => (f[1], "v1"),
        };
        let flag = match f[2] {
            "myself,master" => "m",
            "master" => "p",
            _ => "bad",
        };
        let mut rs = vec![];
        for t in &f[8..] {
            match t.find('-') {
                Some(i) => rs.push((t[..i].parse().expect("s"), t[i + 1..].parse().expect("e"))),
                None => {
                    let x: usize = t.parse().expect("slot");
                    rs.push((x, x))
                }
            }
        }
        out.push(format!("{},{},{},{}={}", addr, flag, f[6], fk, fmt_ranges(rs)));
    }
    out.sort();
    out.join(";")
}

fn canon_slots(r: &Result<RespVec, String>) -> String {
    let arr = match r {
        Ok(Resp::Arr(Array::Arr(a))) => a,
        Ok(Resp::Error(_)) | Err(_) => return "err".to_string(),
        Ok(other) => return format!("bad[{}]", resp_to_string(other)),
    };
    let mut m: BTreeMap<String, Vec<(usize, usize)>> = BTreeMap::new();
    for e in arr {
        let ok = (|| {
            if let Resp::Arr(Array::Arr(v)) = e {
                if v.len() != 3 {
                    return None;
                }
                let s: usize = match &v[0] {
                    Resp::Integer(b) => std::str::from_utf8(b).ok()?.parse().ok()?,
                    _ => return None,
                };
                let en: usize = match &v[1] {
                    Resp::Integer(b) => std::str::from_utf8(b).ok()?.parse().ok()?,
                    _ => return None,
                };
                if let Resp::Arr(Array::Arr(n)) = &v[2] {
                    if n.len() != 3 {
                        return None;
                    }
                    let host = match &n[0] {
                        Resp::Bulk(BulkStr::Str(b)) => String::from_utf8_lossy(b).to_string(),
                        _ => return None,
                    };
                    let port = match &n[1] {
                        Resp::Integer(b) => String::from_utf8_lossy(b).to_string(),
                        _ => return None,
                    };
                    match &n[2] {
                        Resp::Bulk(BulkStr::Str(id)) if id.len() == 40 => (),
                        _ => return None,
                    }
                    return Some((format!("{}:{}", host, port), (s, en)));
                }
            }
            None
        })();
        match ok {
            Some((a, r)) => m.entry(a).or_default().push(r),
            None => return "bad-entry".to_string(),
        }
    }
    m.into_iter()
        .map(|(a, rs)| format!("{}={}", a, fmt_ranges(rs)))
        .collect::<Vec<_>>()
        .join(";")
}

// ---------- recording dummy senders for ClusterBackendMap ----------
struct DummySender {
    addr: String,
}
impl CmdTaskSender for DummySender {
    type Task = CmdCtx;
    fn send(&self, cmd_task: Self::Task) -> Result<(), SenderBackendError<Self::Task>> {
        let mut v = b"L".to_vec();
        v.extend_from_slice(self.addr.as_bytes());
        cmd_task.set_resp_result(Ok(Resp::Simple(v)));
        Ok(())
    }
}
struct DummyFactory;
impl CmdTaskSenderFactory for DummyFactory {
    type Sender = DummySender;
    fn create(&self, address: String) -> Self::Sender {
        DummySender { addr: address }
    }
}

thread_local! {
    static SLOT_KEYS: Vec<Vec<u8>> = {
        let mut keys: Vec<Option<Vec<u8>>> = vec![None; SLOT_NUM];
        let mut left = SLOT_NUM;
        let mut i = 0usize;
        while left > 0 {
            let k = format!("b{}", i).into_bytes();
            let s = generate_slot(&k);
            if keys[s].is_none() {
                keys[s] = Some(k);
                left -= 1;
            }
            i += 1;
        }
        keys.into_iter().map(|k| k.expect("key")).collect()
    };
}

/// a key hashing to slot `s` (table built once per thread)
pub fn key_for_slot(s: usize) -> Vec<u8> {
    SLOT_KEYS.with(|keys| keys[s].clone())
}

fn version(tok: &str) -> ClusterNodesVersion {
    if tok == "1" {
        ClusterNodesVersion::V1
    } else {
        ClusterNodesVersion::V2
    }
}

fn run_nodes(toks: &[&str]) -> String {
    let ver = version(toks[1]);
    let epoch: u64 = toks[2].parse().expect("epoch");
    let self_addr = toks[3].to_string();
    let local = tagged(&parse_tlayout(toks[4]));
    let peer = tagged(&parse_tlayout(toks[5]));
    let mut states: HashMap<RangeList, MigrationState> = HashMap::new();
    for (rs, st) in parse_states(toks[6]) {
        states.insert(raw_range_list(&rs), parse_state(&st));
    }
    let meta = ProxyClusterMeta::new(
        epoch,
        ClusterMapFlags {
            force: false,
            compress: false,
        },
        ClusterName::try_from("vc").expect("name"),
        local,
        peer,
        ClusterConfig::default(),
    );
    let cm: ClusterBackendMap<DummySender, DummySender> =
        ClusterBackendMap::from_cluster_map(&meta, &DummyFactory, &DummyFactory, false);
    let text = cm.gen_cluster_nodes(self_addr.clone(), &states, ver);
    let slots = cm.gen_cluster_slots(self_addr, &states);
    // routing probe, one key per slot
    let owners: Vec<String> = SLOT_KEYS.with(|keys| {
        keys.iter()
            .map(|k| {
                let cmd = Command::new(Box::new(RespPacket::Data(bulk_cmd(&[b"GET", k]))));
                let (s, r) = new_command_pair(&cmd);
                let ctx = CmdCtx::new(cmd, s, 0, false);
                let _ = cm.send(ctx);
                match futures::executor::block_on(r) {
                    Ok(reply) => match reply.into_resp_vec() {
                        Resp::Simple(b) => String::from_utf8_lossy(&b).to_string(),
                        Resp::Error(e) => {
                            let t = String::from_utf8_lossy(&e).to_string();
                            if t.starts_with("MOVED ") {
                                format!("M{}", t.splitn(3, ' ').nth(2).unwrap_or("?"))
                            } else if t.starts_with("slot not covered") {
                                "-".to_string()
                            } else {
                                format!("E[{}]", t.replace(' ', "_"))
                            }
                        }
                        other => format!("R[{}]", resp_to_string(&other).replace(' ', "_")),
                    },
                    Err(_) => "canceled".to_string(),
                }
            })
            .collect()
    });
    format!(
        "nodes {} | slots {} | route {}",
        canon_nodes(&text),
        canon_slots(&slots),
        rle(&owners)
    )
}

fn state_code(s: &str) -> &'static str {
    match s {
        "PRE_CHECK" => "pc",
        "PRE_BLOCKING" => "pb",
        "PRE_SWITCH" => "ps",
        "SCANNING" => "sc",
        "FINAL_SWITCH" => "fs",
        "SWITCH_COMMITTED" => "cm",
        _ => "??",
    }
}

fn find_mgr_lines(r: &RespVec, out: &mut Vec<String>) {
    // UMCTL INFO: [.., "Migration", [ "name: ..", "<n> <s-e>.. <src> -> <dst> <STATE>", .. ]]
    if let Resp::Arr(Array::Arr(v)) = r {
        for (i, e) in v.iter().enumerate() {
            if let Resp::Bulk(BulkStr::Str(b)) = e {
                if b.as_slice() == b"Migration" {
                    if let Some(Resp::Arr(Array::Arr(lines))) = v.get(i + 1) {
                        for l in lines {
                            if let Resp::Bulk(BulkStr::Str(s)) = l {
                                out.push(String::from_utf8_lossy(s).to_string());
                            }
                        }
                    }
                }
            }
        }
    }
}

fn run_pnodes(rt: &tokio::runtime::Runtime, toks: &[&str]) -> String {
    let cfgs = format!("ar=0,dr=-,mr=-,enc=c,name=1,ver={}", toks[1]);
    let cfg = parse_cfg(&cfgs);
    let epoch: u64 = toks[2].parse().expect("epoch");
    let local = tagged(&parse_tlayout(toks[4]));
    let peer = tagged(&parse_tlayout(toks[5]));
    let cmds = parse_states(toks[6]);
    rt.block_on(async {
        let p = new_proxy(&cfg);
        let r = set_cluster(&p.handler, true, epoch, local, peer).await;
        if r != "S 4f4b" {
            return format!("setcluster-failed {}", r);
        }
        for (rs, st) in cmds {
            let sub = match st.as_str() {
                "pc" => "PRECHECK",
                "ps" => "PRESWITCH",
                "cm" => "FINALSWITCH",
                other => panic!("cannot drive to {}", other),
            };
            let arg = SwitchArg {
                version: UNDERMOON_MIGRATION_VERSION.to_string(),
                meta: MigrationTaskMeta {
                    cluster_name: ClusterName::try_from("vc").expect("name"),
                    slot_range: SlotRange {
                        range_list: raw_range_list(&rs),
                        tag: SlotRangeTag::Importing(mig_meta()),
                    },
                },
            };
            let mut elems = vec![Some(b"UMCTL".to_vec()), Some(sub.as_bytes().to_vec())];
            elems.extend(arg.into_strings().into_iter().map(|s| Some(s.into_bytes())));
            match send_cmd(&p.handler, elems).await {
                Sent::Reply(Resp::Simple(_)) => (),
                Sent::Reply(other) => return format!("switch-failed {}", resp_to_string(&other)),
                Sent::Canceled => return "switch-canceled".to_string(),
            }
        }
        let nodes = match send_cmd(&p.handler, vec![Some(b"CLUSTER".to_vec()), Some(b"NODES".to_vec())]).await {
            Sent::Reply(Resp::Bulk(BulkStr::Str(b))) => canon_nodes(&String::from_utf8_lossy(&b)),
            _ => "bad-reply".to_string(),
        };
        let slots = match send_cmd(&p.handler, vec![Some(b"CLUSTER".to_vec()), Some(b"SLOTS".to_vec())]).await {
            Sent::Reply(r) => canon_slots(&Ok(r)),
            Sent::Canceled => "canceled".to_string(),
        };
        let sts = read_states(&p.handler).await;
        let _ = Arc::new(Mutex::new(()));
        format!(
            "nodes {} | slots {} | states {}",
            nodes,
            slots,
            if sts.is_empty() { "-".to_string() } else { sts.join(";") }
        )
    })
}

// task states as the proxy reports them (UMCTL INFO, "Migration" section): sorted "<ranges>=<state code>"
async fn read_states(handler: &Handler) -> Vec<String> {
    let mut lines = vec![];
    if let Sent::Reply(r) = send_cmd(handler, vec![Some(b"UMCTL".to_vec()), Some(b"INFO".to_vec())]).await {
        find_mgr_lines(&r, &mut lines);
    }
    let mut sts = vec![];
    for l in lines {
        if l.starts_with("name:") {
            continue;
        }
        // "<n> <s-e> .. <src> -> <dst> <STATE>"
        let f: Vec<&str> = l.split(' ').collect();
        let n: usize = f[0].parse().unwrap_or(0);
        let rs: Vec<&str> = f[1..1 + n].to_vec();
        sts.push(format!("{}={}", rs.join(","), state_code(f[f.len() - 1])));
    }
    sts.sort();
    sts
}

fn ranges_str(rs: &[(usize, usize)]) -> String {
    rs.iter().map(|(a, b)| format!("{}-{}", a, b)).collect::<Vec<_>>().join(",")
}

fn node_of_proxy(p: &str) -> String {
    // the node address used in migration metas for a peer proxy "h:port": "h:7000"
    format!("{}:7000", p.split(':').next().unwrap_or("127.0.9.9"))
}

// one MigrationMeta per migrating range list, shared by its MIGRATING and IMPORTING entry, naming the real owners
fn real_metas(self_addr: &str, local: &TLayout, peer: &TLayout) -> HashMap<Vec<(usize, usize)>, MigrationMeta> {
    let mut m: HashMap<Vec<(usize, usize)>, MigrationMeta> = HashMap::new();
    let blank = || MigrationMeta {
        epoch: 1,
        src_proxy_address: "127.0.9.8:5299".to_string(),
        src_node_address: "127.0.9.8:7000".to_string(),
        dst_proxy_address: "127.0.9.9:5299".to_string(),
        dst_node_address: "127.0.9.9:7000".to_string(),
    };
    for (is_local, lay) in [(true, local), (false, peer)] {
        for (a, srs) in lay.iter() {
            let (proxy, node) = if is_local { (self_addr.to_string(), a.clone()) } else { (a.clone(), node_of_proxy(a)) };
            for (t, rs) in srs {
                if *t == 'm' {
                    let e = m.entry(rs.clone()).or_insert_with(blank);
                    e.src_proxy_address = proxy.clone();
                    e.src_node_address = node.clone();
                } else if *t == 'i' {
                    let e = m.entry(rs.clone()).or_insert_with(blank);
                    e.dst_proxy_address = proxy.clone();
                    e.dst_node_address = node.clone();
                }
            }
        }
    }
    m
}

fn tagged_real(layout: &TLayout, metas: &HashMap<Vec<(usize, usize)>, MigrationMeta>) -> HashMap<String, Vec<SlotRange>> {
    layout
        .iter()
        .map(|(a, srs)| {
            (
                a.clone(),
                srs.iter()
                    .map(|(t, rs)| SlotRange {
                        range_list: raw_range_list(rs),
                        tag: match t {
                            'm' => SlotRangeTag::Migrating(metas[rs].clone()),
                            'i' => SlotRangeTag::Importing(metas[rs].clone()),
                            _ => SlotRangeTag::None,
                        },
                    })
                    .collect(),
            )
        })
        .collect()
}

// seq <ver> <epoch> <self> <local> <peer> <steps>      steps: q | L<level> | D<pc|ps|cm>, comma separated
//   ONE real proxy, ONE SETCLUSTER; then the steps in order on that same installed metadata:
//   L<n>  open the control-connection gate to level n and wait until every local MIGRATING task shows the phase that level pins
//         (0 PreCheck, 1 PreSwitch, 2 Scanning, 3 FinalSwitch, 4 SwitchCommitted)
//   D<s>  send the real UMCTL PRECHECK / PRESWITCH / FINALSWITCH for every local IMPORTING task (handle_switch sets the state)
//   q     CLUSTER NODES, CLUSTER SLOTS, the task states (UMCTL INFO) and a GET for one key of each migrating range list
//         -> "nodes .. | slots .. | states .. | probe <ranges>=X<node>|M<proxy>|skip|.. ;.."     queries joined by " || "
fn run_seq(rt: &tokio::runtime::Runtime, toks: &[&str]) -> String {
    let cfgs = format!("ar=0,dr=-,mr=-,enc=c,name=1,ver={}", toks[1]);
    let cfg = parse_cfg(&cfgs);
    let epoch: u64 = toks[2].parse().expect("epoch");
    let self_addr = toks[3];
    let local_l = parse_tlayout(toks[4]);
    let peer_l = parse_tlayout(toks[5]);
    let metas = real_metas(self_addr, &local_l, &peer_l);
    let local = tagged_real(&local_l, &metas);
    let peer = tagged_real(&peer_l, &metas);
    let local_mig: Vec<Vec<(usize, usize)>> =
        local_l.iter().flat_map(|(_, srs)| srs.iter().filter(|(t, _)| *t == 'm').map(|(_, rs)| rs.clone())).collect();
    let local_imp: Vec<Vec<(usize, usize)>> =
        local_l.iter().flat_map(|(_, srs)| srs.iter().filter(|(t, _)| *t == 'i').map(|(_, rs)| rs.clone())).collect();
    let mut all_mig: Vec<Vec<(usize, usize)>> = metas.keys().cloned().collect();
    all_mig.sort();
    let steps: Vec<&str> = toks[6].split(',').collect();
    rt.block_on(async {
        let p = new_proxy(&cfg);
        let mut cc = ClusterConfig::default();
        cc.migration_config.max_blocking_time = 3_600_000;
        let r = set_cluster_cfg(&p.handler, true, epoch, local, peer, cc).await;
        if r != "S 4f4b" {
            return format!("setcluster-failed {}", r);
        }
        let mut outs: Vec<String> = vec![];
        for st in steps {
            if st == "q" {
                let nodes = match send_cmd(&p.handler, vec![Some(b"CLUSTER".to_vec()), Some(b"NODES".to_vec())]).await {
                    Sent::Reply(Resp::Bulk(BulkStr::Str(b))) => canon_nodes(&String::from_utf8_lossy(&b)),
                    _ => "bad-reply".to_string(),
                };
                let slots = match send_cmd(&p.handler, vec![Some(b"CLUSTER".to_vec()), Some(b"SLOTS".to_vec())]).await {
                    Sent::Reply(r) => canon_slots(&Ok(r)),
                    Sent::Canceled => "canceled".to_string(),
                };
                let sts = read_states(&p.handler).await;
                // while a local migrating task holds its barrier (PreBlocking / PreSwitch) every command for its source node is
                // parked by design: no routing probe then
                let barrier = sts.iter().any(|s| s.ends_with("=pb") || s.ends_with("=ps"))
                    && !local_mig.is_empty()
                    && sts.iter().any(|s| {
                        local_mig.iter().any(|rs| {
                            s.starts_with(&format!("{}=", ranges_str(rs))) && (s.ends_with("=pb") || s.ends_with("=ps"))
                        })
                    });
                let mut probes = vec![];
                for rs in all_mig.iter() {
                    let slot = rs.iter().find(|(a, b)| a <= b && *a < SLOT_NUM).map(|(a, _)| *a);
                    let out = match slot {
                        None => "noslot".to_string(),
                        Some(_) if barrier => "skip".to_string(),
                        Some(sl) => {
                            let cmd = vec![Some(b"GET".to_vec()), Some(key_for_slot(sl))];
                            match tokio::time::timeout(std::time::Duration::from_secs(30), send_cmd(&p.handler, cmd)).await {
                                Err(_) => "timeout".to_string(),
                                Ok(Sent::Canceled) => "canceled".to_string(),
                                Ok(Sent::Reply(Resp::Bulk(BulkStr::Str(b)))) => {
                                    let t = String::from_utf8_lossy(&b).to_string();
                                    if let Some(a) = t.strip_prefix("v@") { format!("X{}", a) } else { format!("R[{}]", t) }
                                }
                                Ok(Sent::Reply(Resp::Error(e))) => {
                                    let t = String::from_utf8_lossy(&e).to_string();
                                    if t.starts_with("MOVED ") {
                                        format!("M{}", t.splitn(3, ' ').nth(2).unwrap_or("?"))
                                    } else {
                                        format!("E[{}]", t.replace(' ', "_"))
                                    }
                                }
                                Ok(Sent::Reply(other)) => format!("R[{}]", resp_to_string(&other).replace(' ', "_")),
                            }
                        }
                    };
                    probes.push(format!("{}={}", ranges_str(rs), out));
                }
                outs.push(format!(
                    "nodes {} | slots {} | states {} | probe {}",
                    nodes,
                    slots,
                    if sts.is_empty() { "-".to_string() } else { sts.join(";") },
                    if probes.is_empty() { "-".to_string() } else { probes.join(";") }
                ));
            } else if let Some(l) = st.strip_prefix('L') {
                let level: usize = l.parse().expect("level");
                p.gate.store(level, std::sync::atomic::Ordering::SeqCst);
                let want = ["pc", "ps", "sc", "fs", "cm"][level.min(4)];
                // condition-based wait (bounded): every local migrating task reports the pinned phase
                let mut ok = false;
                for _ in 0..30_000 {
                    let sts = read_states(&p.handler).await;
                    if local_mig.iter().all(|rs| sts.contains(&format!("{}={}", ranges_str(rs), want))) {
                        ok = true;
                        break;
                    }
                    tokio::time::sleep(std::time::Duration::from_millis(2)).await;
                }
                if !ok {
                    return format!("phase-timeout {} after [{}]", st, outs.join(" || "));
                }
            } else if let Some(d) = st.strip_prefix('D') {
                let sub = match d {
                    "pc" => "PRECHECK",
                    "ps" => "PRESWITCH",
                    "cm" => "FINALSWITCH",
                    other => panic!("cannot drive to {}", other),
                };
                for rs in local_imp.iter() {
                    let arg = SwitchArg {
                        version: UNDERMOON_MIGRATION_VERSION.to_string(),
                        meta: MigrationTaskMeta {
                            cluster_name: ClusterName::try_from("vc").expect("name"),
                            slot_range: SlotRange {
                                range_list: raw_range_list(rs),
                                tag: SlotRangeTag::Importing(metas[rs].clone()),
                            },
                        },
                    };
                    let mut elems = vec![Some(b"UMCTL".to_vec()), Some(sub.as_bytes().to_vec())];
                    elems.extend(arg.into_strings().into_iter().map(|s| Some(s.into_bytes())));
                    match send_cmd(&p.handler, elems).await {
                        Sent::Reply(Resp::Simple(_)) => (),
                        Sent::Reply(other) => return format!("switch-failed {}", resp_to_string(&other)),
                        Sent::Canceled => return "switch-canceled".to_string(),
                    }
                }
            } else {
                return format!("bad-step {}", st);
            }
        }
        outs.join(" || ")
    })
}

pub fn run_case(rt: &tokio::runtime::Runtime, toks: &[&str]) -> String {
    match toks[0] {
        "nodes" => run_nodes(toks),
        "pnodes" => run_pnodes(rt, toks),
        "seq" => run_seq(rt, toks),
        k => format!("unknown-kind {}", k),
    }
}
