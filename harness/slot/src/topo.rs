// C14 topology cases (filled in below)
pub fn run_case(_rt: &tokio::runtime::Runtime, toks: &[&str]) -> String {
    format!("unknown-kind {}", toks[0])
}
