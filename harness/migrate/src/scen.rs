// Scenarios: `mig` (a complete live migration under random client traffic) and `witness` (deterministic replay of
// "a deleted key is resurrected by the scanner's stale copy"). Both write a JSON-lines trace.
use crate::net::*;
use crate::util::{hex, resp_to_string};
use serde_json::{json, Value};
use std::collections::HashMap;
use std::sync::atomic::{AtomicBool, AtomicU64, AtomicU8, Ordering};
use std::sync::Arc;
use std::time::Duration;
use undermoon::common::utils::generate_slot;
use undermoon::protocol::{Resp, RespVec};

pub struct Params {
    pub kv: HashMap<String, String>,
}

impl Params {
    pub fn parse(toks: &[&str]) -> Self {
        let mut kv = HashMap::new();
        for t in toks {
            let mut it = t.splitn(2, '=');
            let k = it.next().unwrap_or("").to_string();
            let v = it.next().unwrap_or("").to_string();
            kv.insert(k, v);
        }
        Params { kv }
    }
    pub fn u64(&self, k: &str, default: u64) -> u64 {
        self.kv
            .get(k)
            .and_then(|v| v.parse::<u64>().ok())
            .unwrap_or(default)
    }
    pub fn str(&self, k: &str, default: &str) -> String {
        self.kv.get(k).cloned().unwrap_or_else(|| default.to_string())
    }
    pub fn json(&self) -> Value {
        let mut keys: Vec<&String> = self.kv.keys().collect();
        keys.sort();
        let mut m = serde_json::Map::new();
        for k in keys {
            m.insert(k.clone(), Value::String(self.kv[k].clone()));
        }
        Value::Object(m)
    }
}

// src phase codes used for the harness' own overlap statistics
const PH_BEFORE: u8 = 0;
const PH_AFTER: u8 = 7;

fn phase_code(word: &str) -> u8 {
    match word {
        "PreCheck" => 1,
        "PreBlocking" => 2,
        "PreSwitch" => 3,
        "Scanning" => 4,
        "FinalSwitch" => 5,
        "SwitchCommitted" => 6,
        _ => 0,
    }
}

pub struct Shared {
    pub ops: AtomicU64,
    pub client_ops: AtomicU64,
    pub moved_hops: AtomicU64,
    pub errors: AtomicU64,
    pub src_phase: AtomicU8,
    pub dst_phase: AtomicU8,
    pub epoch2_delivered: AtomicBool,
    pub commit_done: AtomicBool,
    pub stop_poller: AtomicBool,
    pub inv_by_phase: [AtomicU64; 8],
}

impl Shared {
    fn new() -> Arc<Self> {
        Arc::new(Shared {
            ops: AtomicU64::new(0),
            client_ops: AtomicU64::new(0),
            moved_hops: AtomicU64::new(0),
            errors: AtomicU64::new(0),
            src_phase: AtomicU8::new(0),
            dst_phase: AtomicU8::new(0),
            epoch2_delivered: AtomicBool::new(false),
            commit_done: AtomicBool::new(false),
            stop_poller: AtomicBool::new(false),
            inv_by_phase: Default::default(),
        })
    }
    fn stat_phase(&self) -> u8 {
        if self.commit_done.load(Ordering::SeqCst) {
            return PH_AFTER;
        }
        if !self.epoch2_delivered.load(Ordering::SeqCst) {
            return PH_BEFORE;
        }
        self.src_phase.load(Ordering::SeqCst)
    }
}

async fn poller(world: Arc<World>, sh: Arc<Shared>) {
    let mut last: (&str, &str) = ("?", "?");
    while !sh.stop_poller.load(Ordering::SeqCst) {
        let src = phase_of(&world, 0).await;
        let dst = phase_of(&world, 1).await;
        if (src, dst) != last {
            let seq = world.next_seq();
            world.log(seq, json!({"t": "phase", "seq": seq, "src": src, "dst": dst}));
            last = (src, dst);
            sh.src_phase.store(phase_code(src), Ordering::SeqCst);
            sh.dst_phase.store(phase_code(dst), Ordering::SeqCst);
        }
        tokio::time::sleep(Duration::from_millis(1)).await;
    }
}

fn moved_target(reply: &RespVec) -> Option<usize> {
    if let Resp::Error(e) = reply {
        if e.starts_with(b"MOVED ") {
            let s = String::from_utf8_lossy(e).to_string();
            let addr = s.split_whitespace().nth(2)?;
            return proxy_index(addr);
        }
    }
    None
}

const MAX_HOPS: u64 = 8;

// one client operation: inv, follow MOVED (hop events), rep
async fn client_op(
    world: &Arc<World>,
    sh: &Arc<Shared>,
    cid: u64,
    cmd: Vec<Vec<u8>>,
    first: usize,
    op_timeout: Duration,
) -> (RespVec, u64) {
    let op = sh.ops.fetch_add(1, Ordering::SeqCst) + 1;
    let ph = sh.stat_phase() as usize;
    sh.inv_by_phase[ph].fetch_add(1, Ordering::Relaxed);
    let seq = world.next_seq();
    world.log(
        seq,
        json!({"t": "inv", "seq": seq, "cid": cid, "op": op, "cmd": hex_args(&cmd), "proxy": PROXY_NAME[first]}),
    );
    let mut target = first;
    let mut hops = 0u64;
    let reply = loop {
        let reply = match world.handler(target) {
            Some(h) => match tokio::time::timeout(op_timeout, send_cmd(&h, cmd.clone())).await {
                Ok(Some(r)) => r,
                Ok(None) => harness_err("canceled"),
                Err(_) => harness_err("timeout"),
            },
            None => harness_err("no such proxy"),
        };
        match moved_target(&reply) {
            Some(to) if hops < MAX_HOPS => {
                hops += 1;
                let seq = world.next_seq();
                world.log(
                    seq,
                    json!({"t": "hop", "seq": seq, "op": op, "to": PROXY_NAME[to], "reply": resp_to_string(&reply)}),
                );
                target = to;
            }
            _ => break reply,
        }
    };
    let seq = world.next_seq();
    world.log(
        seq,
        json!({"t": "rep", "seq": seq, "op": op, "reply": resp_to_string(&reply), "hops": hops}),
    );
    sh.client_ops.fetch_add(1, Ordering::Relaxed);
    sh.moved_hops.fetch_add(hops, Ordering::Relaxed);
    if let Resp::Error(_) = reply {
        sh.errors.fetch_add(1, Ordering::Relaxed);
    }
    (reply, hops)
}

struct Pool {
    in_str: Vec<Vec<u8>>,
    out_str: Vec<Vec<u8>>,
    in_tags: Vec<String>,
    out_tags: Vec<String>,
    // hash tags (in range) of string-key groups {tag}a {tag}b {tag}c used by the multi-key commands
    mk_tags: Vec<String>,
}

fn gen_mk_tags(topo: &Topo, want: usize) -> Vec<String> {
    let mut v = vec![];
    let mut n = 0u64;
    while v.len() < want && n < 1_000_000 {
        let t = format!("m{}", n);
        n += 1;
        if in_range(topo, t.as_bytes()) {
            v.push(t);
        }
    }
    v
}

// multi-key commands on one hash-tag group: EVAL (fake script vocabulary of the stand-in) with and without ARGV, MGET, MSET,
// multi-key DEL / EXISTS.  Multi-key scripts only read or write; a deleting script has ONE key (see Model/Migrate.v ensured_ok)
fn gen_mk_op(pool: &Pool, rng: &Rng, cid: u64, n: u64) -> Vec<Vec<u8>> {
    let t = &pool.mk_tags[rng.below(pool.mk_tags.len() as u64) as usize];
    let all = [set_key(t, "a"), set_key(t, "b"), set_key(t, "c")];
    let nk = 2 + rng.below(2) as usize;
    let keys: Vec<Vec<u8>> = all[..nk].to_vec();
    let uniq = format!("c{}-{}", cid, n);
    let with_argv = rng.below(2) == 0;
    let r = rng.below(100);
    let mut cmd: Vec<Vec<u8>>;
    if r < 25 {
        cmd = vec![b("EVAL"), b(&format!("GETALL:{}", uniq)), b(&nk.to_string())];
        cmd.extend(keys);
        if with_argv {
            cmd.push(b("x"));
        }
    } else if r < 50 {
        let v = format!("e{}-{}", cid, n);
        if with_argv {
            cmd = vec![b("EVAL"), b(&format!("SETALL:{}", uniq)), b(&nk.to_string())];
            cmd.extend(keys);
            cmd.push(b(&v));
        } else {
            cmd = vec![b("EVAL"), b(&format!("SETALL={}:{}", v, uniq)), b(&nk.to_string())];
            cmd.extend(keys);
        }
    } else if r < 60 {
        cmd = vec![b("EVAL"), b(&format!("DELALL:{}", uniq)), b("1"), all[rng.below(3) as usize].clone()];
        if with_argv {
            cmd.push(b("x"));
        }
    } else if r < 75 {
        cmd = vec![b("MGET")];
        cmd.extend(keys);
    } else if r < 90 {
        let v = format!("s{}-{}", cid, n);
        cmd = vec![b("MSET")];
        for k in keys {
            cmd.push(k);
            cmd.push(b(&v));
        }
    } else if r < 95 {
        cmd = vec![b("DEL")];
        cmd.extend(keys);
    } else {
        cmd = vec![b("EXISTS")];
        cmd.extend(keys);
    }
    cmd
}

fn in_range(topo: &Topo, key: &[u8]) -> bool {
    let s = generate_slot(key);
    s >= topo.lo && s <= topo.hi
}

fn build_pool(topo: &Topo, nkeys: usize, nout: usize, sets: bool) -> Pool {
    let mut p = Pool {
        in_str: vec![],
        out_str: vec![],
        in_tags: vec![],
        out_tags: vec![],
        mk_tags: vec![],
    };
    let mut n = 0u64;
    while (p.in_str.len() < nkeys || p.out_str.len() < nout) && n < 10_000_000 {
        let k = format!("k{}", n).into_bytes();
        n += 1;
        if in_range(topo, &k) {
            if p.in_str.len() < nkeys {
                p.in_str.push(k);
            }
        } else if p.out_str.len() < nout {
            p.out_str.push(k);
        }
    }
    if sets {
        let want_in = std::cmp::max(2, nkeys / 10);
        let want_out = std::cmp::max(1, nout / 10);
        let mut n = 0u64;
        while (p.in_tags.len() < want_in || p.out_tags.len() < want_out) && n < 10_000_000 {
            let t = format!("t{}", n);
            n += 1;
            if in_range(topo, t.as_bytes()) {
                if p.in_tags.len() < want_in {
                    p.in_tags.push(t);
                }
            } else if p.out_tags.len() < want_out {
                p.out_tags.push(t);
            }
        }
    }
    p
}

fn set_key(tag: &str, suffix: &str) -> Vec<u8> {
    format!("{{{}}}{}", tag, suffix).into_bytes()
}

impl Pool {
    fn set_keys(&self) -> Vec<Vec<u8>> {
        let mut v = vec![];
        for t in self.in_tags.iter().chain(self.out_tags.iter()) {
            for s in ["d", "a", "b"] {
                v.push(set_key(t, s));
            }
        }
        v
    }
    fn pick_str(&self, rng: &Rng) -> Vec<u8> {
        let use_in = (rng.below(100) < 80 && !self.in_str.is_empty()) || self.out_str.is_empty();
        let l = if use_in { &self.in_str } else { &self.out_str };
        l[rng.below(l.len() as u64) as usize].clone()
    }
    fn pick_tag(&self, rng: &Rng) -> String {
        let use_in = (rng.below(100) < 80 && !self.in_tags.is_empty()) || self.out_tags.is_empty();
        let l = if use_in { &self.in_tags } else { &self.out_tags };
        l[rng.below(l.len() as u64) as usize].clone()
    }
}

fn b(s: &str) -> Vec<u8> {
    s.as_bytes().to_vec()
}

fn gen_op(pool: &Pool, rng: &Rng, sets: bool, cid: u64, n: u64) -> Vec<Vec<u8>> {
    if !pool.mk_tags.is_empty() && rng.below(100) < 25 {
        return gen_mk_op(pool, rng, cid, n);
    }
    let r = rng.below(100);
    if !sets || pool.in_tags.is_empty() {
        // GET 45 / SET 35 / DEL 15 / APPEND 5
        let k = pool.pick_str(rng);
        return if r < 45 {
            vec![b("GET"), k]
        } else if r < 80 {
            vec![b("SET"), k, b(&format!("v{}-{}", cid, n))]
        } else if r < 95 {
            vec![b("DEL"), k]
        } else {
            vec![b("APPEND"), k, b(&format!("+{}-{}", cid, n))]
        };
    }
    // GET 30 / SET 35 / DEL 15 / APPEND 5 / SADD 6 / SMEMBERS 4 / SDIFFSTORE 3 / SINTERSTORE 2
    if r < 30 {
        vec![b("GET"), pool.pick_str(rng)]
    } else if r < 65 {
        vec![b("SET"), pool.pick_str(rng), b(&format!("v{}-{}", cid, n))]
    } else if r < 80 {
        if rng.below(100) < 40 {
            let t = pool.pick_tag(rng);
            let s = ["d", "a", "b"][rng.below(3) as usize];
            vec![b("DEL"), set_key(&t, s)]
        } else {
            vec![b("DEL"), pool.pick_str(rng)]
        }
    } else if r < 85 {
        vec![b("APPEND"), pool.pick_str(rng), b(&format!("+{}-{}", cid, n))]
    } else if r < 91 {
        let t = pool.pick_tag(rng);
        let s = ["d", "a", "b"][rng.below(3) as usize];
        vec![b("SADD"), set_key(&t, s), b(&format!("m{}", rng.below(4)))]
    } else if r < 95 {
        let t = pool.pick_tag(rng);
        let s = ["d", "a", "b"][rng.below(3) as usize];
        vec![b("SMEMBERS"), set_key(&t, s)]
    } else if r < 98 {
        let t = pool.pick_tag(rng);
        vec![b("SDIFFSTORE"), set_key(&t, "d"), set_key(&t, "a"), set_key(&t, "b")]
    } else {
        let t = pool.pick_tag(rng);
        vec![b("SINTERSTORE"), set_key(&t, "d"), set_key(&t, "a"), set_key(&t, "b")]
    }
}

async fn client_task(
    world: Arc<World>,
    sh: Arc<Shared>,
    pool: Arc<Pool>,
    cid: u64,
    ops: u64,
    sets: bool,
    spin: bool,
) {
    let rng = Rng::new(world.seed, 0x3000_0000 + cid);
    let slow_from = ops * 80 / 100;
    let reserve_from = ops - std::cmp::max(3, ops / 20).min(ops);
    for n in 0..ops {
        if !sh.commit_done.load(Ordering::SeqCst) {
            if n >= reserve_from {
                // keep the last operations for the time after the commit
                while !sh.commit_done.load(Ordering::SeqCst) {
                    tokio::time::sleep(Duration::from_millis(1)).await;
                }
            } else if n >= slow_from {
                tokio::time::sleep(Duration::from_millis(2 + rng.below(4))).await;
            }
        }
        precise_sleep(Duration::from_micros(rng.below(301)), spin).await;
        let cmd = gen_op(&pool, &rng, sets, cid, n);
        let first = rng.below(2) as usize;
        client_op(&world, &sh, cid, cmd, first, Duration::from_secs(30)).await;
    }
}

async fn wait_switch_committed(sh: &Arc<Shared>) {
    loop {
        if sh.src_phase.load(Ordering::SeqCst) == 6 && sh.dst_phase.load(Ordering::SeqCst) == 6 {
            return;
        }
        tokio::time::sleep(Duration::from_millis(1)).await;
    }
}

async fn deliver_logged(world: &Arc<World>, topo: &Topo, proxy: usize, stage: u64) -> String {
    if stage == 3 {
        // the commit of this proxy happens between this event and the `commit` event below
        let seq = world.next_seq();
        world.log(seq, json!({"t": "commit0", "seq": seq, "proxy": PROXY_NAME[proxy], "epoch": stage}));
    }
    let reply = deliver(world, topo, proxy, stage).await;
    let seq = world.next_seq();
    let t = if stage == 3 { "commit" } else { "epoch" };
    world.log(
        seq,
        json!({"t": t, "seq": seq, "proxy": PROXY_NAME[proxy], "epoch": stage, "reply": reply}),
    );
    reply
}

fn log_final(world: &Arc<World>) {
    for node in 0..NODE_NAME.len() {
        let keys = world.final_contents(node);
        let seq = world.next_seq();
        world.log(seq, json!({"t": "final", "seq": seq, "node": NODE_NAME[node], "keys": keys}));
    }
}

fn new_runtime() -> tokio::runtime::Runtime {
    tokio::runtime::Builder::new_multi_thread()
        .worker_threads(8)
        .enable_all()
        .build()
        .expect("scenario runtime")
}

fn preload(world: &Arc<World>, cmd: Vec<Vec<u8>>) {
    world.exec_redis(0, "H", "harness", 0, &cmd);
}

fn meta_json(seed: u64, params: &Params, topo: &Topo, inkeys: &[Vec<u8>], outkeys: &[Vec<u8>], setkeys: &[Vec<u8>]) -> Value {
    json!({
        "t": "meta", "seed": seed, "params": params.json(),
        "p1": PROXY_ADDR[0], "r1": NODE_ADDR[0], "p2": PROXY_ADDR[1], "r2": NODE_ADDR[1],
        "range": [topo.lo, topo.hi],
        "inkeys": inkeys.iter().map(|k| hex(k)).collect::<Vec<_>>(),
        "outkeys": outkeys.iter().map(|k| hex(k)).collect::<Vec<_>>(),
        "setkeys": setkeys.iter().map(|k| hex(k)).collect::<Vec<_>>(),
    })
}

// ------------------------------------------------------------------------------------------------
pub fn run_mig(params: &Params) -> String {
    let seed = params.u64("seed", 1);
    let conns = params.u64("conns", 1).max(1).min(8) as usize;
    let active = params.u64("active", 0) != 0;
    let nkeys = params.u64("nkeys", 60) as usize;
    let nout = params.u64("nout", 20) as usize;
    let clients = params.u64("clients", 4);
    let ops = params.u64("ops", 200);
    let lat = params.u64("lat", 2000);
    let sets = params.u64("sets", 0) != 0;
    let out = params.str("out", "");
    let timeout_ms = params.u64("timeout_ms", 60_000);
    let spin = params.u64("spin", 1) != 0;
    if out.is_empty() {
        return "mig setup-error missing-out".to_string();
    }
    if nkeys == 0 {
        return "mig setup-error nkeys=0".to_string();
    }
    let topo = Topo {
        lo: 0,
        hi: 8191,
        scan_count: params.u64("scan_count", 10).max(1),
        scan_interval: params.u64("scan_interval", 500),
        parts: 1,
        ndst: 1,
    };
    let mut pool = build_pool(&topo, nkeys, nout, sets);
    if pool.in_str.len() < nkeys || pool.out_str.len() < nout {
        return "mig setup-error key-pool".to_string();
    }
    if params.u64("mk", 0) != 0 {
        // multi-key commands: string-key groups under one hash tag; the keys also take part in the single-key traffic
        pool.mk_tags = gen_mk_tags(&topo, std::cmp::max(3, nkeys / 8));
        for t in pool.mk_tags.clone() {
            for sfx in ["a", "b", "c"] {
                pool.in_str.push(set_key(&t, sfx));
            }
        }
    }
    let pool = Arc::new(pool);
    let setkeys = pool.set_keys();
    let mut inkeys: Vec<Vec<u8>> = pool.in_str.clone();
    let mut outkeys: Vec<Vec<u8>> = pool.out_str.clone();
    for k in setkeys.iter() {
        if in_range(&topo, k) {
            inkeys.push(k.clone());
        } else {
            outkeys.push(k.clone());
        }
    }
    let meta = meta_json(seed, params, &topo, &inkeys, &outkeys, &setkeys);

    let world = World::new(seed, lat, spin, params.u64("buckets", crate::store::DEFAULT_SCAN_BUCKETS), None);
    let sh = Shared::new();
    let rt = new_runtime();

    let scenario = {
        let world = world.clone();
        let sh = sh.clone();
        let pool = pool.clone();
        async move {
            let rng = Rng::new(seed, 0x4000_0000);
            new_proxy(&world, 0, conns, active);
            new_proxy(&world, 1, conns, active);
            for p in 0..2 {
                let r = deliver_logged(&world, &topo, p, 1).await;
                if r != "S 4f4b" {
                    return Err(format!("epoch1-{}-{}", PROXY_NAME[p], r.replace(' ', "_")));
                }
            }
            // about 70% of the string keys exist before the run
            for k in pool.in_str.iter().chain(pool.out_str.iter()) {
                if rng.below(100) < 70 {
                    let mut v = b"init-".to_vec();
                    v.extend_from_slice(k);
                    preload(&world, vec![b("SET"), k.clone(), v]);
                }
            }
            if sets {
                for t in pool.in_tags.iter().chain(pool.out_tags.iter()) {
                    for s in ["d", "a", "b"] {
                        if rng.below(100) < 70 {
                            let mut cmd = vec![b("SADD"), set_key(t, s)];
                            for m in 0..4 {
                                if rng.below(100) < 50 {
                                    cmd.push(b(&format!("m{}", m)));
                                }
                            }
                            if cmd.len() > 2 {
                                preload(&world, cmd);
                            }
                        }
                    }
                }
            }
            let poll = tokio::spawn(poller(world.clone(), sh.clone()));
            let mut handles = vec![];
            for cid in 0..clients {
                handles.push(tokio::spawn(client_task(
                    world.clone(),
                    sh.clone(),
                    pool.clone(),
                    cid + 1,
                    ops,
                    sets,
                    spin,
                )));
            }
            // coordinator: start the migration after 10-30 ms
            tokio::time::sleep(Duration::from_millis(10 + rng.below(21))).await;
            let first = rng.below(2) as usize;
            sh.epoch2_delivered.store(true, Ordering::SeqCst);
            for p in [first, 1 - first] {
                let r = deliver_logged(&world, &topo, p, 2).await;
                if r != "S 4f4b" {
                    return Err(format!("epoch2-{}-{}", PROXY_NAME[p], r.replace(' ', "_")));
                }
            }
            wait_switch_committed(&sh).await;
            tokio::time::sleep(Duration::from_millis(rng.below(21))).await;
            let first = rng.below(2) as usize;
            for p in [first, 1 - first] {
                deliver_logged(&world, &topo, p, 3).await;
                if p == first {
                    // a seed-chosen gap between the two deliveries (the coordinator syncs proxies independently)
                    tokio::time::sleep(Duration::from_millis(rng.below(6))).await;
                }
            }
            sh.commit_done.store(true, Ordering::SeqCst);
            for h in handles {
                let _ = h.await;
            }
            tokio::time::sleep(Duration::from_millis(50)).await;
            sh.stop_poller.store(true, Ordering::SeqCst);
            let _ = poll.await;
            log_final(&world);
            Ok(())
        }
    };

    let res = rt.block_on(async { tokio::time::timeout(Duration::from_millis(timeout_ms), scenario).await });
    sh.stop_poller.store(true, Ordering::SeqCst);
    if res.is_err() {
        log_final(&world);
    }
    let written = world.write_trace(&out, meta);
    world.clear_handlers();
    rt.shutdown_background();

    let by_phase: Vec<String> = sh
        .inv_by_phase
        .iter()
        .map(|a| a.load(Ordering::Relaxed).to_string())
        .collect();
    let during: u64 = (1..=6).map(|i| sh.inv_by_phase[i].load(Ordering::Relaxed)).sum();
    let overlap = if during > 0 { 1 } else { 0 };
    let tail = format!(
        "committed={} client_ops={} redis_events={} moved_hops={} errors={} trace={} overlap={} inv_by_src_phase={}",
        if sh.commit_done.load(Ordering::SeqCst) { 1 } else { 0 },
        sh.client_ops.load(Ordering::Relaxed),
        world.redis_events.load(Ordering::Relaxed),
        sh.moved_hops.load(Ordering::Relaxed),
        sh.errors.load(Ordering::Relaxed),
        out,
        overlap,
        by_phase.join("/"),
    );
    if let Err(e) = written {
        return format!("mig setup-error trace-write-{}", e.replace(' ', "_"));
    }
    match res {
        Err(_) => format!("mig timeout {}", tail),
        Ok(Err(msg)) => format!("mig setup-error {}", msg),
        Ok(Ok(())) => format!("mig ok {}", tail),
    }
}

// ------------------------------------------------------------------------------------------------
pub fn run_witness(params: &Params) -> String {
    let kind = params.str("kind", "sdiffstore");
    let conns = params.u64("conns", 1).max(1).min(8) as usize;
    let active = params.u64("active", 0) != 0;
    let hold_ms = params.u64("hold_ms", 300);
    let out = params.str("out", "");
    let timeout_ms = params.u64("timeout_ms", 60_000);
    if out.is_empty() {
        return "witness setup-error missing-out".to_string();
    }
    let d: Vec<u8> = b("{w}d");
    let (cmd, read): (Vec<Vec<u8>>, Vec<Vec<u8>>) = match kind.as_str() {
        "sdiffstore" => (
            vec![b("SDIFFSTORE"), d.clone(), b("{w}nokey1"), b("{w}nokey2")],
            vec![b("SMEMBERS"), d.clone()],
        ),
        "sinterstore" => (
            vec![b("SINTERSTORE"), d.clone(), b("{w}nokey1"), b("{w}nokey2")],
            vec![b("SMEMBERS"), d.clone()],
        ),
        "del" => (vec![b("DEL"), d.clone()], vec![b("GET"), d.clone()]),
        _ => return format!("witness setup-error unknown-kind-{}", kind),
    };
    let slot = generate_slot(&d);
    let topo = if slot <= 8191 {
        Topo {
            lo: 0,
            hi: 8191,
            scan_count: params.u64("scan_count", 10).max(1),
            scan_interval: params.u64("scan_interval", 500),
            parts: 1,
            ndst: 1,
        }
    } else {
        Topo {
            lo: 8192,
            hi: SLOT_MAX,
            scan_count: params.u64("scan_count", 10).max(1),
            scan_interval: params.u64("scan_interval", 500),
            parts: 1,
            ndst: 1,
        }
    };
    // ~20 other in-range string keys
    let pool = build_pool(&topo, 20, 0, false);
    let mut inkeys = pool.in_str.clone();
    inkeys.push(d.clone());
    let setkeys = if kind == "del" { vec![] } else { vec![d.clone()] };
    let meta = meta_json(0, params, &topo, &inkeys, &[], &setkeys);

    // the harness releases the hold itself (signal) after at most hold_ms; the hold's own expiry is only a safety net
    let hold = Hold::new(d.clone(), Duration::from_millis(2 * hold_ms + 100));
    let world = World::new(0, 0, false, params.u64("buckets", crate::store::DEFAULT_SCAN_BUCKETS), Some(hold));
    let sh = Shared::new();
    let rt = new_runtime();
    let result: Arc<parking_lot::Mutex<(String, String)>> =
        Arc::new(parking_lot::Mutex::new(("-".to_string(), "-".to_string())));

    let scenario = {
        let world = world.clone();
        let sh = sh.clone();
        let result = result.clone();
        let kind = kind.clone();
        let d = d.clone();
        async move {
            new_proxy(&world, 0, conns, active);
            new_proxy(&world, 1, conns, active);
            for p in 0..2 {
                let r = deliver_logged(&world, &topo, p, 1).await;
                if r != "S 4f4b" {
                    return Err(format!("epoch1-{}-{}", PROXY_NAME[p], r.replace(' ', "_")));
                }
            }
            if kind == "del" {
                preload(&world, vec![b("SET"), d.clone(), b("a")]);
            } else {
                preload(&world, vec![b("SADD"), d.clone(), b("a")]);
            }
            for k in pool.in_str.iter() {
                let mut v = b"init-".to_vec();
                v.extend_from_slice(k);
                preload(&world, vec![b("SET"), k.clone(), v]);
            }
            let poll = tokio::spawn(poller(world.clone(), sh.clone()));
            sh.epoch2_delivered.store(true, Ordering::SeqCst);
            for p in [1usize, 0usize] {
                let r = deliver_logged(&world, &topo, p, 2).await;
                if r != "S 4f4b" {
                    return Err(format!("epoch2-{}-{}", PROXY_NAME[p], r.replace(' ', "_")));
                }
            }
            // wait until the scanner's RESTORE of D towards R2 is in flight (held)
            let hold = world.hold.as_ref().expect("hold");
            let start = std::time::Instant::now();
            while !hold.holding.load(Ordering::SeqCst)
                && hold.armed.load(Ordering::SeqCst)
                && start.elapsed() < Duration::from_secs(20)
            {
                tokio::time::sleep(Duration::from_millis(1)).await;
            }
            // the client command through P2
            let mut task = {
                let world = world.clone();
                let sh = sh.clone();
                let cmd = cmd.clone();
                tokio::spawn(async move { client_op(&world, &sh, 1, cmd, 1, Duration::from_secs(30)).await })
            };
            let reply = match tokio::time::timeout(Duration::from_millis(hold_ms), &mut task).await {
                Ok(r) => r.ok(),
                Err(_) => {
                    // routed through the push path (UMSYNC): it cannot be answered before the scanner's batch ends
                    hold.release();
                    match tokio::time::timeout(Duration::from_secs(20), &mut task).await {
                        Ok(r) => r.ok(),
                        Err(_) => None,
                    }
                }
            };
            {
                let mut g = result.lock();
                g.0 = match reply {
                    Some((r, _)) => resp_to_string(&r),
                    None => "none".to_string(),
                };
            }
            hold.release();
            wait_switch_committed(&sh).await;
            for p in [1usize, 0usize] {
                deliver_logged(&world, &topo, p, 3).await;
            }
            sh.commit_done.store(true, Ordering::SeqCst);
            let (r, _) = client_op(&world, &sh, 2, read.clone(), 1, Duration::from_secs(30)).await;
            {
                let mut g = result.lock();
                g.1 = resp_to_string(&r);
            }
            tokio::time::sleep(Duration::from_millis(50)).await;
            sh.stop_poller.store(true, Ordering::SeqCst);
            let _ = poll.await;
            log_final(&world);
            Ok(())
        }
    };

    let res = rt.block_on(async { tokio::time::timeout(Duration::from_millis(timeout_ms), scenario).await });
    sh.stop_poller.store(true, Ordering::SeqCst);
    if let Some(h) = world.hold.as_ref() {
        h.release();
    }
    if res.is_err() {
        log_final(&world);
    }
    let written = world.write_trace(&out, meta);
    world.clear_handlers();
    rt.shutdown_background();
    if let Err(e) = written {
        return format!("witness setup-error trace-write-{}", e.replace(' ', "_"));
    }
    let held = world
        .hold
        .as_ref()
        .map(|h| h.was_held.load(Ordering::SeqCst))
        .unwrap_or(false);
    let has = |node: usize| -> u8 {
        let s = world.nodes[node].store.lock();
        if s.map.contains_key(&d) {
            1
        } else {
            0
        }
    };
    let (cmd_reply, final_read) = {
        let g = result.lock();
        (g.0.clone(), g.1.clone())
    };
    let body = format!(
        "kind={} cmd_reply={} held={} final_read={} dst_has_key={} src_has_key={} trace={}",
        kind,
        cmd_reply,
        if held { 1 } else { 0 },
        final_read,
        has(1),
        has(0),
        out
    );
    match res {
        Err(_) => format!("witness timeout {}", body),
        Ok(Err(msg)) => format!("witness setup-error {}", msg),
        Ok(Ok(())) => format!("witness {}", body),
    }
}

// ---------- directed scenario: lock-slot collision inside one scan batch while a push-before-delete is in flight ----------
fn colliding_keys(n: usize) -> Vec<Vec<u8>> {
    use std::collections::HashMap;
    use undermoon::common::utils::generate_lock_slot;
    let mut by_slot: HashMap<usize, Vec<Vec<u8>>> = HashMap::new();
    let mut i = 0u64;
    loop {
        let k = format!("c{}", i).into_bytes();
        i += 1;
        if generate_slot(&k) > 8191 {
            continue;
        }
        let e = by_slot.entry(generate_lock_slot(&k)).or_default();
        e.push(k);
        if e.len() >= n {
            let mut v = e.clone();
            v.sort(); // the stand-in's SCAN returns a bucket in byte order
            return v;
        }
    }
}

pub fn run_collide(params: &Params) -> String {
    use crate::net::Gate;
    let kind = params.str("kind", "del");
    let n = params.u64("n", 2).max(2).min(4) as usize;
    let target = (params.u64("target", (n - 1) as u64) as usize).min(n - 1);
    let conns = params.u64("conns", 1).max(1).min(8) as usize;
    let active = params.u64("active", 0) != 0;
    let wait_ms = params.u64("wait_ms", 150);
    let out = params.str("out", "");
    let timeout_ms = params.u64("timeout_ms", 60_000);
    if out.is_empty() {
        return "collide setup-error missing-out".to_string();
    }
    if kind != "del" && kind != "sdiffstore" {
        return format!("collide setup-error unknown-kind-{}", kind);
    }
    let keys = colliding_keys(n);
    let d = keys[target].clone();
    let (cmd, read): (Vec<Vec<u8>>, Vec<Vec<u8>>) = if kind == "del" {
        (vec![b("DEL"), d.clone()], vec![b("GET"), d.clone()])
    } else {
        (
            vec![b("SDIFFSTORE"), d.clone(), b("zz-nokey1"), b("zz-nokey2")],
            vec![b("SMEMBERS"), d.clone()],
        )
    };
    let topo = Topo {
        lo: 0,
        hi: 8191,
        scan_count: params.u64("scan_count", 10).max(1),
        scan_interval: params.u64("scan_interval", 500),
        parts: 1,
        ndst: 1,
    };
    let pool = build_pool(&topo, 8, 0, false);
    let mut inkeys = pool.in_str.clone();
    inkeys.extend(keys.iter().cloned());
    let setkeys = if kind == "del" { vec![] } else { vec![d.clone()] };
    let meta = meta_json(0, params, &topo, &inkeys, &[], &setkeys);

    let world = World::new(0, 0, false, 1, None); // ONE bucket: the whole range is one SCAN batch
    let max = Duration::from_secs(10);
    let g_scan = Gate::new(0, 0, "SCAN", vec![], max);
    let g_pttl = Gate::new(0, 0, "PTTL", d.clone(), max);
    let g_restore = Gate::new(0, 1, "RESTORE", d.clone(), max);
    {
        let mut g = world.gates.lock();
        g.push(g_scan.clone());
        g.push(g_pttl.clone());
        g.push(g_restore.clone());
    }
    let sh = Shared::new();
    let rt = new_runtime();
    let result: Arc<parking_lot::Mutex<(String, String)>> =
        Arc::new(parking_lot::Mutex::new(("-".to_string(), "-".to_string())));

    let scenario = {
        let world = world.clone();
        let sh = sh.clone();
        let result = result.clone();
        let kind = kind.clone();
        let keys = keys.clone();
        let d = d.clone();
        let (g_scan, g_pttl, g_restore) = (g_scan.clone(), g_pttl.clone(), g_restore.clone());
        async move {
            new_proxy(&world, 0, conns, active);
            new_proxy(&world, 1, conns, active);
            for p in 0..2 {
                let r = deliver_logged(&world, &topo, p, 1).await;
                if r != "S 4f4b" {
                    return Err(format!("epoch1-{}-{}", PROXY_NAME[p], r.replace(' ', "_")));
                }
            }
            for k in keys.iter() {
                if kind != "del" && *k == d {
                    preload(&world, vec![b("SADD"), k.clone(), b("a")]);
                } else {
                    let mut v = b"init-".to_vec();
                    v.extend_from_slice(k);
                    preload(&world, vec![b("SET"), k.clone(), v]);
                }
            }
            for k in pool.in_str.iter() {
                let mut v = b"init-".to_vec();
                v.extend_from_slice(k);
                preload(&world, vec![b("SET"), k.clone(), v]);
            }
            let poll = tokio::spawn(poller(world.clone(), sh.clone()));
            sh.epoch2_delivered.store(true, Ordering::SeqCst);
            for p in [1usize, 0usize] {
                let r = deliver_logged(&world, &topo, p, 2).await;
                if r != "S 4f4b" {
                    return Err(format!("epoch2-{}-{}", PROXY_NAME[p], r.replace(' ', "_")));
                }
            }
            let wait_for = |g: Arc<Gate>, ms: u64| async move {
                let start = std::time::Instant::now();
                while !g.holding.load(Ordering::SeqCst) && start.elapsed() < Duration::from_millis(ms) {
                    tokio::time::sleep(Duration::from_millis(1)).await;
                }
                g.holding.load(Ordering::SeqCst)
            };
            // 1. the scanner is about to read its first batch (source in Scanning, destination serving)
            wait_for(g_scan.clone(), 20_000).await;
            // 2. the deleting command through the destination proxy; its UMSYNC takes the slot lock on the source proxy
            let mut task = {
                let world = world.clone();
                let sh = sh.clone();
                let cmd = cmd.clone();
                tokio::spawn(async move { client_op(&world, &sh, 1, cmd, 1, Duration::from_secs(30)).await })
            };
            wait_for(g_pttl.clone(), 3_000).await;
            // 3. the scan batch runs while the push path owns the lock slot
            g_scan.release();
            let scanner_touched = wait_for(g_restore.clone(), wait_ms).await;
            if !scanner_touched {
                g_restore.disarm();
            }
            // 4. the push path finishes, the command is applied on the destination and acknowledged
            g_pttl.release();
            let reply = match tokio::time::timeout(Duration::from_secs(20), &mut task).await {
                Ok(r) => r.ok(),
                Err(_) => None,
            };
            {
                let mut g = result.lock();
                g.0 = match reply {
                    Some((r, _)) => resp_to_string(&r),
                    None => "none".to_string(),
                };
            }
            // 5. whatever the scanner still holds is let go
            g_restore.release();
            wait_switch_committed(&sh).await;
            for p in [1usize, 0usize] {
                deliver_logged(&world, &topo, p, 3).await;
            }
            sh.commit_done.store(true, Ordering::SeqCst);
            let (r, _) = client_op(&world, &sh, 2, read.clone(), 1, Duration::from_secs(30)).await;
            {
                let mut g = result.lock();
                g.1 = resp_to_string(&r);
            }
            for k in keys.iter() {
                if *k != d {
                    client_op(&world, &sh, 2, vec![b("GET"), k.clone()], 1, Duration::from_secs(30)).await;
                }
            }
            tokio::time::sleep(Duration::from_millis(50)).await;
            sh.stop_poller.store(true, Ordering::SeqCst);
            let _ = poll.await;
            log_final(&world);
            Ok(())
        }
    };

    let res = rt.block_on(async { tokio::time::timeout(Duration::from_millis(timeout_ms), scenario).await });
    sh.stop_poller.store(true, Ordering::SeqCst);
    for g in [&g_scan, &g_pttl, &g_restore] {
        g.disarm();
        g.release();
    }
    if res.is_err() {
        log_final(&world);
    }
    let written = world.write_trace(&out, meta);
    world.clear_handlers();
    rt.shutdown_background();
    if let Err(e) = written {
        return format!("collide setup-error trace-write-{}", e.replace(' ', "_"));
    }
    let has = |node: usize| -> u8 {
        let s = world.nodes[node].store.lock();
        if s.map.contains_key(&d) {
            1
        } else {
            0
        }
    };
    let (cmd_reply, final_read) = {
        let g = result.lock();
        (g.0.clone(), g.1.clone())
    };
    let f = |g: &Arc<Gate>| if g.was_held.load(Ordering::SeqCst) { '1' } else { '0' };
    let body = format!(
        "kind={} n={} target={} cmd_reply={} gates={}{}{} final_read={} dst_has_key={} src_has_key={} trace={}",
        kind,
        n,
        target,
        cmd_reply,
        f(&g_scan),
        f(&g_pttl),
        f(&g_restore),
        final_read,
        has(1),
        has(0),
        out
    );
    match res {
        Err(_) => format!("collide timeout {}", body),
        Ok(Err(msg)) => format!("collide setup-error {}", msg),
        Ok(Ok(())) => format!("collide {}", body),
    }
}

// ---------- several migrating tasks on the source proxy at once ----------
async fn all_committed(world: &Arc<World>, topo: &Topo) -> bool {
    for p in 0..topo.nproxies() {
        let st = crate::net::mig_states(world, p).await;
        let expect = if p == 0 {
            topo.nparts()
        } else {
            (0..topo.nparts()).filter(|j| topo.part_dst(*j) == p).count()
        };
        if st.len() < expect || st.iter().any(|s| *s != "SwitchCommitted") {
            return false;
        }
    }
    true
}

async fn client_task_multi(world: Arc<World>, sh: Arc<Shared>, pool: Arc<Pool>, cid: u64, ops: u64, spin: bool, np: u64) {
    let rng = Rng::new(world.seed, 0x3000_0000 + cid);
    let slow_from = ops * 80 / 100;
    let reserve_from = ops - std::cmp::max(3, ops / 20).min(ops);
    for n in 0..ops {
        if !sh.commit_done.load(Ordering::SeqCst) {
            if n >= reserve_from {
                while !sh.commit_done.load(Ordering::SeqCst) {
                    tokio::time::sleep(Duration::from_millis(1)).await;
                }
            } else if n >= slow_from {
                tokio::time::sleep(Duration::from_millis(2 + rng.below(4))).await;
            }
        }
        precise_sleep(Duration::from_micros(rng.below(301)), spin).await;
        let cmd = gen_op(&pool, &rng, false, cid, n);
        let first = rng.below(np) as usize;
        client_op(&world, &sh, cid, cmd, first, Duration::from_secs(30)).await;
    }
}

pub fn run_multi(params: &Params) -> String {
    use crate::net::Gate;
    let mode = params.str("mode", "directed");
    let kind = params.str("kind", "del");
    let seed = params.u64("seed", 1);
    let parts = params.u64("parts", 2).max(1).min(4) as usize;
    let ndst = params.u64("ndst", 2).max(1).min(2) as usize;
    let conns = params.u64("conns", 1).max(1).min(8) as usize;
    let active = params.u64("active", 0) != 0;
    let directed = mode == "directed";
    let nkeys = params.u64("nkeys", if directed { 12 } else { 60 }) as usize;
    let nout = params.u64("nout", if directed { 0 } else { 16 }) as usize;
    let clients = params.u64("clients", 6);
    let ops = params.u64("ops", 250);
    let lat = if directed { 0 } else { params.u64("lat", 2000) };
    let spin = params.u64("spin", 1) != 0;
    let out = params.str("out", "");
    let timeout_ms = params.u64("timeout_ms", 60_000);
    if out.is_empty() {
        return "multi setup-error missing-out".to_string();
    }
    let topo = Topo {
        lo: 0,
        hi: 8191,
        scan_count: params.u64("scan_count", 10).max(1),
        scan_interval: params.u64("scan_interval", 500),
        parts,
        ndst,
    };
    let np = topo.nproxies();
    let pool = Arc::new(build_pool(&topo, nkeys, nout, false));
    let inkeys: Vec<Vec<u8>> = pool.in_str.clone();
    let outkeys: Vec<Vec<u8>> = pool.out_str.clone();
    let part_of = |k: &Vec<u8>| topo.part_of_slot(generate_slot(k)).unwrap_or(0);
    // directed: one victim key per part (the first pool key of that part)
    let mut victims: Vec<Vec<u8>> = vec![];
    for j in 0..parts {
        match inkeys.iter().find(|k| part_of(k) == j) {
            Some(k) => victims.push(k.clone()),
            None => return "multi setup-error no-key-for-part".to_string(),
        }
    }
    let setkeys: Vec<Vec<u8>> = if directed && kind != "del" { victims.clone() } else { vec![] };
    let mut meta = meta_json(seed, params, &topo, &inkeys, &outkeys, &setkeys);
    meta["parts"] = json!((0..parts)
        .map(|j| {
            let (a, b) = topo.part_range(j);
            json!({"lo": a, "hi": b, "dst_proxy": PROXY_NAME[topo.part_dst(j)], "dst_node": NODE_NAME[topo.part_dst(j)]})
        })
        .collect::<Vec<_>>());
    meta["inkeys_part"] = json!(inkeys.iter().map(|k| part_of(k)).collect::<Vec<_>>());

    let world = World::new(seed, lat, spin, params.u64("buckets", crate::store::DEFAULT_SCAN_BUCKETS), None);
    let mut gates = vec![];
    if directed {
        let mut g = world.gates.lock();
        for _ in 0..parts {
            let gate = Gate::new(0, 0, "SCAN", vec![], Duration::from_secs(10));
            g.push(gate.clone());
            gates.push(gate);
        }
    }
    let sh = Shared::new();
    let rt = new_runtime();
    let result: Arc<parking_lot::Mutex<(Vec<String>, Vec<String>, Vec<String>)>> =
        Arc::new(parking_lot::Mutex::new((vec![], vec![], vec![])));

    let scenario = {
        let world = world.clone();
        let sh = sh.clone();
        let pool = pool.clone();
        let result = result.clone();
        let victims = victims.clone();
        let gates = gates.clone();
        let kind = kind.clone();
        async move {
            let rng = Rng::new(seed, 0x4000_0000);
            for p in 0..np {
                new_proxy(&world, p, conns, active);
            }
            for p in 0..np {
                let r = deliver_logged(&world, &topo, p, 1).await;
                if r != "S 4f4b" {
                    return Err(format!("epoch1-{}-{}", PROXY_NAME[p], r.replace(' ', "_")));
                }
            }
            for k in pool.in_str.iter().chain(pool.out_str.iter()) {
                let is_victim = victims.contains(k);
                if directed && is_victim && kind != "del" {
                    preload(&world, vec![b("SADD"), k.clone(), b("a")]);
                } else if directed || rng.below(100) < 70 {
                    let mut v = b"init-".to_vec();
                    v.extend_from_slice(k);
                    preload(&world, vec![b("SET"), k.clone(), v]);
                }
            }
            let poll = tokio::spawn(poller(world.clone(), sh.clone()));
            let mut handles = vec![];
            if !directed {
                for cid in 0..clients {
                    handles.push(tokio::spawn(client_task_multi(
                        world.clone(),
                        sh.clone(),
                        pool.clone(),
                        cid + 1,
                        ops,
                        spin,
                        np as u64,
                    )));
                }
                tokio::time::sleep(Duration::from_millis(10 + rng.below(21))).await;
            }
            sh.epoch2_delivered.store(true, Ordering::SeqCst);
            // destinations first or source first, seed-chosen
            let mut order: Vec<usize> = (0..np).collect();
            if rng.below(2) == 0 {
                order.reverse();
            }
            for p in order.iter() {
                let r = deliver_logged(&world, &topo, *p, 2).await;
                if r != "S 4f4b" {
                    return Err(format!("epoch2-{}-{}", PROXY_NAME[*p], r.replace(' ', "_")));
                }
            }
            if directed {
                // every task's scanner stands at its first SCAN: all keys are still on the source
                let start = std::time::Instant::now();
                while gates.iter().any(|g| !g.holding.load(Ordering::SeqCst)) && start.elapsed() < Duration::from_secs(20) {
                    tokio::time::sleep(Duration::from_millis(1)).await;
                }
                for (j, k) in victims.iter().enumerate() {
                    let via = topo.part_dst(j);
                    let (cmd, read) = if kind == "del" {
                        (vec![b("DEL"), k.clone()], vec![b("GET"), k.clone()])
                    } else {
                        (
                            vec![b("SDIFFSTORE"), k.clone(), b("zz-nokey1"), b("zz-nokey2")],
                            vec![b("SMEMBERS"), k.clone()],
                        )
                    };
                    let (r, _) = client_op(&world, &sh, 1, cmd, via, Duration::from_secs(10)).await;
                    result.lock().0.push(resp_to_string(&r));
                    let (r, _) = client_op(&world, &sh, 1, read, via, Duration::from_secs(10)).await;
                    result.lock().1.push(resp_to_string(&r));
                }
                for g in gates.iter() {
                    g.release();
                }
            }
            let start = std::time::Instant::now();
            while !all_committed(&world, &topo).await {
                if start.elapsed() > Duration::from_secs(40) {
                    return Err("not-committed".to_string());
                }
                tokio::time::sleep(Duration::from_millis(2)).await;
            }
            tokio::time::sleep(Duration::from_millis(rng.below(21))).await;
            let mut order: Vec<usize> = (0..np).collect();
            if rng.below(2) == 0 {
                order.reverse();
            }
            for p in order.iter() {
                deliver_logged(&world, &topo, *p, 3).await;
                tokio::time::sleep(Duration::from_millis(rng.below(4))).await;
            }
            sh.commit_done.store(true, Ordering::SeqCst);
            for h in handles {
                let _ = h.await;
            }
            if directed {
                for (j, k) in victims.iter().enumerate() {
                    let read = if kind == "del" { vec![b("GET"), k.clone()] } else { vec![b("SMEMBERS"), k.clone()] };
                    let (r, _) = client_op(&world, &sh, 2, read, topo.part_dst(j), Duration::from_secs(10)).await;
                    result.lock().2.push(resp_to_string(&r));
                }
            }
            tokio::time::sleep(Duration::from_millis(50)).await;
            sh.stop_poller.store(true, Ordering::SeqCst);
            let _ = poll.await;
            log_final(&world);
            Ok(())
        }
    };

    let res = rt.block_on(async { tokio::time::timeout(Duration::from_millis(timeout_ms), scenario).await });
    sh.stop_poller.store(true, Ordering::SeqCst);
    for g in gates.iter() {
        g.disarm();
        g.release();
    }
    if !matches!(res, Ok(Ok(()))) {
        log_final(&world);
    }
    let written = world.write_trace(&out, meta);
    world.clear_handlers();
    rt.shutdown_background();
    if let Err(e) = written {
        return format!("multi setup-error trace-write-{}", e.replace(' ', "_"));
    }
    let join = |v: &Vec<String>| if v.is_empty() { "-".to_string() } else { v.iter().map(|s| s.replace(' ', "_")).collect::<Vec<_>>().join(";") };
    let g = result.lock();
    let tail = format!(
        "mode={} parts={} ndst={} committed={} client_ops={} errors={} del_replies={} reads={} final_reads={} trace={}",
        mode,
        parts,
        ndst,
        if sh.commit_done.load(Ordering::SeqCst) { 1 } else { 0 },
        sh.client_ops.load(Ordering::Relaxed),
        sh.errors.load(Ordering::Relaxed),
        join(&g.0),
        join(&g.1),
        join(&g.2),
        out
    );
    match res {
        Err(_) => format!("multi timeout {}", tail),
        Ok(Err(msg)) => format!("multi setup-error {} {}", msg, tail),
        Ok(Ok(())) => format!("multi ok {}", tail),
    }
}

// ---------- directed: multi-key commands through the importing proxy while every key is still on the source ----------
pub fn run_mkey(params: &Params) -> String {
    use crate::net::Gate;
    let conns = params.u64("conns", 1).max(1).min(8) as usize;
    let active = params.u64("active", 0) != 0;
    let absent = params.u64("absent", 0) != 0;
    let out = params.str("out", "");
    let timeout_ms = params.u64("timeout_ms", 60_000);
    if out.is_empty() {
        return "mkey setup-error missing-out".to_string();
    }
    let topo = Topo {
        lo: 0,
        hi: 8191,
        scan_count: params.u64("scan_count", 10).max(1),
        scan_interval: params.u64("scan_interval", 500),
        parts: 1,
        ndst: 1,
    };
    // (verb/command, number of keys, trailing ARGV)
    let specs: Vec<(&str, usize, bool)> = vec![
        ("DELALL", 1, false),
        ("DELALL", 1, true),
        ("DELALL", 2, false),
        ("DELALL", 2, true),
        ("DELALL", 3, false),
        ("DELALL", 3, true),
        ("GETALL", 2, false),
        ("GETALL", 2, true),
        ("GETALL", 3, false),
        ("GETALL", 3, true),
        ("SETALL", 2, false),
        ("SETALL", 2, true),
        ("SETALL", 3, false),
        ("SETALL", 3, true),
        ("DEL", 3, false),
        ("DEL", 2, false),
        ("EXISTS", 2, false),
        ("MGET", 3, false),
        ("MSET", 2, false),
    ];
    let tags = gen_mk_tags(&topo, specs.len());
    let sfx = ["a", "b", "c"];
    let mut inkeys: Vec<Vec<u8>> = vec![];
    for t in tags.iter() {
        for s in sfx.iter() {
            inkeys.push(set_key(t, s));
        }
    }
    let pool = build_pool(&topo, 6, 0, false);
    inkeys.extend(pool.in_str.iter().cloned());
    let meta = meta_json(0, params, &topo, &inkeys, &[], &[]);
    let world = World::new(0, 0, false, params.u64("buckets", crate::store::DEFAULT_SCAN_BUCKETS), None);
    let gate = Gate::new(0, 0, "SCAN", vec![], Duration::from_secs(15));
    world.gates.lock().push(gate.clone());
    let sh = Shared::new();
    let rt = new_runtime();
    let result: Arc<parking_lot::Mutex<(Vec<String>, u64)>> = Arc::new(parking_lot::Mutex::new((vec![], 0)));

    let scenario = {
        let world = world.clone();
        let sh = sh.clone();
        let result = result.clone();
        let tags = tags.clone();
        let specs = specs.clone();
        let inkeys = inkeys.clone();
        let gate = gate.clone();
        async move {
            new_proxy(&world, 0, conns, active);
            new_proxy(&world, 1, conns, active);
            for p in 0..2 {
                let r = deliver_logged(&world, &topo, p, 1).await;
                if r != "S 4f4b" {
                    return Err(format!("epoch1-{}-{}", PROXY_NAME[p], r.replace(' ', "_")));
                }
            }
            for (i, k) in inkeys.iter().enumerate() {
                // with absent=1 every group's key `b` does not exist
                if absent && k.ends_with(b"}b") && i % 2 == 1 {
                    continue;
                }
                let mut v = b"init-".to_vec();
                v.extend_from_slice(k);
                preload(&world, vec![b("SET"), k.clone(), v]);
            }
            let poll = tokio::spawn(poller(world.clone(), sh.clone()));
            sh.epoch2_delivered.store(true, Ordering::SeqCst);
            for p in [1usize, 0usize] {
                let r = deliver_logged(&world, &topo, p, 2).await;
                if r != "S 4f4b" {
                    return Err(format!("epoch2-{}-{}", PROXY_NAME[p], r.replace(' ', "_")));
                }
            }
            let start = std::time::Instant::now();
            while !gate.holding.load(Ordering::SeqCst) && start.elapsed() < Duration::from_secs(20) {
                tokio::time::sleep(Duration::from_millis(1)).await;
            }
            // every multi-key command through the IMPORTING proxy, then its keys are read back
            for (i, (verb, nk, argv)) in specs.iter().enumerate() {
                let t = &tags[i];
                let keys: Vec<Vec<u8>> = sfx[..*nk].iter().map(|s| set_key(t, s)).collect();
                let uniq = format!("d{}", i);
                let val = format!("w{}", i);
                let mut cmd: Vec<Vec<u8>> = match *verb {
                    "DELALL" | "GETALL" => {
                        let mut c = vec![b("EVAL"), b(&format!("{}:{}", verb, uniq)), b(&nk.to_string())];
                        c.extend(keys.clone());
                        if *argv {
                            c.push(b("x"));
                        }
                        c
                    }
                    "SETALL" => {
                        if *argv {
                            let mut c = vec![b("EVAL"), b(&format!("SETALL:{}", uniq)), b(&nk.to_string())];
                            c.extend(keys.clone());
                            c.push(b(&val));
                            c
                        } else {
                            let mut c = vec![b("EVAL"), b(&format!("SETALL={}:{}", val, uniq)), b(&nk.to_string())];
                            c.extend(keys.clone());
                            c
                        }
                    }
                    "MSET" => {
                        let mut c = vec![b("MSET")];
                        for k in keys.iter() {
                            c.push(k.clone());
                            c.push(b(&val));
                        }
                        c
                    }
                    other => {
                        let mut c = vec![b(other)];
                        c.extend(keys.clone());
                        c
                    }
                };
                if cmd.is_empty() {
                    cmd = vec![b("PING")];
                }
                let (r, _) = client_op(&world, &sh, 1, cmd, 1, Duration::from_secs(10)).await;
                result.lock().0.push(resp_to_string(&r));
                for s in sfx.iter() {
                    let k = set_key(t, s);
                    let (r, _) = client_op(&world, &sh, 1, vec![b("GET"), k.clone()], 1, Duration::from_secs(10)).await;
                    let deleted = (*verb == "DELALL" || *verb == "DEL") && keys.contains(&k);
                    if deleted && resp_to_string(&r) != "BN" {
                        result.lock().1 += 1;
                    }
                }
            }
            gate.release();
            wait_switch_committed(&sh).await;
            for k in inkeys.iter() {
                client_op(&world, &sh, 2, vec![b("GET"), k.clone()], 1, Duration::from_secs(10)).await;
            }
            for p in [1usize, 0usize] {
                deliver_logged(&world, &topo, p, 3).await;
            }
            sh.commit_done.store(true, Ordering::SeqCst);
            for k in inkeys.iter() {
                client_op(&world, &sh, 3, vec![b("GET"), k.clone()], 1, Duration::from_secs(10)).await;
            }
            tokio::time::sleep(Duration::from_millis(50)).await;
            sh.stop_poller.store(true, Ordering::SeqCst);
            let _ = poll.await;
            log_final(&world);
            Ok(())
        }
    };
    let res = rt.block_on(async { tokio::time::timeout(Duration::from_millis(timeout_ms), scenario).await });
    sh.stop_poller.store(true, Ordering::SeqCst);
    gate.disarm();
    gate.release();
    if !matches!(res, Ok(Ok(()))) {
        log_final(&world);
    }
    let written = world.write_trace(&out, meta);
    world.clear_handlers();
    rt.shutdown_background();
    if let Err(e) = written {
        return format!("mkey setup-error trace-write-{}", e.replace(' ', "_"));
    }
    let g = result.lock();
    let tail = format!(
        "cases={} gate={} replies={} bad_reads={} trace={}",
        specs.len(),
        if gate.was_held.load(Ordering::SeqCst) { 1 } else { 0 },
        g.0.iter().map(|s| s.replace(' ', "_")).collect::<Vec<_>>().join(";"),
        g.1,
        out
    );
    match res {
        Err(_) => format!("mkey timeout {}", tail),
        Ok(Err(msg)) => format!("mkey setup-error {} {}", msg, tail),
        Ok(Ok(())) => format!("mkey ok {}", tail),
    }
}

// ---------- directed witness: multi-key EVAL across the PreCheck -> PreSwitch boundary (known finding with active redirection) ----------
pub fn run_race(params: &Params) -> String {
    use crate::net::Gate;
    let kind = params.str("kind", "getall");
    let conns = params.u64("conns", 1).max(1).min(8) as usize;
    let active = params.u64("active", 1) != 0;
    let out = params.str("out", "");
    let timeout_ms = params.u64("timeout_ms", 60_000);
    if out.is_empty() {
        return "race setup-error missing-out".to_string();
    }
    let topo = Topo {
        lo: 0,
        hi: 8191,
        scan_count: params.u64("scan_count", 10).max(1),
        scan_interval: params.u64("scan_interval", 500),
        parts: 1,
        ndst: 1,
    };
    let tag = gen_mk_tags(&topo, 1).remove(0);
    let ka = set_key(&tag, "a");
    let kb = set_key(&tag, "b");
    let pool = build_pool(&topo, 6, 0, false);
    let mut inkeys = vec![ka.clone(), kb.clone()];
    inkeys.extend(pool.in_str.iter().cloned());
    let meta = meta_json(0, params, &topo, &inkeys, &[], &[]);
    let world = World::new(0, 0, false, params.u64("buckets", crate::store::DEFAULT_SCAN_BUCKETS), None);
    let max = Duration::from_secs(15);
    let g_pre = Gate::new(0, 10 + 1, "PRECHECK", vec![], max); // request P1 -> P2
    let g_reply = Gate::new(1, 20 + 0, "EXISTS", kb.clone(), max); // reply of P2 -> P1 (UMFORWARD .. EXISTS kb)
    let g_scan = Gate::new(0, 0, "SCAN", vec![], max);
    {
        let mut g = world.gates.lock();
        g.push(g_pre.clone());
        g.push(g_reply.clone());
        g.push(g_scan.clone());
    }
    let sh = Shared::new();
    let rt = new_runtime();
    let result: Arc<parking_lot::Mutex<Vec<String>>> = Arc::new(parking_lot::Mutex::new(vec!["-".into(), "-".into(), "-".into()]));

    let scenario = {
        let world = world.clone();
        let sh = sh.clone();
        let result = result.clone();
        let inkeys = inkeys.clone();
        let (g_pre, g_reply, g_scan) = (g_pre.clone(), g_reply.clone(), g_scan.clone());
        let (ka, kb) = (ka.clone(), kb.clone());
        let kind = kind.clone();
        async move {
            new_proxy(&world, 0, conns, active);
            new_proxy(&world, 1, conns, active);
            for p in 0..2 {
                let r = deliver_logged(&world, &topo, p, 1).await;
                if r != "S 4f4b" {
                    return Err(format!("epoch1-{}-{}", PROXY_NAME[p], r.replace(' ', "_")));
                }
            }
            for k in inkeys.iter() {
                let mut v = b"init-".to_vec();
                v.extend_from_slice(k);
                preload(&world, vec![b("SET"), k.clone(), v]);
            }
            let poll = tokio::spawn(poller(world.clone(), sh.clone()));
            sh.epoch2_delivered.store(true, Ordering::SeqCst);
            for p in [1usize, 0usize] {
                let r = deliver_logged(&world, &topo, p, 2).await;
                if r != "S 4f4b" {
                    return Err(format!("epoch2-{}-{}", PROXY_NAME[p], r.replace(' ', "_")));
                }
            }
            let wait_for = |g: Arc<Gate>, ms: u64| async move {
                let start = std::time::Instant::now();
                while !g.holding.load(Ordering::SeqCst) && start.elapsed() < Duration::from_millis(ms) {
                    tokio::time::sleep(Duration::from_millis(1)).await;
                }
                g.holding.load(Ordering::SeqCst)
            };
            // both sides in PreCheck
            wait_for(g_pre.clone(), 10_000).await;
            let verb = if kind == "delall" { "DELALL" } else { "GETALL" };
            let cmd = vec![b("EVAL"), b(&format!("{}:race", verb)), b("2"), ka.clone(), kb.clone()];
            let mut task = {
                let world = world.clone();
                let sh = sh.clone();
                tokio::spawn(async move { client_op(&world, &sh, 1, cmd, 1, Duration::from_secs(30)).await })
            };
            // with active redirection the EXISTS of the last key has been answered by the SOURCE; its reply is on the way back
            let redirected = wait_for(g_reply.clone(), 2_000).await;
            // the handshake runs: PreBlocking, PreSwitch, PRESWITCH, Scanning (scanner held: every key is still on the source)
            g_pre.release();
            if redirected {
                wait_for(g_scan.clone(), 10_000).await;
            }
            g_reply.release();
            let reply = match tokio::time::timeout(Duration::from_secs(20), &mut task).await {
                Ok(r) => r.ok(),
                Err(_) => None,
            };
            result.lock()[0] = match reply {
                Some((r, _)) => resp_to_string(&r),
                None => "none".to_string(),
            };
            if !redirected {
                wait_for(g_scan.clone(), 10_000).await;
            }
            let (r, _) = client_op(&world, &sh, 1, vec![b("GET"), kb.clone()], 1, Duration::from_secs(10)).await;
            result.lock()[1] = resp_to_string(&r);
            g_scan.release();
            wait_switch_committed(&sh).await;
            for p in [1usize, 0usize] {
                deliver_logged(&world, &topo, p, 3).await;
            }
            sh.commit_done.store(true, Ordering::SeqCst);
            for k in [ka.clone(), kb.clone()] {
                let (r, _) = client_op(&world, &sh, 2, vec![b("GET"), k.clone()], 1, Duration::from_secs(10)).await;
                if k == kb {
                    result.lock()[2] = resp_to_string(&r);
                }
            }
            tokio::time::sleep(Duration::from_millis(50)).await;
            sh.stop_poller.store(true, Ordering::SeqCst);
            let _ = poll.await;
            log_final(&world);
            Ok(())
        }
    };
    let res = rt.block_on(async { tokio::time::timeout(Duration::from_millis(timeout_ms), scenario).await });
    sh.stop_poller.store(true, Ordering::SeqCst);
    for g in [&g_pre, &g_reply, &g_scan] {
        g.disarm();
        g.release();
    }
    if !matches!(res, Ok(Ok(()))) {
        log_final(&world);
    }
    let written = world.write_trace(&out, meta);
    world.clear_handlers();
    rt.shutdown_background();
    if let Err(e) = written {
        return format!("race setup-error trace-write-{}", e.replace(' ', "_"));
    }
    let f = |g: &Arc<Gate>| if g.was_held.load(Ordering::SeqCst) { '1' } else { '0' };
    let r = result.lock();
    let tail = format!(
        "kind={} active={} gates={}{}{} eval_reply={} read_last={} final_last={} trace={}",
        kind,
        if active { 1 } else { 0 },
        f(&g_pre),
        f(&g_reply),
        f(&g_scan),
        r[0].replace(' ', "_"),
        r[1].replace(' ', "_"),
        r[2].replace(' ', "_"),
        out
    );
    match res {
        Err(_) => format!("race timeout {}", tail),
        Ok(Err(msg)) => format!("race setup-error {} {}", msg, tail),
        Ok(Ok(())) => format!("race ok {}", tail),
    }
}
