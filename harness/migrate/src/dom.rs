// Group `migrate`: live slot migration of the REAL proxies under concurrent client traffic.
//
//   classify <NAME>
//       -> "classify <NAME> <0|1> <DataCmdType>"   (Command::new([NAME,k,x]).get_data_cmd_type, requires_blocking_migration)
//   mig seed= conns= active= nkeys= nout= clients= ops= lat= sets= out=
//       [timeout_ms=60000] [scan_count=10] [scan_interval=500] [buckets=256] [spin=1]
//       -> "mig ok|timeout committed= client_ops= redis_events= moved_hops= errors= trace= overlap= inv_by_src_phase=a/b/c/d/e/f/g/h"
//          (inv_by_src_phase: client ops invoked while the source task was before-epoch2 / PreCheck / PreBlocking /
//           PreSwitch / Scanning / FinalSwitch / SwitchCommitted / after-commit) or "mig setup-error <msg>"
//   witness kind=sdiffstore|sinterstore|del conns= active= hold_ms= out= [timeout_ms=] [scan_count=] [buckets=]
//       -> "witness kind= cmd_reply=<resp> held= final_read=<resp> dst_has_key= src_has_key= trace="
//
//   collide kind=del|sdiffstore n=2|3 target=<0..n-1> conns= active= out= [wait_ms=150] [timeout_ms=]
//       directed scenario: n range keys with the SAME migration lock slot in ONE scan batch (buckets=1); the scanner's first
//       SCAN is held until a deleting command for colliding key #target (batch order) sent through P2 has its UMSYNC
//       in flight on P1 (its PTTL on R1 is held: the push path owns the slot lock); then the scan batch runs.
//       -> "collide kind= n= target= cmd_reply= gates=<scan><pttl><restore> final_read= dst_has_key= src_has_key= trace="
//
//   multi mode=traffic|directed parts=2|3 ndst=1|2 conns= active= out= [seed= nkeys= clients= ops= lat= kind=del|sdiffstore]
//       the source proxy P1 runs `parts` migrating tasks AT ONCE (consecutive sub-ranges of 0-8191), part j to proxy P2 (ndst=1) or
//       alternately to P2 / P3 (ndst=2). traffic: random clients on every range through every proxy, like `mig`.
//       directed: every task's scanner is held at its first SCAN (keys still on the source); for each part a deleting command for a
//       key of that part goes through its importing proxy, then the key is read back; then the scanners run, commit, final reads.
//       -> "multi ok|timeout mode= parts= ndst= committed= client_ops= errors= del_replies=<r;..> reads=<r;..> final_reads=<r;..> trace="
//
//   mkey conns= active= out= [absent=0|1]
//       directed: multi-key commands through the IMPORTING proxy while the scanner is held at its first SCAN (every key still on
//       the source): EVAL DELALL/GETALL/SETALL with 1, 2, 3 keys WITH and WITHOUT trailing ARGV, multi-key DEL, EXISTS, MGET, MSET,
//       each on its own hash-tag group; every key of the group is read back right after the command, after the scanner ran and
//       after the commit.  `mig ... mk=1` adds multi-key commands to the random traffic.
//       -> "mkey ok cases=<n> replies=<r;..> bad_reads=<n> trace="   (bad_reads: read-backs that contradict the command, informational)
//
//   race kind=getall|delall conns= active=<0|1> out=
//       directed witness of the known finding `multikey-eval-active-redirect-precheck-race`: the handshake is held at PRECHECK (both
//       sides in PreCheck); a 2-key EVAL goes through P2: ensure_keys_imported's EXISTS of the LAST key is redirected to P1 (with
//       active=1: UMFORWARD, answered by the source Redis) and its reply is held on the way back; the handshake is released and runs to
//       Scanning (scanner held at its first SCAN); the reply is released: the EVAL itself now meets the importing task in PreSwitch.
//       -> "race ok kind= active= gates=<precheck><reply><scan> eval_reply= read_last= final_last= trace="
//
// Topology (nothing real is opened): P1 127.0.1.1:7001 / R1 127.0.1.1:6001 (source), P2 127.0.2.1:7002 / R2 127.0.2.1:6002
// (destination); see net.rs for the fake network, store.rs for the storing Redis stand-in, scen.rs for the scenarios and
// the trace format (JSON lines: meta, epoch, inv, hop, rep, redis, p2p, phase, commit, hold, final; every event has a
// global `seq` and a wall-clock `us` that is informational only).
use crate::scen::{run_collide, run_mig, run_mkey, run_multi, run_race, run_witness, Params};
use crate::util::bulk_cmd;
use undermoon::protocol::RespPacket;
use undermoon::proxy::command::{requires_blocking_migration, Command};

pub fn run_case(_rt: &tokio::runtime::Runtime, line: &str) -> String {
    let toks: Vec<&str> = line.split_whitespace().collect();
    if toks.is_empty() {
        return "unknown-kind".to_string();
    }
    match toks[0] {
        "classify" => {
            let name = toks.get(1).copied().unwrap_or("");
            let packet = Box::new(RespPacket::from_resp_vec(bulk_cmd(&[
                name.as_bytes(),
                b"k",
                b"x",
            ])));
            let cmd = Command::new(packet);
            let t = cmd.get_data_cmd_type();
            format!(
                "classify {} {} {:?}",
                name.to_uppercase(),
                if requires_blocking_migration(t) { 1 } else { 0 },
                t
            )
        }
        // the scenarios run on their OWN multi-thread runtime (the main loop's has only 2 workers)
        "mig" => run_mig(&Params::parse(&toks[1..])),
        "witness" => run_witness(&Params::parse(&toks[1..])),
        "collide" => run_collide(&Params::parse(&toks[1..])),
        "multi" => run_multi(&Params::parse(&toks[1..])),
        "mkey" => run_mkey(&Params::parse(&toks[1..])),
        "race" => run_race(&Params::parse(&toks[1..])),
        k => format!("unknown-kind {}", k),
    }
}
