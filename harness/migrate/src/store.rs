// Storing Redis stand-in: typed values (string | set) with an optional stored-but-never-timed ttl.
// One `Store` per node address, guarded by ONE mutex (see net.rs); `exec` is a pure state transition.
use std::collections::{BTreeMap, BTreeSet};
use undermoon::common::utils::generate_slot;
use undermoon::protocol::{Array, BulkStr, Resp, RespVec};

pub const DEFAULT_SCAN_BUCKETS: u64 = 256;

#[derive(Clone, Debug, PartialEq, Eq)]
pub enum Val {
    Str(Vec<u8>),
    Set(BTreeSet<Vec<u8>>),
}

#[derive(Clone, Debug, PartialEq, Eq)]
pub struct Entry {
    pub val: Val,
    pub ttl: Option<i64>,
}

pub struct Store {
    pub map: BTreeMap<Vec<u8>, Entry>,
    pub buckets: u64,
}

impl Default for Store {
    fn default() -> Self {
        Store {
            map: BTreeMap::new(),
            buckets: DEFAULT_SCAN_BUCKETS,
        }
    }
}

fn upper(b: &[u8]) -> Vec<u8> {
    b.iter().map(|x| x.to_ascii_uppercase()).collect()
}

fn err(s: &str) -> RespVec {
    Resp::Error(s.as_bytes().to_vec())
}

fn int(n: i64) -> RespVec {
    Resp::Integer(n.to_string().into_bytes())
}

fn bulk(b: &[u8]) -> RespVec {
    Resp::Bulk(BulkStr::Str(b.to_vec()))
}

fn ok() -> RespVec {
    Resp::Simple(b"OK".to_vec())
}

fn wrongtype() -> RespVec {
    err("WRONGTYPE Operation against a key holding the wrong kind of value")
}

fn wrong_args(name: &[u8]) -> RespVec {
    err(&format!(
        "ERR wrong number of arguments for '{}' command",
        String::from_utf8_lossy(name).to_lowercase()
    ))
}

fn parse_i64(b: &[u8]) -> Option<i64> {
    std::str::from_utf8(b).ok()?.parse::<i64>().ok()
}

// DUMP-style serialization: 'S' + bytes | 'T' + (u32 BE length + member)* in sorted order. Injective.
pub fn dump_val(v: &Val) -> Vec<u8> {
    match v {
        Val::Str(s) => {
            let mut out = vec![b'S'];
            out.extend_from_slice(s);
            out
        }
        Val::Set(set) => {
            let mut out = vec![b'T'];
            for m in set {
                out.extend_from_slice(&(m.len() as u32).to_be_bytes());
                out.extend_from_slice(m);
            }
            out
        }
    }
}

pub fn undump_val(data: &[u8]) -> Option<Val> {
    match data.first()? {
        b'S' => Some(Val::Str(data[1..].to_vec())),
        b'T' => {
            let mut set = BTreeSet::new();
            let mut i = 1usize;
            while i < data.len() {
                let lenb = data.get(i..i + 4)?;
                let n = u32::from_be_bytes([lenb[0], lenb[1], lenb[2], lenb[3]]) as usize;
                i += 4;
                let m = data.get(i..i + n)?;
                i += n;
                set.insert(m.to_vec());
            }
            Some(Val::Set(set))
        }
        _ => None,
    }
}

pub fn bucket_of(key: &[u8], buckets: u64) -> u64 {
    (generate_slot(key) as u64) % buckets.max(1)
}

impl Store {
    fn get_set(&self, key: &[u8]) -> Result<BTreeSet<Vec<u8>>, ()> {
        match self.map.get(key) {
            None => Ok(BTreeSet::new()),
            Some(Entry {
                val: Val::Set(s), ..
            }) => Ok(s.clone()),
            Some(_) => Err(()),
        }
    }

    fn store_result(&mut self, dest: &[u8], res: BTreeSet<Vec<u8>>) -> RespVec {
        // real Redis: an empty result DELETES the destination key and answers 0
        if res.is_empty() {
            self.map.remove(dest);
            return int(0);
        }
        let n = res.len() as i64;
        self.map.insert(
            dest.to_vec(),
            Entry {
                val: Val::Set(res),
                ttl: None,
            },
        );
        int(n)
    }

    pub fn exec(&mut self, cmd: &[Vec<u8>]) -> RespVec {
        let name = match cmd.first() {
            Some(n) => upper(n),
            None => return err("ERR unknown command"),
        };
        let argc = cmd.len();
        match name.as_slice() {
            b"PING" => Resp::Simple(b"PONG".to_vec()),
            b"GET" => {
                if argc != 2 {
                    return wrong_args(&name);
                }
                match self.map.get(&cmd[1]) {
                    None => Resp::Bulk(BulkStr::Nil),
                    Some(Entry {
                        val: Val::Str(s), ..
                    }) => bulk(s),
                    Some(_) => wrongtype(),
                }
            }
            b"SET" => {
                if argc < 3 {
                    return wrong_args(&name);
                }
                let mut ttl = None;
                let mut i = 3;
                while i < argc {
                    let opt = upper(&cmd[i]);
                    match opt.as_slice() {
                        b"EX" | b"PX" => {
                            let n = match cmd.get(i + 1).and_then(|b| parse_i64(b)) {
                                Some(n) if n > 0 => n,
                                _ => return err("ERR invalid expire time in 'set' command"),
                            };
                            ttl = Some(if opt.as_slice() == b"EX" { n * 1000 } else { n });
                            i += 2;
                        }
                        _ => return err("ERR syntax error"),
                    }
                }
                self.map.insert(
                    cmd[1].clone(),
                    Entry {
                        val: Val::Str(cmd[2].clone()),
                        ttl,
                    },
                );
                ok()
            }
            b"APPEND" => {
                if argc != 3 {
                    return wrong_args(&name);
                }
                match self.map.get_mut(&cmd[1]) {
                    None => {
                        let n = cmd[2].len() as i64;
                        self.map.insert(
                            cmd[1].clone(),
                            Entry {
                                val: Val::Str(cmd[2].clone()),
                                ttl: None,
                            },
                        );
                        int(n)
                    }
                    Some(Entry {
                        val: Val::Str(s), ..
                    }) => {
                        s.extend_from_slice(&cmd[2]);
                        int(s.len() as i64)
                    }
                    Some(_) => wrongtype(),
                }
            }
            // a tiny fake script vocabulary: the script text is "<VERB>[=<value>][:<anything>]" with VERB one of
            //   DELALL (delete every KEYS[i], reply the number deleted), GETALL (reply the array of their values),
            //   SETALL (write ARGV[1] - or <value> when there is no ARGV - to every KEYS[i], reply OK)
            b"EVAL" => {
                if argc < 3 {
                    return wrong_args(&name);
                }
                let n = match parse_i64(&cmd[2]) {
                    Some(n) if n >= 0 && (n as usize) <= argc - 3 => n as usize,
                    _ => return err("ERR Number of keys can't be greater than number of args"),
                };
                let keys: Vec<Vec<u8>> = cmd[3..3 + n].to_vec();
                let argv: Vec<Vec<u8>> = cmd[3 + n..].to_vec();
                let text = cmd[1].clone();
                let head: Vec<u8> = text.split(|c| *c == b':').next().unwrap_or(&[]).to_vec();
                let mut it = head.splitn(2, |c| *c == b'=');
                let verb = upper(it.next().unwrap_or(&[]));
                let inline = it.next().map(|v| v.to_vec());
                match verb.as_slice() {
                    b"DELALL" => {
                        let mut cnt = 0;
                        for k in keys.iter() {
                            if self.map.remove(k).is_some() {
                                cnt += 1;
                            }
                        }
                        int(cnt)
                    }
                    b"GETALL" => Resp::Arr(Array::Arr(
                        keys.iter()
                            .map(|k| match self.map.get(k) {
                                Some(Entry {
                                    val: Val::Str(s), ..
                                }) => bulk(s),
                                _ => Resp::Bulk(BulkStr::Nil),
                            })
                            .collect(),
                    )),
                    b"SETALL" => {
                        let v = match argv.first().cloned().or(inline) {
                            Some(v) => v,
                            None => return err("ERR SETALL needs a value"),
                        };
                        for k in keys.iter() {
                            self.map.insert(
                                k.clone(),
                                Entry {
                                    val: Val::Str(v.clone()),
                                    ttl: None,
                                },
                            );
                        }
                        ok()
                    }
                    _ => err("ERR unknown script"),
                }
            }
            b"DEL" | b"UNLINK" => {
                if argc < 2 {
                    return wrong_args(&name);
                }
                let mut n = 0;
                for k in &cmd[1..] {
                    if self.map.remove(k).is_some() {
                        n += 1;
                    }
                }
                int(n)
            }
            b"EXISTS" => {
                if argc < 2 {
                    return wrong_args(&name);
                }
                let n = cmd[1..].iter().filter(|k| self.map.contains_key(*k)).count();
                int(n as i64)
            }
            b"PTTL" => {
                if argc != 2 {
                    return wrong_args(&name);
                }
                match self.map.get(&cmd[1]) {
                    None => int(-2),
                    Some(Entry { ttl: None, .. }) => int(-1),
                    Some(Entry { ttl: Some(t), .. }) => int(*t),
                }
            }
            b"DUMP" => {
                if argc != 2 {
                    return wrong_args(&name);
                }
                match self.map.get(&cmd[1]) {
                    None => Resp::Bulk(BulkStr::Nil),
                    Some(e) => bulk(&dump_val(&e.val)),
                }
            }
            b"RESTORE" => {
                if argc < 4 {
                    return wrong_args(&name);
                }
                let mut replace = false;
                for o in &cmd[4..] {
                    if upper(o).as_slice() == b"REPLACE" {
                        replace = true;
                    } else {
                        return err("ERR syntax error");
                    }
                }
                let ttl = match parse_i64(&cmd[2]) {
                    Some(n) if n >= 0 => n,
                    _ => return err("ERR Invalid TTL value, must be >= 0"),
                };
                let val = match undump_val(&cmd[3]) {
                    Some(v) => v,
                    None => return err("ERR DUMP payload version or checksum are wrong"),
                };
                if !replace && self.map.contains_key(&cmd[1]) {
                    return err("BUSYKEY Target key name already exists.");
                }
                self.map.insert(
                    cmd[1].clone(),
                    Entry {
                        val,
                        ttl: if ttl == 0 { None } else { Some(ttl) },
                    },
                );
                ok()
            }
            b"SCAN" => {
                // BUCKET cursor: the call returns every key of bucket `cursor`; next = cursor + 1, 0 after the last.
                // Keys never move between buckets, so deleting while scanning never skips a surviving key.
                if argc < 2 {
                    return wrong_args(&name);
                }
                let cursor = match std::str::from_utf8(&cmd[1]).ok().and_then(|s| s.parse::<u64>().ok()) {
                    Some(c) => c,
                    None => return err("ERR invalid cursor"),
                };
                let keys: Vec<RespVec> = self
                    .map
                    .keys()
                    .filter(|k| bucket_of(k, self.buckets) == cursor)
                    .map(|k| bulk(k))
                    .collect();
                let next = if cursor + 1 >= self.buckets { 0 } else { cursor + 1 };
                Resp::Arr(Array::Arr(vec![
                    bulk(next.to_string().as_bytes()),
                    Resp::Arr(Array::Arr(keys)),
                ]))
            }
            b"SADD" => {
                if argc < 3 {
                    return wrong_args(&name);
                }
                match self.map.get_mut(&cmd[1]) {
                    None => {
                        let set: BTreeSet<Vec<u8>> = cmd[2..].iter().cloned().collect();
                        let n = set.len() as i64;
                        self.map.insert(
                            cmd[1].clone(),
                            Entry {
                                val: Val::Set(set),
                                ttl: None,
                            },
                        );
                        int(n)
                    }
                    Some(Entry {
                        val: Val::Set(s), ..
                    }) => {
                        let mut n = 0;
                        for m in &cmd[2..] {
                            if s.insert(m.clone()) {
                                n += 1;
                            }
                        }
                        int(n)
                    }
                    Some(_) => wrongtype(),
                }
            }
            b"SREM" => {
                if argc < 3 {
                    return wrong_args(&name);
                }
                let (n, empty) = match self.map.get_mut(&cmd[1]) {
                    None => return int(0),
                    Some(Entry {
                        val: Val::Set(s), ..
                    }) => {
                        let mut n = 0;
                        for m in &cmd[2..] {
                            if s.remove(m) {
                                n += 1;
                            }
                        }
                        (n, s.is_empty())
                    }
                    Some(_) => return wrongtype(),
                };
                if empty {
                    self.map.remove(&cmd[1]);
                }
                int(n)
            }
            b"SMEMBERS" => {
                if argc != 2 {
                    return wrong_args(&name);
                }
                match self.get_set(&cmd[1]) {
                    Ok(s) => Resp::Arr(Array::Arr(s.iter().map(|m| bulk(m)).collect())),
                    Err(()) => wrongtype(),
                }
            }
            b"SCARD" => {
                if argc != 2 {
                    return wrong_args(&name);
                }
                match self.get_set(&cmd[1]) {
                    Ok(s) => int(s.len() as i64),
                    Err(()) => wrongtype(),
                }
            }
            b"SINTERSTORE" | b"SDIFFSTORE" | b"SUNIONSTORE" => {
                if argc < 3 {
                    return wrong_args(&name);
                }
                let mut sets = vec![];
                for k in &cmd[2..] {
                    match self.get_set(k) {
                        Ok(s) => sets.push(s),
                        Err(()) => return wrongtype(),
                    }
                }
                let mut it = sets.into_iter();
                let mut res = it.next().unwrap_or_default();
                for s in it {
                    res = match name.as_slice() {
                        b"SINTERSTORE" => res.intersection(&s).cloned().collect(),
                        b"SDIFFSTORE" => res.difference(&s).cloned().collect(),
                        _ => res.union(&s).cloned().collect(),
                    };
                }
                self.store_result(&cmd[1], res)
            }
            _ => err("ERR unknown command"),
        }
    }
}
