// In-process world: two REAL proxies (SharedForwardHandler) + two storing Redis stand-ins + a global trace.
//   * NetConnFactory (one per proxy): data connections. A Redis node address -> the storing stand-in (FIFO per
//     connection, random latency before each command); a PROXY address (UMSYNC, UMFORWARD) -> that proxy's handler.
//   * NetClientFactory (one per proxy): control clients. A proxy address -> that proxy's handler (UMCTL PRECHECK /
//     PRESWITCH / FINALSWITCH, PING); a Redis node -> the stand-in (SCAN / PTTL / DUMP / RESTORE / DEL of the scanner).
//   * every executed command takes its `seq` INSIDE the node mutex.
use crate::store::{dump_val, Store};
use crate::util::{hex, resp_to_string};
use arc_swap::ArcSwap;
use futures::channel::mpsc;
use futures::{Future, SinkExt, StreamExt, TryStreamExt};
use parking_lot::Mutex;
use serde_json::{json, Value};
use std::collections::HashMap;
use std::convert::TryFrom;
use std::net::SocketAddr;
use std::num::NonZeroUsize;
use std::pin::Pin;
use std::sync::atomic::{AtomicBool, AtomicI64, AtomicU64, Ordering};
use std::sync::Arc;
use std::time::{Duration, Instant};
use undermoon::common::batch::BatchStrategy;
use undermoon::common::cluster::{ClusterName, MigrationMeta, Range, RangeList, SlotRange, SlotRangeTag};
use undermoon::common::config::{ClusterConfig, CompressionStrategy, MigrationConfig};
use undermoon::common::proto::{ClusterMapFlags, ProxyClusterMeta};
use undermoon::common::track::TrackedFutureRegistry;
use undermoon::protocol::{
    Array, BinSafeStr, BulkStr, OptionalMulti, RedisClient, RedisClientError, RedisClientFactory,
    Resp, RespPacket, RespVec,
};
use undermoon::proxy::backend::{BackendError, ConnFactory, ConnSink, ConnStream, CreateConnResult};
use undermoon::proxy::command::{new_command_pair, Command};
use undermoon::proxy::executor::SharedForwardHandler;
use undermoon::proxy::manager::MetaMap;
use undermoon::proxy::service::{ClusterNodesVersion, ServerProxyConfig};
use undermoon::proxy::session::{CmdCtx, CmdCtxHandler};
use undermoon::proxy::slowlog::SlowRequestLogger;

// P3/R3 exist only in the `multi` scenarios (a second destination of the same source proxy)
pub const NPROXY: usize = 3;
pub const PROXY_ADDR: [&str; 3] = ["127.0.1.1:7001", "127.0.2.1:7002", "127.0.3.1:7003"];
pub const PROXY_HOST: [&str; 3] = ["127.0.1.1", "127.0.2.1", "127.0.3.1"];
pub const NODE_ADDR: [&str; 3] = ["127.0.1.1:6001", "127.0.2.1:6002", "127.0.3.1:6003"];
pub const PROXY_NAME: [&str; 3] = ["P1", "P2", "P3"];
pub const NODE_NAME: [&str; 3] = ["R1", "R2", "R3"];
pub const CLUSTER: &str = "c";
pub const SLOT_MAX: usize = 16383;

pub type Handler = SharedForwardHandler<NetClientFactory, NetConnFactory>;

pub fn proxy_index(addr: &str) -> Option<usize> {
    PROXY_ADDR.iter().position(|a| *a == addr)
}

pub fn node_index(addr: &str) -> Option<usize> {
    NODE_ADDR.iter().position(|a| *a == addr)
}

// ---------- deterministic RNG (splitmix64) ----------
pub fn mix64(mut z: u64) -> u64 {
    z = (z ^ (z >> 30)).wrapping_mul(0xbf58_476d_1ce4_e5b9);
    z = (z ^ (z >> 27)).wrapping_mul(0x94d0_49bb_1331_11eb);
    z ^ (z >> 31)
}

pub struct Rng(AtomicU64);

impl Rng {
    pub fn new(seed: u64, stream: u64) -> Self {
        Rng(AtomicU64::new(mix64(
            seed ^ stream.wrapping_mul(0x9e37_79b9_7f4a_7c15) ^ 0x5851_f42d_4c95_7f2d,
        )))
    }
    pub fn next(&self) -> u64 {
        let s = self
            .0
            .fetch_add(0x9e37_79b9_7f4a_7c15, Ordering::Relaxed)
            .wrapping_add(0x9e37_79b9_7f4a_7c15);
        mix64(s)
    }
    // uniform in 0..n (n > 0)
    pub fn below(&self, n: u64) -> u64 {
        if n == 0 {
            0
        } else {
            self.next() % n
        }
    }
}

// tokio timers have 1 ms granularity: sleep the whole-millisecond part and (spin=true) yield-spin the rest
pub async fn precise_sleep(d: Duration, spin: bool) {
    if d.is_zero() {
        return;
    }
    if !spin {
        tokio::time::sleep(d).await;
        return;
    }
    let deadline = Instant::now() + d;
    if d >= Duration::from_millis(2) {
        tokio::time::sleep(d - Duration::from_millis(1)).await;
    }
    while Instant::now() < deadline {
        tokio::task::yield_now().await;
    }
}

// ---------- the hold used by `witness` ----------
pub struct Hold {
    pub key: Vec<u8>,
    pub max: Duration,
    pub armed: AtomicBool,
    pub holding: AtomicBool,
    pub was_held: AtomicBool,
    pub released: AtomicBool,
}

impl Hold {
    pub fn new(key: Vec<u8>, max: Duration) -> Self {
        Hold {
            key,
            max,
            armed: AtomicBool::new(true),
            holding: AtomicBool::new(false),
            was_held: AtomicBool::new(false),
            released: AtomicBool::new(false),
        }
    }
    pub fn release(&self) {
        self.released.store(true, Ordering::SeqCst);
    }
}

// ---------- generic gates used by `collide`: the first matching command of a control client waits until released ----------
pub struct Gate {
    pub owner: usize,          // proxy whose RedisClientFactory created the client
    pub node: usize,           // target Redis node
    pub cmd: &'static str,     // upper-case command name
    pub key: Vec<u8>,          // empty = any key
    pub max: Duration,
    pub armed: AtomicBool,
    pub holding: AtomicBool,
    pub was_held: AtomicBool,
    pub released: AtomicBool,
}

impl Gate {
    pub fn new(owner: usize, node: usize, cmd: &'static str, key: Vec<u8>, max: Duration) -> Arc<Self> {
        Arc::new(Gate {
            owner,
            node,
            cmd,
            key,
            max,
            armed: AtomicBool::new(true),
            holding: AtomicBool::new(false),
            was_held: AtomicBool::new(false),
            released: AtomicBool::new(false),
        })
    }
    pub fn release(&self) {
        self.released.store(true, Ordering::SeqCst);
    }
    pub fn disarm(&self) {
        self.armed.store(false, Ordering::SeqCst);
    }
}

pub struct Node {
    pub store: Mutex<Store>,
}

pub struct World {
    pub seq: AtomicU64,
    pub trace: Mutex<Vec<(u64, Value)>>,
    pub ids: AtomicU64,
    pub nodes: [Node; 3],
    pub handlers: Mutex<[Option<Handler>; 3]>,
    pub lat_us: u64,
    pub seed: u64,
    pub spin: bool,
    pub hold: Option<Hold>,
    pub gates: Mutex<Vec<Arc<Gate>>>,
    pub redis_events: AtomicU64,
    pub t0: Instant,
}

impl World {
    pub fn new(seed: u64, lat_us: u64, spin: bool, buckets: u64, hold: Option<Hold>) -> Arc<Self> {
        let mk = || Store {
            map: Default::default(),
            buckets: buckets.max(1),
        };
        Arc::new(World {
            seq: AtomicU64::new(0),
            trace: Mutex::new(Vec::with_capacity(1 << 16)),
            ids: AtomicU64::new(1),
            nodes: [
                Node {
                    store: Mutex::new(mk()),
                },
                Node {
                    store: Mutex::new(mk()),
                },
                Node {
                    store: Mutex::new(mk()),
                },
            ],
            handlers: Mutex::new([None, None, None]),
            lat_us,
            seed,
            spin,
            hold,
            gates: Mutex::new(vec![]),
            redis_events: AtomicU64::new(0),
            t0: Instant::now(),
        })
    }

    pub fn next_seq(&self) -> u64 {
        self.seq.fetch_add(1, Ordering::SeqCst) + 1
    }

    pub fn log(&self, seq: u64, mut v: Value) {
        // wall-clock microseconds since the start of the case: for humans / overlap statistics only
        if let Value::Object(m) = &mut v {
            m.insert("us".to_string(), json!(self.t0.elapsed().as_micros() as u64));
        }
        let mut t = self.trace.lock();
        t.push((seq, v));
    }

    pub fn handler(&self, i: usize) -> Option<Handler> {
        let g = self.handlers.lock();
        g[i].clone()
    }

    // break the Arc cycle world -> handler -> factory -> world
    pub fn clear_handlers(&self) {
        let mut g = self.handlers.lock();
        g[0] = None;
        g[1] = None;
        g[2] = None;
    }

    async fn latency(&self, rng: &Rng) {
        if self.lat_us > 0 {
            let us = rng.below(self.lat_us + 1);
            precise_sleep(Duration::from_micros(us), self.spin).await;
        }
    }

    // the ONE place where a stand-in executes a command: seq is taken inside the node mutex
    pub fn exec_redis(&self, node: usize, owner: &str, via: &str, cid: u64, cmd: &[Vec<u8>]) -> RespVec {
        let mut store = self.nodes[node].store.lock();
        let seq = self.next_seq();
        let reply = store.exec(cmd);
        let ev = json!({
            "t": "redis", "seq": seq, "node": NODE_NAME[node], "owner": owner, "via": via, "cid": cid,
            "cmd": hex_args(cmd), "reply": resp_to_string(&reply),
        });
        self.log(seq, ev);
        self.redis_events.fetch_add(1, Ordering::Relaxed);
        drop(store);
        reply
    }

    pub fn final_contents(&self, node: usize) -> Value {
        let store = self.nodes[node].store.lock();
        let mut m = serde_json::Map::new();
        for (k, e) in store.map.iter() {
            m.insert(hex(k), Value::String(hex(&dump_val(&e.val))));
        }
        Value::Object(m)
    }

    pub fn write_trace(&self, path: &str, meta: Value) -> Result<usize, String> {
        use std::io::Write;
        let mut events: Vec<(u64, Value)> = {
            let t = self.trace.lock();
            t.clone()
        };
        events.sort_by_key(|(s, _)| *s);
        let f = std::fs::File::create(path).map_err(|e| format!("create {}: {}", path, e))?;
        let mut w = std::io::BufWriter::new(f);
        writeln!(w, "{}", meta).map_err(|e| e.to_string())?;
        for (_, v) in events.iter() {
            writeln!(w, "{}", v).map_err(|e| e.to_string())?;
        }
        w.flush().map_err(|e| e.to_string())?;
        Ok(events.len())
    }
}

pub fn hex_args(cmd: &[Vec<u8>]) -> Value {
    Value::Array(cmd.iter().map(|a| Value::String(hex(a))).collect())
}

fn upper(b: &[u8]) -> String {
    String::from_utf8_lossy(b).to_uppercase()
}

pub async fn send_cmd(handler: &Handler, elems: Vec<Vec<u8>>) -> Option<RespVec> {
    let resp = Resp::Arr(Array::Arr(
        elems
            .into_iter()
            .map(|b| Resp::Bulk(BulkStr::Str(b)))
            .collect(),
    ));
    let cmd = Command::new(Box::new(RespPacket::Data(resp)));
    let (s, r) = new_command_pair(&cmd);
    let ctx = CmdCtx::new(cmd, s, 0, false);
    let auth = AtomicBool::new(false);
    match handler.handle_cmd_ctx(ctx, r, &auth).await {
        Ok(reply) => Some(reply.into_resp_vec()),
        Err(_) => None,
    }
}

pub fn harness_err(msg: &str) -> RespVec {
    Resp::Error(format!("HARNESS {}", msg).into_bytes())
}

// proxy-to-proxy hop (UMSYNC, UMFORWARD over a data connection; UMCTL/PING over a control client)
// proxy-to-proxy gates: node = 10 + target proxy holds the REQUEST before it is dispatched, node = 20 + target proxy holds the REPLY on its way
// back; `cmd` must be one of the (upper-cased) elements of the command, `key` (if not empty) one of its elements
fn find_p2p_gate(world: &Arc<World>, from: usize, node: usize, cmd: &[Vec<u8>]) -> Option<Arc<Gate>> {
    let gates = world.gates.lock();
    gates
        .iter()
        .find(|g| {
            g.owner == from
                && g.node == node
                && cmd.iter().any(|c| upper(c) == g.cmd)
                && (g.key.is_empty() || cmd.iter().any(|c| *c == g.key))
                && g.armed.swap(false, Ordering::SeqCst)
        })
        .cloned()
}

async fn wait_gate(world: &Arc<World>, g: &Arc<Gate>, cmd: &[Vec<u8>]) {
    let seq = world.next_seq();
    world.log(seq, json!({"t": "hold", "seq": seq, "what": "begin", "gate": g.cmd, "node": g.node, "cmd": hex_args(cmd)}));
    g.was_held.store(true, Ordering::SeqCst);
    g.holding.store(true, Ordering::SeqCst);
    let start = Instant::now();
    let mut by = "timeout";
    while start.elapsed() < g.max {
        if g.released.load(Ordering::SeqCst) {
            by = "signal";
            break;
        }
        tokio::time::sleep(Duration::from_millis(1)).await;
    }
    g.holding.store(false, Ordering::SeqCst);
    let seq = world.next_seq();
    world.log(seq, json!({"t": "hold", "seq": seq, "what": "end", "gate": g.cmd, "node": g.node, "by": by}));
}

async fn p2p(world: &Arc<World>, from: usize, to: usize, via: &str, rng: &Rng, cmd: Vec<Vec<u8>>) -> RespVec {
    world.latency(rng).await;
    if let Some(g) = find_p2p_gate(world, from, 10 + to, &cmd) {
        wait_gate(world, &g, &cmd).await;
    }
    let seq0 = world.next_seq();
    let reply = match world.handler(to) {
        Some(h) => match send_cmd(&h, cmd.clone()).await {
            Some(r) => r,
            None => harness_err("canceled"),
        },
        None => harness_err("no such proxy"),
    };
    let seq = world.next_seq();
    world.log(
        seq,
        json!({
            "t": "p2p", "seq": seq, "seq0": seq0, "from": PROXY_NAME[from], "to": PROXY_NAME[to], "via": via,
            "cmd": hex_args(&cmd), "reply": resp_to_string(&reply),
        }),
    );
    if let Some(g) = find_p2p_gate(world, from, 20 + to, &cmd) {
        wait_gate(world, &g, &cmd).await;
    }
    reply
}

fn packet_cmd(packet: &RespPacket) -> Vec<Vec<u8>> {
    match packet.to_resp_vec() {
        Resp::Arr(Array::Arr(resps)) => resps
            .iter()
            .map(|r| match r {
                Resp::Bulk(BulkStr::Str(s)) => s.clone(),
                _ => vec![],
            })
            .collect(),
        _ => vec![],
    }
}

// ---------- data connections ----------
pub struct NetConnFactory {
    pub world: Arc<World>,
    pub owner: usize,
}

impl ConnFactory for NetConnFactory {
    type Pkt = RespPacket;
    fn create_conn(
        &self,
        addr: SocketAddr,
    ) -> Pin<Box<dyn Future<Output = CreateConnResult<Self::Pkt>> + Send>> {
        let (sender, receiver) = mpsc::unbounded();
        let world = self.world.clone();
        let owner = self.owner;
        let addr_s = addr.to_string();
        let id = world.ids.fetch_add(1, Ordering::SeqCst);
        let rng = Arc::new(Rng::new(world.seed, 0x1000_0000 + id));
        // `.then` drives ONE packet at a time: the connection is strictly FIFO
        let receiver = receiver.then(move |packet: RespPacket| {
            let world = world.clone();
            let addr_s = addr_s.clone();
            let rng = rng.clone();
            async move {
                let cmd = packet_cmd(&packet);
                let reply = if let Some(to) = proxy_index(&addr_s) {
                    p2p(&world, owner, to, "conn", &rng, cmd).await
                } else if let Some(node) = node_index(&addr_s) {
                    world.latency(&rng).await;
                    world.exec_redis(node, PROXY_NAME[owner], "conn", id, &cmd)
                } else {
                    harness_err("unknown address")
                };
                Ok::<_, ()>(RespPacket::Data(reply))
            }
        });
        let sink: ConnSink<RespPacket> = Box::pin(sender.sink_map_err(|_| BackendError::Canceled));
        let stream: ConnStream<RespPacket> = Box::pin(receiver.map_err(|_| BackendError::Canceled));
        Box::pin(async { Ok((sink, stream)) })
    }
}

// ---------- control clients ----------
pub struct NetClient {
    world: Arc<World>,
    owner: usize,
    id: u64,
    address: String,
    rng: Rng,
}

impl NetClient {
    async fn one(&self, cmd: Vec<BinSafeStr>) -> Result<RespVec, RedisClientError> {
        if let Some(to) = proxy_index(&self.address) {
            return Ok(p2p(&self.world, self.owner, to, "client", &self.rng, cmd).await);
        }
        let node = match node_index(&self.address) {
            Some(n) => n,
            None => return Err(RedisClientError::InvalidAddress),
        };
        if let Some(h) = self.world.hold.as_ref() {
            // the scanner of the source proxy: its RESTORE of the watched key to the destination node is in flight
            if self.owner == 0
                && node == 1
                && cmd.len() >= 2
                && upper(&cmd[0]) == "RESTORE"
                && cmd[1] == h.key
                && h.armed.swap(false, Ordering::SeqCst)
            {
                let seq = self.world.next_seq();
                self.world.log(
                    seq,
                    json!({"t": "hold", "seq": seq, "what": "begin", "cid": self.id, "cmd": hex_args(&cmd)}),
                );
                h.was_held.store(true, Ordering::SeqCst);
                h.holding.store(true, Ordering::SeqCst);
                let start = Instant::now();
                let mut by = "timeout";
                while start.elapsed() < h.max {
                    if h.released.load(Ordering::SeqCst) {
                        by = "signal";
                        break;
                    }
                    tokio::time::sleep(Duration::from_millis(1)).await;
                }
                h.holding.store(false, Ordering::SeqCst);
                let seq = self.world.next_seq();
                self.world
                    .log(seq, json!({"t": "hold", "seq": seq, "what": "end", "by": by, "cid": self.id}));
            }
        }
        let gate = {
            let gates = self.world.gates.lock();
            let name = if cmd.is_empty() { String::new() } else { upper(&cmd[0]) };
            gates
                .iter()
                .find(|g| {
                    g.owner == self.owner
                        && g.node == node
                        && name == g.cmd
                        && (g.key.is_empty() || (cmd.len() >= 2 && cmd[1] == g.key))
                        && g.armed.swap(false, Ordering::SeqCst)
                })
                .cloned()
        };
        if let Some(g) = gate {
            let seq = self.world.next_seq();
            self.world.log(
                seq,
                json!({"t": "hold", "seq": seq, "what": "begin", "gate": g.cmd, "cid": self.id, "cmd": hex_args(&cmd)}),
            );
            g.was_held.store(true, Ordering::SeqCst);
            g.holding.store(true, Ordering::SeqCst);
            let start = Instant::now();
            let mut by = "timeout";
            while start.elapsed() < g.max {
                if g.released.load(Ordering::SeqCst) {
                    by = "signal";
                    break;
                }
                tokio::time::sleep(Duration::from_millis(1)).await;
            }
            g.holding.store(false, Ordering::SeqCst);
            let seq = self.world.next_seq();
            self.world
                .log(seq, json!({"t": "hold", "seq": seq, "what": "end", "gate": g.cmd, "by": by, "cid": self.id}));
        }
        self.world.latency(&self.rng).await;
        Ok(self
            .world
            .exec_redis(node, PROXY_NAME[self.owner], "client", self.id, &cmd))
    }
}

impl RedisClient for NetClient {
    fn execute<'s>(
        &'s mut self,
        command: OptionalMulti<Vec<BinSafeStr>>,
    ) -> Pin<Box<dyn Future<Output = Result<OptionalMulti<RespVec>, RedisClientError>> + Send + 's>>
    {
        Box::pin(async move {
            match command {
                OptionalMulti::Single(c) => Ok(OptionalMulti::Single(self.one(c).await?)),
                OptionalMulti::Multi(cs) => {
                    // a pipeline: executed in order, one by one, each with its own latency and trace event
                    let mut out = Vec::with_capacity(cs.len());
                    for c in cs {
                        out.push(self.one(c).await?);
                    }
                    Ok(OptionalMulti::Multi(out))
                }
            }
        })
    }
}

pub struct NetClientFactory {
    pub world: Arc<World>,
    pub owner: usize,
}

impl RedisClientFactory for NetClientFactory {
    type Client = NetClient;
    fn create_client<'s>(
        &'s self,
        address: String,
    ) -> Pin<Box<dyn Future<Output = Result<Self::Client, RedisClientError>> + Send + 's>> {
        let world = self.world.clone();
        let owner = self.owner;
        Box::pin(async move {
            let id = world.ids.fetch_add(1, Ordering::SeqCst);
            let rng = Rng::new(world.seed, 0x2000_0000 + id);
            Ok(NetClient {
                world,
                owner,
                id,
                address,
                rng,
            })
        })
    }
}

// ---------- proxies ----------
pub fn new_proxy(world: &Arc<World>, idx: usize, conns: usize, active: bool) -> Handler {
    let config = Arc::new(ServerProxyConfig {
        address: PROXY_ADDR[idx].to_string(),
        announce_address: PROXY_ADDR[idx].to_string(),
        announce_host: PROXY_HOST[idx].to_string(),
        slowlog_len: NonZeroUsize::new(16).unwrap(),
        slowlog_log_slower_than: AtomicI64::new(-1),
        slowlog_sample_rate: AtomicU64::new(1),
        thread_number: NonZeroUsize::new(2).unwrap(),
        backend_conn_num: NonZeroUsize::new(conns.max(1)).unwrap(),
        active_redirection: active,
        // conf/server-proxy.toml ships max_redirections = 4 next to active_redirection
        max_redirections: if active { NonZeroUsize::new(4) } else { None },
        default_redirection_address: None,
        backend_batch_strategy: BatchStrategy::Disabled,
        backend_flush_size: NonZeroUsize::new(1024).unwrap(),
        backend_low_flush_interval: Duration::from_nanos(200_000),
        backend_high_flush_interval: Duration::from_nanos(800_000),
        session_timeout: None,
        backend_timeout: Duration::from_secs(600),
        password: None,
        command_cluster_nodes_version: ClusterNodesVersion::V2,
    });
    let meta_map = Arc::new(ArcSwap::new(Arc::new(MetaMap::empty())));
    let (stopped, rx) = mpsc::unbounded();
    std::mem::forget(rx);
    let handler = SharedForwardHandler::new(
        config.clone(),
        Arc::new(NetClientFactory {
            world: world.clone(),
            owner: idx,
        }),
        Arc::new(SlowRequestLogger::new(config)),
        meta_map,
        Arc::new(NetConnFactory {
            world: world.clone(),
            owner: idx,
        }),
        Arc::new(TrackedFutureRegistry::default()),
        stopped,
    );
    {
        let mut g = world.handlers.lock();
        g[idx] = Some(handler.clone());
    }
    handler
}

// ---------- metadata (what the broker would hand to the coordinator for each proxy) ----------
#[derive(Clone, Copy)]
pub struct Topo {
    pub lo: usize,
    pub hi: usize,
    pub scan_count: u64,
    pub scan_interval: u64,
    // the moving region lo..=hi is split into `parts` consecutive ranges, each its own migration task of the source
    // proxy P1; part j goes to destination proxy 1 + j % ndst (ndst = 1: everything to P2, ndst = 2: P2 and P3)
    pub parts: usize,
    pub ndst: usize,
}

fn stable(ranges: Vec<(usize, usize)>) -> SlotRange {
    SlotRange {
        range_list: RangeList::new(ranges.into_iter().map(|(s, e)| Range(s, e)).collect()),
        tag: SlotRangeTag::None,
    }
}

impl Topo {
    fn rest(&self) -> Vec<(usize, usize)> {
        let mut v = vec![];
        if self.lo > 0 {
            v.push((0, self.lo - 1));
        }
        if self.hi < SLOT_MAX {
            v.push((self.hi + 1, SLOT_MAX));
        }
        v
    }

    pub fn nparts(&self) -> usize {
        self.parts.max(1)
    }

    pub fn nproxies(&self) -> usize {
        1 + self.ndst.max(1).min(NPROXY - 1)
    }

    pub fn part_range(&self, j: usize) -> (usize, usize) {
        let n = self.nparts();
        let len = self.hi - self.lo + 1;
        let a = self.lo + len * j / n;
        let b = self.lo + len * (j + 1) / n - 1;
        (a, b)
    }

    pub fn part_dst(&self, j: usize) -> usize {
        1 + j % self.ndst.max(1).min(NPROXY - 1)
    }

    pub fn part_of_slot(&self, slot: usize) -> Option<usize> {
        (0..self.nparts()).find(|j| {
            let (a, b) = self.part_range(*j);
            slot >= a && slot <= b
        })
    }

    pub fn migration_meta_of(&self, j: usize) -> MigrationMeta {
        let d = self.part_dst(j);
        MigrationMeta {
            epoch: 2,
            src_proxy_address: PROXY_ADDR[0].to_string(),
            src_node_address: NODE_ADDR[0].to_string(),
            dst_proxy_address: PROXY_ADDR[d].to_string(),
            dst_node_address: NODE_ADDR[d].to_string(),
        }
    }

    pub fn migration_meta(&self) -> MigrationMeta {
        self.migration_meta_of(0)
    }

    // slot ranges of node R<idx+1> at stage 1 (before), 2 (migrating), 3 (committed)
    fn node_slots(&self, idx: usize, stage: u64) -> Vec<SlotRange> {
        let part = |j: usize| {
            let (a, b) = self.part_range(j);
            RangeList::new(vec![Range(a, b)])
        };
        let mine: Vec<usize> = (0..self.nparts()).filter(|j| self.part_dst(*j) == idx).collect();
        match (idx, stage) {
            (0, 1) => vec![stable(vec![(0, SLOT_MAX)])],
            (_, 1) => vec![],
            (0, 2) => {
                let mut v = vec![stable(self.rest())];
                for j in 0..self.nparts() {
                    v.push(SlotRange {
                        range_list: part(j),
                        tag: SlotRangeTag::Migrating(self.migration_meta_of(j)),
                    });
                }
                v
            }
            (_, 2) => mine
                .iter()
                .map(|j| SlotRange {
                    range_list: part(*j),
                    tag: SlotRangeTag::Importing(self.migration_meta_of(*j)),
                })
                .collect(),
            (0, _) => vec![stable(self.rest())],
            (_, _) => {
                if mine.is_empty() {
                    vec![]
                } else {
                    vec![stable(mine.iter().map(|j| self.part_range(*j)).collect())]
                }
            }
        }
    }

    pub fn meta(&self, proxy: usize, stage: u64) -> ProxyClusterMeta {
        let mut local = HashMap::new();
        let mine = self.node_slots(proxy, stage);
        if !mine.is_empty() {
            local.insert(NODE_ADDR[proxy].to_string(), mine);
        }
        let mut peer = HashMap::new();
        for other in 0..self.nproxies() {
            if other == proxy {
                continue;
            }
            let theirs = self.node_slots(other, stage);
            if !theirs.is_empty() {
                peer.insert(PROXY_ADDR[other].to_string(), theirs);
            }
        }
        let config = ClusterConfig {
            compression_strategy: CompressionStrategy::Disabled,
            migration_config: MigrationConfig {
                max_migration_time: 3 * 60 * 60,
                max_blocking_time: 600_000,
                scan_interval: self.scan_interval,
                scan_count: self.scan_count,
            },
        };
        ProxyClusterMeta::new(
            stage,
            ClusterMapFlags {
                force: false,
                compress: false,
            },
            ClusterName::try_from(CLUSTER).expect("cluster name"),
            local,
            peer,
            config,
        )
    }
}

pub async fn deliver(world: &Arc<World>, topo: &Topo, proxy: usize, stage: u64) -> String {
    let mut elems = vec![b"UMCTL".to_vec(), b"SETCLUSTER".to_vec()];
    elems.extend(topo.meta(proxy, stage).to_args().into_iter().map(|a| a.into_bytes()));
    let handler = match world.handler(proxy) {
        Some(h) => h,
        None => return "no-handler".to_string(),
    };
    match tokio::time::timeout(Duration::from_secs(10), send_cmd(&handler, elems)).await {
        Ok(Some(r)) => resp_to_string(&r),
        Ok(None) => "canceled".to_string(),
        Err(_) => "timeout".to_string(),
    }
}

// ---------- migration phase as reported by the proxies (UMCTL INFO -> "Migration" section) ----------
pub fn state_word(s: &str) -> &'static str {
    match s {
        "PRE_CHECK" => "PreCheck",
        "PRE_BLOCKING" => "PreBlocking",
        "PRE_SWITCH" => "PreSwitch",
        "SCANNING" => "Scanning",
        "FINAL_SWITCH" => "FinalSwitch",
        "SWITCH_COMMITTED" => "SwitchCommitted",
        _ => "unknown",
    }
}

pub async fn phase_of(world: &Arc<World>, proxy: usize) -> &'static str {
    let handler = match world.handler(proxy) {
        Some(h) => h,
        None => return "none",
    };
    let reply = tokio::time::timeout(
        Duration::from_secs(5),
        send_cmd(&handler, vec![b"UMCTL".to_vec(), b"INFO".to_vec()]),
    )
    .await;
    let arr = match reply {
        Ok(Some(Resp::Arr(Array::Arr(a)))) => a,
        _ => return "unknown",
    };
    // [.., "Migration", [ "name: c", "<ranges> <src> -> <dst> <STATE>", .. ]]
    let lines = match arr.get(5) {
        Some(Resp::Arr(Array::Arr(l))) => l,
        _ => return "unknown",
    };
    for l in lines.iter() {
        if let Resp::Bulk(BulkStr::Str(b)) = l {
            let s = String::from_utf8_lossy(b).to_string();
            if s.starts_with("name:") {
                continue;
            }
            if let Some(last) = s.split(' ').last() {
                return state_word(last);
            }
        }
    }
    "none"
}

// the states of ALL migration tasks a proxy reports (UMCTL INFO -> "Migration" section), for the `multi` scenarios
pub async fn mig_states(world: &Arc<World>, proxy: usize) -> Vec<&'static str> {
    let handler = match world.handler(proxy) {
        Some(h) => h,
        None => return vec![],
    };
    let reply = tokio::time::timeout(
        Duration::from_secs(5),
        send_cmd(&handler, vec![b"UMCTL".to_vec(), b"INFO".to_vec()]),
    )
    .await;
    let arr = match reply {
        Ok(Some(Resp::Arr(Array::Arr(a)))) => a,
        _ => return vec![],
    };
    let lines = match arr.get(5) {
        Some(Resp::Arr(Array::Arr(l))) => l,
        _ => return vec![],
    };
    let mut out = vec![];
    for l in lines.iter() {
        if let Resp::Bulk(BulkStr::Str(b)) = l {
            let s = String::from_utf8_lossy(b).to_string();
            if s.starts_with("name:") {
                continue;
            }
            if let Some(last) = s.split(' ').last() {
                out.push(state_word(last));
            }
        }
    }
    out
}
