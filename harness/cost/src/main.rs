// umh_cost: correspondence binary for property C16.
//   (no arguments)        read case lines on stdin, print one canonical result line per case (common main loop);
//                         hostile cases are run in a CHILD process (this binary with --child) under a timeout, a 2 MiB
//                         thread stack and RLIMIT_AS, so an abort / stack overflow / endless loop cannot take the check down
//   --child               run exactly one case (read from stdin) in this process and print its result line
#[path = "../../common/main_loop.rs"]
mod main_loop;
#[path = "../../common/util.rs"]
#[allow(dead_code)]
mod util;
mod dom;

use std::alloc::{GlobalAlloc, Layout, System};
use std::cell::Cell;
use std::sync::atomic::{AtomicUsize, Ordering};

// counting global allocator: counts requests made by the thread that switched counting on
pub struct Counting;
pub static TOTAL: AtomicUsize = AtomicUsize::new(0);
pub static MAXREQ: AtomicUsize = AtomicUsize::new(0);
pub static NREQ: AtomicUsize = AtomicUsize::new(0);
thread_local! { pub static TRACK: Cell<bool> = const { Cell::new(false) }; }

fn note(size: usize) {
    let on = TRACK.try_with(|t| t.get()).unwrap_or(false);
    if on {
        TOTAL.fetch_add(size, Ordering::Relaxed);
        NREQ.fetch_add(1, Ordering::Relaxed);
        MAXREQ.fetch_max(size, Ordering::Relaxed);
    }
}

unsafe impl GlobalAlloc for Counting {
    unsafe fn alloc(&self, layout: Layout) -> *mut u8 {
        note(layout.size());
        System.alloc(layout)
    }
    unsafe fn dealloc(&self, ptr: *mut u8, layout: Layout) {
        System.dealloc(ptr, layout)
    }
    unsafe fn alloc_zeroed(&self, layout: Layout) -> *mut u8 {
        note(layout.size());
        System.alloc_zeroed(layout)
    }
    unsafe fn realloc(&self, ptr: *mut u8, layout: Layout, new_size: usize) -> *mut u8 {
        note(new_size);
        System.realloc(ptr, layout, new_size)
    }
}

#[global_allocator]
static GLOBAL: Counting = Counting;

fn main() {
    let args: Vec<String> = std::env::args().collect();
    if args.len() >= 2 && args[1] == "--child" {
        // the case line arrives on stdin (it can be far longer than an argument may be)
        let mut line = String::new();
        std::io::stdin().read_line(&mut line).expect("case line");
        dom::child_main(line.trim());
        return;
    }
    main_loop::main_loop(dom::run_case);
}
