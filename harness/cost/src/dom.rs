// C16: resource use and crash behaviour of the real code on hostile input.
//   alloc <hex>            in-process: one RespPacket::decode call on the buffer under the counting allocator
//                          -> "<ok n|need|invalid> total=<bytes requested> max=<largest request> reqs=<count> elem=<size_of RespIndex>"
//   hostile <hex>          CHILD process (2 MiB stack thread, RLIMIT_AS 2 GiB, 15 s timeout): one decode call
//                          -> "exit=<ok|timeout|signal:N|code:N> ms=<wall> <ok n|need|invalid|panic ..>"
//   cmd <hex arg> ...      CHILD process: the command (array of bulk strings) sent to a real proxy SharedForwardHandler
//                          -> "exit=.. ms=.. reply <resp>" | ".. noreply"
//   rangemap <s>-<e> ...   CHILD process: RangeList::try_from + RangeMap::from(&list)
//                          -> "exit=.. ms=.. rangemap total=<bytes> probes=<contains_slot(0)>,<contains_slot(16383)>"
//   sess <seq> [/ <seq>]..  CHILD process (60 s timeout): each <seq> = <pre 0|1> <hex arg>.. runs on a FRESH proxy instance driven
//                          through the real Session + handle_session over loopback TCP, as ServerProxyService::run does:
//                          pre=1 first installs metadata (UMCTL SETCLUSTER, one local node owning every slot) on an admin
//                          connection; connection A sends the admin command <hex arg>..; then A (re-connected if the
//                          proxy closed it) and B each send PING, GET k, MGET a b, and a new connection C sends PING.
//                          -> per seq "adm=<r> A=<r>,<r>,<r> B=<r>,<r>,<r> C=<r> panics=<n>[ <first panic message>]"
//                          r = S:<text>|E|B|N|I|A<n>|closed|err|timeout
use crate::util::*;
use crate::{MAXREQ, NREQ, TOTAL, TRACK};
use arc_swap::ArcSwap;
use bytes::BytesMut;
use futures::channel::mpsc;
use futures::{Future, SinkExt, StreamExt, TryStreamExt};
use std::convert::TryFrom;
use std::net::SocketAddr;
use std::num::NonZeroUsize;
use std::os::unix::process::{CommandExt, ExitStatusExt};
use std::pin::Pin;
use std::sync::atomic::{AtomicBool, AtomicI64, AtomicU64, Ordering};
use std::sync::Arc;
use std::time::{Duration, Instant};
use undermoon::common::batch::BatchStrategy;
use undermoon::common::cluster::{RangeList, RangeMap};
use undermoon::common::track::TrackedFutureRegistry;
use undermoon::protocol::{
    new_simple_packet_codec, Array, BinSafeStr, BulkStr, DecodedPacket, OptionalMulti, RedisClient,
    RedisClientError, RedisClientFactory, Resp, RespCodec, RespIndex, RespPacket, RespVec,
};
use undermoon::proxy::backend::{BackendError, ConnFactory, ConnSink, ConnStream, CreateConnResult};
use undermoon::proxy::command::{new_command_pair, Command};
use undermoon::proxy::executor::SharedForwardHandler;
use undermoon::proxy::manager::MetaMap;
use undermoon::proxy::service::{ClusterNodesVersion, ServerProxyConfig};
use undermoon::proxy::session::{handle_session, CmdCtx, CmdCtxHandler, Session};
use undermoon::proxy::slowlog::SlowRequestLogger;

fn decode_word(input: &[u8]) -> String {
    let mut buf = BytesMut::from(input);
    match RespPacket::decode(&mut buf, ()) {
        Ok(Some(_)) => format!("ok {}", input.len() - buf.len()),
        Ok(None) => "need".to_string(),
        Err(_) => "invalid".to_string(),
    }
}

fn alloc_case(input: &[u8]) -> String {
    let mut buf = BytesMut::with_capacity(input.len() + 16);
    buf.extend_from_slice(input);
    TOTAL.store(0, Ordering::SeqCst);
    MAXREQ.store(0, Ordering::SeqCst);
    NREQ.store(0, Ordering::SeqCst);
    TRACK.with(|t| t.set(true));
    let r = RespPacket::decode(&mut buf, ());
    TRACK.with(|t| t.set(false));
    let total = TOTAL.load(Ordering::SeqCst);
    let max = MAXREQ.load(Ordering::SeqCst);
    let n = NREQ.load(Ordering::SeqCst);
    let word = match &r {
        Ok(Some(_)) => format!("ok {}", input.len() - buf.len()),
        Ok(None) => "need".to_string(),
        Err(_) => "invalid".to_string(),
    };
    format!("{} total={} max={} reqs={} elem={}", word, total, max, n, std::mem::size_of::<RespIndex>())
}

// ---------- a real proxy handler with stand-in backends (shape borrowed from harness/epoch) ----------

struct FakeConnFactory;
impl ConnFactory for FakeConnFactory {
    type Pkt = RespPacket;
    fn create_conn(&self, _addr: SocketAddr) -> Pin<Box<dyn Future<Output = CreateConnResult<Self::Pkt>> + Send>> {
        let (sender, receiver) = mpsc::unbounded();
        let receiver = receiver.map(move |_packet: RespPacket| Ok::<_, ()>(RespPacket::Data(Resp::Bulk(BulkStr::Str(b"v".to_vec())))));
        let sink: ConnSink<RespPacket> = Box::pin(sender.sink_map_err(|_| BackendError::Canceled));
        let stream: ConnStream<RespPacket> = Box::pin(receiver.map_err(|_| BackendError::Canceled));
        Box::pin(async { Ok((sink, stream)) })
    }
}

struct OkClient;
impl RedisClient for OkClient {
    fn execute<'s>(
        &'s mut self,
        command: OptionalMulti<Vec<BinSafeStr>>,
    ) -> Pin<Box<dyn Future<Output = Result<OptionalMulti<RespVec>, RedisClientError>> + Send + 's>> {
        let ok = || Resp::Simple(b"OK".to_vec());
        let res = match command {
            OptionalMulti::Single(_) => OptionalMulti::Single(ok()),
            OptionalMulti::Multi(cs) => OptionalMulti::Multi(cs.iter().map(|_| ok()).collect()),
        };
        Box::pin(async move { Ok(res) })
    }
}
struct OkClientFactory;
impl RedisClientFactory for OkClientFactory {
    type Client = OkClient;
    fn create_client<'s>(
        &'s self,
        _address: String,
    ) -> Pin<Box<dyn Future<Output = Result<Self::Client, RedisClientError>> + Send + 's>> {
        Box::pin(async move { Ok(OkClient) })
    }
}

type Handler = SharedForwardHandler<OkClientFactory, FakeConnFactory>;

struct Proxy {
    config: Arc<ServerProxyConfig>,
    logger: Arc<SlowRequestLogger>,
    handler: Handler,
}

fn new_proxy() -> Proxy {
    let host = "127.0.0.1";
    let self_addr = format!("{}:5299", host);
    let config = Arc::new(ServerProxyConfig {
        address: self_addr.clone(),
        announce_address: self_addr,
        announce_host: host.to_string(),
        slowlog_len: NonZeroUsize::new(16).unwrap(),
        slowlog_log_slower_than: AtomicI64::new(20000),
        slowlog_sample_rate: AtomicU64::new(1000),
        thread_number: NonZeroUsize::new(2).unwrap(),
        backend_conn_num: NonZeroUsize::new(1).unwrap(),
        active_redirection: false,
        max_redirections: None,
        default_redirection_address: None,
        backend_batch_strategy: BatchStrategy::Disabled,
        backend_flush_size: NonZeroUsize::new(1024).unwrap(),
        backend_low_flush_interval: Duration::from_nanos(200_000),
        backend_high_flush_interval: Duration::from_nanos(800_000),
        session_timeout: None,
        backend_timeout: Duration::from_secs(3),
        password: None,
        command_cluster_nodes_version: ClusterNodesVersion::V2,
    });
    let meta_map = Arc::new(ArcSwap::new(Arc::new(MetaMap::empty())));
    let (stopped, rx) = mpsc::unbounded();
    std::mem::forget(rx);
    let logger = Arc::new(SlowRequestLogger::new(config.clone()));
    let handler = SharedForwardHandler::new(
        config.clone(),
        Arc::new(OkClientFactory),
        logger.clone(),
        meta_map,
        Arc::new(FakeConnFactory),
        Arc::new(TrackedFutureRegistry::default()),
        stopped,
    );
    Proxy { config, logger, handler }
}

fn new_handler() -> Handler {
    new_proxy().handler
}

async fn send_cmd(handler: &Handler, elems: Vec<Vec<u8>>) -> Option<RespVec> {
    let resp = Resp::Arr(Array::Arr(elems.into_iter().map(|b| Resp::Bulk(BulkStr::Str(b))).collect()));
    let cmd = Command::new(Box::new(RespPacket::Data(resp)));
    let (s, r) = new_command_pair(&cmd);
    let ctx = CmdCtx::new(cmd, s, 0, false);
    let auth = AtomicBool::new(false);
    match handler.handle_cmd_ctx(ctx, r, &auth).await {
        Ok(reply) => Some(reply.into_resp_vec()),
        Err(_) => None,
    }
}

fn cmd_case(args: Vec<Vec<u8>>) -> String {
    let rt = tokio::runtime::Builder::new_current_thread().enable_all().build().expect("rt");
    rt.block_on(async move {
        let handler = new_handler();
        match tokio::time::timeout(Duration::from_secs(4), send_cmd(&handler, args)).await {
            Ok(Some(r)) => {
                let s = resp_to_string(&r);
                if s.len() > 300 {
                    format!("reply-long {}", &s[..60])
                } else {
                    format!("reply {}", s)
                }
            }
            Ok(None) => "noreply".to_string(),
            Err(_) => "pending".to_string(),
        }
    })
}

// ---------- the real session path over loopback TCP ----------

pub static PANICS: std::sync::atomic::AtomicUsize = std::sync::atomic::AtomicUsize::new(0);
pub static FIRST_PANIC: parking_lot::Mutex<Option<String>> = parking_lot::const_mutex(None);

type ClientFrame = tokio_util::codec::Framed<
    tokio::net::TcpStream,
    RespCodec<
        undermoon::protocol::SimplePacketEncoder<Box<RespPacket>>,
        undermoon::protocol::SimplePacketDecoder<Box<RespPacket>>,
    >,
>;

async fn connect(addr: SocketAddr) -> Option<ClientFrame> {
    let sock = match tokio::time::timeout(Duration::from_secs(2), tokio::net::TcpStream::connect(addr)).await {
        Ok(Ok(s)) => s,
        _ => return None,
    };
    let _ = sock.set_nodelay(true);
    let (e, d) = new_simple_packet_codec::<Box<RespPacket>, Box<RespPacket>>();
    Some(tokio_util::codec::Framed::new(sock, RespCodec::new(e, d)))
}

fn class(r: &RespVec) -> String {
    match r {
        Resp::Simple(s) => format!("S:{}", String::from_utf8_lossy(&s[..std::cmp::min(s.len(), 12)]).replace(' ', "_")),
        Resp::Error(_) => "E".to_string(),
        Resp::Integer(_) => "I".to_string(),
        Resp::Bulk(BulkStr::Str(_)) => "B".to_string(),
        Resp::Bulk(BulkStr::Nil) => "N".to_string(),
        Resp::Arr(Array::Nil) => "N".to_string(),
        Resp::Arr(Array::Arr(v)) => format!("A{}", v.len()),
    }
}

async fn exchange(frame: &mut Option<ClientFrame>, args: &[Vec<u8>]) -> String {
    let f = match frame.as_mut() {
        Some(f) => f,
        None => return "closed".to_string(),
    };
    let resp = Resp::Arr(Array::Arr(args.iter().map(|b| Resp::Bulk(BulkStr::Str(b.clone()))).collect()));
    if f.send(Box::new(RespPacket::Data(resp))).await.is_err() {
        *frame = None;
        return "closed".to_string();
    }
    match tokio::time::timeout(Duration::from_millis(2500), f.next()).await {
        Ok(Some(Ok(p))) => class(&p.to_resp_vec()),
        Ok(Some(Err(_))) => {
            *frame = None;
            "err".to_string()
        }
        Ok(None) => {
            *frame = None;
            "closed".to_string()
        }
        Err(_) => "timeout".to_string(),
    }
}

async fn run_seq(pre: bool, admin: Vec<Vec<u8>>) -> String {
    let p0 = PANICS.load(Ordering::SeqCst);
    let proxy = new_proxy();
    let listener = match tokio::net::TcpListener::bind("127.0.0.1:0").await {
        Ok(l) => l,
        Err(e) => return format!("bind-failed {}", e),
    };
    let addr = listener.local_addr().expect("addr");
    let (config, logger, handler) = (proxy.config.clone(), proxy.logger.clone(), proxy.handler);
    // the accept loop of ServerProxyService::run
    let acceptor = tokio::spawn(async move {
        let mut session_id = 0usize;
        loop {
            let sock = match listener.accept().await {
                Ok((s, _)) => s,
                Err(_) => break,
            };
            let _ = sock.set_nodelay(true);
            let session = Arc::new(Session::new(session_id, handler.clone(), logger.clone(), config.clone()));
            session_id += 1;
            tokio::spawn(async move {
                let _ = handle_session(session, sock, config_timeout()).await;
            });
        }
    });
    let b = |s: &str| s.as_bytes().to_vec();
    if pre {
        let mut m = connect(addr).await;
        let set = vec![b("UMCTL"), b("SETCLUSTER"), b("v2"), b("1"), b("NOFLAGS"), b("mydb"), b("127.0.0.1:7000"), b("1"), b("0-16383")];
        let r = exchange(&mut m, &set).await;
        if r != "S:OK" {
            acceptor.abort();
            return format!("pre-failed {}", r);
        }
    }
    let mut ca = connect(addr).await;
    let mut cb = connect(addr).await;
    let adm = exchange(&mut ca, &admin).await;
    if ca.is_none() {
        ca = connect(addr).await;
    }
    let ordinary: Vec<Vec<Vec<u8>>> = vec![vec![b("PING")], vec![b("GET"), b("k")], vec![b("MGET"), b("a"), b("b")]];
    let mut ra = vec![];
    let mut rb = vec![];
    for c in ordinary.iter() {
        ra.push(exchange(&mut ca, c).await);
        rb.push(exchange(&mut cb, c).await);
    }
    let mut cc = connect(addr).await;
    let rc = exchange(&mut cc, &ordinary[0]).await;
    acceptor.abort();
    let n = PANICS.load(Ordering::SeqCst) - p0;
    let msg = if n > 0 {
        format!(" {}", FIRST_PANIC.lock().clone().unwrap_or_default().replace('/', "|"))
    } else {
        String::new()
    };
    format!("adm={} A={} B={} C={} panics={}{}", adm, ra.join(","), rb.join(","), rc, n, msg)
}

fn config_timeout() -> Option<Duration> {
    None
}

fn sess_case(toks: Vec<&str>) -> String {
    let rt = tokio::runtime::Builder::new_multi_thread().worker_threads(2).thread_stack_size(2 << 20).enable_all().build().expect("rt");
    let mut outs = vec![];
    for seq in toks.split(|t| *t == "/") {
        if seq.is_empty() {
            continue;
        }
        let pre = seq[0] == "1";
        let admin: Vec<Vec<u8>> = seq[1..].iter().map(|h| unhex(h)).collect();
        *FIRST_PANIC.lock() = None;
        outs.push(rt.block_on(run_seq(pre, admin)));
    }
    rt.shutdown_timeout(Duration::from_millis(200));
    outs.join(" / ")
}

fn rangemap_case(spec: &[&str]) -> String {
    let s = format!("{} {}", spec.len(), spec.join(" "));
    let list = match RangeList::try_from(s.as_str()) {
        Ok(l) => l,
        Err(_) => return "rangemap invalid-list".to_string(),
    };
    TOTAL.store(0, Ordering::SeqCst);
    TRACK.with(|t| t.set(true));
    let m = RangeMap::from(&list);
    TRACK.with(|t| t.set(false));
    let total = TOTAL.load(Ordering::SeqCst);
    format!("rangemap total={} probes={},{}", total, m.contains_slot(0), m.contains_slot(16383))
}

fn run_direct(line: &str) -> String {
    let mut it = line.split_whitespace();
    match it.next() {
        Some("alloc") => alloc_case(&unhex(it.next().unwrap_or("-"))),
        Some("hostile") => decode_word(&unhex(it.next().unwrap_or("-"))),
        Some("cmd") => cmd_case(it.map(unhex).collect()),
        Some("rangemap") => rangemap_case(&it.collect::<Vec<_>>()),
        Some("sess") => sess_case(it.collect::<Vec<_>>()),
        other => format!("unknown-kind {:?}", other),
    }
}

// child process: one case on a thread with a 2 MiB stack (the size of a tokio worker stack)
pub fn child_main(line: &str) {
    std::panic::set_hook(Box::new(|info| {
        PANICS.fetch_add(1, Ordering::SeqCst);
        let mut g = FIRST_PANIC.lock();
        if g.is_none() {
            let loc = info.location().map(|l| format!("{}:{}", l.file(), l.line())).unwrap_or_default();
            let msg = if let Some(s) = info.payload().downcast_ref::<&str>() {
                s.to_string()
            } else if let Some(s) = info.payload().downcast_ref::<String>() {
                s.clone()
            } else {
                "?".to_string()
            };
            *g = Some(format!("{} at {}", msg, loc).replace('\n', " "));
        }
    }));
    let l = line.to_string();
    let h = std::thread::Builder::new()
        .stack_size(2 << 20)
        .spawn(move || match std::panic::catch_unwind(move || run_direct(&l)) {
            Ok(s) => s,
            Err(e) => {
                let msg = if let Some(s) = e.downcast_ref::<&str>() {
                    s.to_string()
                } else if let Some(s) = e.downcast_ref::<String>() {
                    s.clone()
                } else {
                    "?".to_string()
                };
                format!("panic {}", msg.replace('\n', " "))
            }
        })
        .expect("spawn");
    let out = h.join().unwrap_or_else(|_| "panic thread".to_string());
    println!("{}", out);
}

fn in_child(line: &str, timeout_ms: u64) -> String {
    let exe = std::env::current_exe().expect("exe");
    let mut cmd = std::process::Command::new(exe);
    cmd.arg("--child")
        .stdin(std::process::Stdio::piped())
        .stdout(std::process::Stdio::piped())
        .stderr(std::process::Stdio::null());
    // address-space limit: 2 GiB, or for a larger hostile buffer the proved allocation bound of the decoder (Props/C16.v
    // C16_alloc_linear: 4128 * len + 40 bytes) plus 1 GiB for the process itself - a request beyond the bound still aborts the child
    let as_limit: u64 = (2u64 << 30).max(4128 * (line.len() as u64 / 2) + (1u64 << 30));
    unsafe {
        cmd.pre_exec(move || {
            let lim = libc::rlimit { rlim_cur: as_limit, rlim_max: as_limit };
            libc::setrlimit(libc::RLIMIT_AS, &lim);
            let core = libc::rlimit { rlim_cur: 0, rlim_max: 0 };
            libc::setrlimit(libc::RLIMIT_CORE, &core);
            Ok(())
        });
    }
    let t0 = Instant::now();
    let mut child = match cmd.spawn() {
        Ok(c) => c,
        Err(e) => return format!("exit=spawn-failed {}", e),
    };
    if let Some(mut si) = child.stdin.take() {
        use std::io::Write;
        let _ = si.write_all(line.as_bytes());
        let _ = si.write_all(b"\n");
    }
    let status;
    loop {
        match child.try_wait() {
            Ok(Some(st)) => {
                status = if st.success() {
                    "ok".to_string()
                } else if let Some(sig) = st.signal() {
                    format!("signal:{}", sig)
                } else {
                    format!("code:{}", st.code().unwrap_or(-1))
                };
                break;
            }
            Ok(None) => {
                if t0.elapsed() > Duration::from_millis(timeout_ms) {
                    let _ = child.kill();
                    let _ = child.wait();
                    status = "timeout".to_string();
                    break;
                }
                std::thread::sleep(Duration::from_millis(3));
            }
            Err(_) => {
                status = "wait-failed".to_string();
                break;
            }
        }
    }
    let ms = t0.elapsed().as_millis();
    let mut out = String::new();
    if let Some(mut so) = child.stdout.take() {
        use std::io::Read;
        let _ = so.read_to_string(&mut out);
    }
    format!("exit={} ms={} {}", status, ms, out.trim().replace('\n', " | "))
}

pub fn run_case(_rt: &tokio::runtime::Runtime, line: &str) -> String {
    let kind = line.split_whitespace().next().unwrap_or("");
    match kind {
        "alloc" => run_direct(line),
        // 15 s, plus 1 s per 10 KB of input (reading and hex-decoding a MB-sized line in an unoptimised build on a loaded machine)
        "hostile" | "cmd" | "rangemap" => in_child(line, 15000 + (line.len() as u64 / 20)),
        "sess" => in_child(line, 60000),
        _ => format!("unknown-kind {}", kind),
    }
}
