// umh: drives the real undermoon code on case lines read from stdin; one canonical result line per case.
mod ttl;
mod util;

use std::io::{self, BufRead, Write};

fn main() {
    let args: Vec<String> = std::env::args().collect();
    if args.len() < 2 {
        eprintln!("usage: umh <domain>");
        std::process::exit(2);
    }
    let domain = args[1].as_str();
    let stdin = io::stdin();
    let stdout = io::stdout();
    let mut out = io::BufWriter::new(stdout.lock());
    let rt = tokio::runtime::Builder::new_multi_thread()
        .worker_threads(2)
        .enable_all()
        .build()
        .expect("runtime");
    for line in stdin.lock().lines() {
        let line = line.expect("line");
        let line = line.trim();
        if line.is_empty() || line.starts_with('#') {
            continue;
        }
        let res = match domain {
            "ttl" => ttl::run_case(&rt, line),
            _ => {
                eprintln!("unknown domain {}", domain);
                std::process::exit(2);
            }
        };
        writeln!(out, "{}", res).expect("write");
    }
    out.flush().expect("flush");
}
