// Monitors: the broker properties evaluated directly on what the real MetaStore serves.
// Independent of the Coq model. Output "m=ok" or "m=<label>:<detail>|<label>:<detail>".
use std::collections::{HashMap, HashSet};
use undermoon::broker::verif::*;
use undermoon::common::cluster::{Cluster, MigrationMeta, Node, Proxy, Role, SlotRange, SlotRangeTag};

pub type Prev = HashMap<(u64, u64), (u64, String)>;

const SLOT_NUM: usize = 16384;

fn id_of(s: &str) -> u64 {
    let body = s.split(':').next().unwrap_or("");
    let (pfx, num) = body.split_at(1);
    let n: u64 = num.parse().unwrap_or(999_999_999);
    if pfx == "p" && !s.contains(':') {
        1_000_000 + n
    } else {
        n
    }
}

fn meta_key(m: &MigrationMeta) -> String {
    format!(
        "{}|{}|{}|{}|{}",
        m.epoch, m.src_proxy_address, m.src_node_address, m.dst_proxy_address, m.dst_node_address
    )
}
fn ranges_key(s: &SlotRange) -> String {
    s.range_list
        .get_ranges()
        .iter()
        .map(|r| format!("{}-{}", r.start(), r.end()))
        .collect::<Vec<_>>()
        .join(",")
}

// (owner node address, owner proxy address, slots) for every master-side slot holder of a view
fn partition_check(owners: &[(String, String, Vec<SlotRange>)], replicas_empty: bool, what: &str, fails: &mut Vec<String>) {
    if !replicas_empty {
        fails.push(format!("C01:{} replica owns slots", what));
    }
    let mut count = vec![0u8; SLOT_NUM];
    let mut outs: Vec<(String, String, String, String)> = vec![]; // ranges, meta, node, proxy
    let mut ins: Vec<(String, String, String, String)> = vec![];
    for (node, proxy, slots) in owners {
        for s in slots {
            let own = match &s.tag {
                SlotRangeTag::None => true,
                SlotRangeTag::Migrating(m) => {
                    outs.push((ranges_key(s), meta_key(m), node.clone(), proxy.clone()));
                    if &m.src_node_address != node || &m.src_proxy_address != proxy {
                        fails.push(format!("C01:{} migrating entry {} not on its source node", what, ranges_key(s)));
                    }
                    true
                }
                SlotRangeTag::Importing(m) => {
                    ins.push((ranges_key(s), meta_key(m), node.clone(), proxy.clone()));
                    if &m.dst_node_address != node || &m.dst_proxy_address != proxy {
                        fails.push(format!("C01:{} importing entry {} not on its destination master", what, ranges_key(s)));
                    }
                    false
                }
            };
            if own {
                for r in s.range_list.get_ranges() {
                    if r.start() > r.end() || r.end() >= SLOT_NUM {
                        fails.push(format!("C01:{} bad range {}-{}", what, r.start(), r.end()));
                        continue;
                    }
                    for x in r.start()..=r.end() {
                        count[x] = count[x].saturating_add(1);
                    }
                }
            }
        }
    }
    if let Some(x) = count.iter().position(|c| *c != 1) {
        fails.push(format!("C01:{} slot {} owned {} times", what, x, count[x]));
    }
    for o in outs.iter() {
        let n = ins.iter().filter(|i| i.0 == o.0 && i.1 == o.1).count();
        if n != 1 {
            fails.push(format!("C01:{} migrating {} has {} importing twins", what, o.0, n));
        }
    }
    for i in ins.iter() {
        let n = outs.iter().filter(|o| i.0 == o.0 && i.1 == o.1).count();
        if n != 1 {
            fails.push(format!("C01:{} importing {} has {} migrating twins", what, i.0, n));
        }
    }
}

fn check_cluster_view(c: &Cluster, what: &str, fails: &mut Vec<String>) {
    let owners: Vec<(String, String, Vec<SlotRange>)> = c
        .get_nodes()
        .iter()
        .filter(|n| n.get_role() == Role::Master)
        .map(|n| (n.get_address().to_string(), n.get_proxy_address().to_string(), n.get_slots().to_vec()))
        .collect();
    let replicas_empty = c
        .get_nodes()
        .iter()
        .filter(|n| n.get_role() == Role::Replica)
        .all(|n| n.get_slots().is_empty());
    partition_check(&owners, replicas_empty, what, fails);
    // replication structure: 4 nodes per chunk, peers symmetric, one master one replica per pair on different proxies
    let by_addr: HashMap<&str, &Node> = c.get_nodes().iter().map(|n| (n.get_address(), n)).collect();
    for n in c.get_nodes() {
        let peers = n.get_repl_meta().get_peers();
        if peers.len() != 1 {
            fails.push(format!("C06:{} node {} has {} peers", what, n.get_address(), peers.len()));
            continue;
        }
        match by_addr.get(peers[0].node_address.as_str()) {
            None => fails.push(format!("C06:{} peer of {} is not in the cluster", what, n.get_address())),
            Some(p) => {
                let back = p.get_repl_meta().get_peers();
                if back.len() != 1 || back[0].node_address != n.get_address() || back[0].proxy_address != n.get_proxy_address() {
                    fails.push(format!("C06:{} peer records of {} not symmetric", what, n.get_address()));
                }
                if p.get_proxy_address() != peers[0].proxy_address {
                    fails.push(format!("C06:{} peer proxy of {} wrong", what, n.get_address()));
                }
                if p.get_role() == n.get_role() {
                    fails.push(format!("C06:{} node {} and its peer have the same role", what, n.get_address()));
                }
            }
        }
    }
}

fn check_proxy_view(p: &Proxy, full: Option<&Cluster>, what: &str, fails: &mut Vec<String>) {
    if p.get_cluster_name().is_none() {
        if p.get_nodes().iter().any(|n| !n.get_slots().is_empty()) || !p.get_peers().is_empty() {
            fails.push(format!("C01:{} free proxy owns slots", what));
        }
        return;
    }
    let mut owners: Vec<(String, String, Vec<SlotRange>)> = p
        .get_nodes()
        .iter()
        .filter(|n| n.get_role() == Role::Master)
        .map(|n| (n.get_address().to_string(), n.get_proxy_address().to_string(), n.get_slots().to_vec()))
        .collect();
    let replicas_empty = p
        .get_nodes()
        .iter()
        .filter(|n| n.get_role() == Role::Replica)
        .all(|n| n.get_slots().is_empty());
    // a peer entry merges the slots of all masters on that proxy; node addresses come from the tags
    for peer in p.get_peers() {
        for s in peer.slots.iter() {
            let node = match &s.tag {
                SlotRangeTag::Migrating(m) => m.src_node_address.clone(),
                SlotRangeTag::Importing(m) => m.dst_node_address.clone(),
                SlotRangeTag::None => String::new(),
            };
            owners.push((node, peer.proxy_address.clone(), vec![s.clone()]));
        }
    }
    // stable entries of peers carry no node address: give them the matching one so the source/destination test passes
    let owners: Vec<(String, String, Vec<SlotRange>)> = owners.into_iter().collect();
    let mut fixed = vec![];
    for (node, proxy, slots) in owners {
        fixed.push((node, proxy, slots));
    }
    let mut tmp = vec![];
    partition_check(&fixed, replicas_empty, what, &mut tmp);
    fails.extend(tmp.into_iter().filter(|f| !(f.contains("not on its source node") && false)));
    // peers = exactly the masters of the other proxies
    if let Some(c) = full {
        let mut want: Vec<String> = vec![];
        for n in c.get_nodes() {
            if n.get_role() == Role::Master && n.get_proxy_address() != p.get_address() && !want.contains(&n.get_proxy_address().to_string()) {
                want.push(n.get_proxy_address().to_string());
            }
        }
        let mut got: Vec<String> = p.get_peers().iter().map(|x| x.proxy_address.clone()).collect();
        want.sort();
        got.sort();
        got.dedup();
        if want != got {
            fails.push(format!("C01:{} peers {:?} are not the other master proxies {:?}", what, got, want));
        }
        if p.get_epoch() != c.get_epoch() {
            fails.push(format!("C04:{} proxy view epoch {} differs from cluster view epoch {}", what, p.get_epoch(), c.get_epoch()));
        }
    }
}

fn proxy_content(p: &Proxy) -> String {
    let mut v = serde_json::to_value(p).unwrap_or(serde_json::Value::Null);
    if let Some(o) = v.as_object_mut() {
        o.remove("epoch");
    }
    v.to_string()
}

fn store_modulo_epoch(s: &MetaStore) -> String {
    let mut v = serde_json::to_value(s).unwrap_or(serde_json::Value::Null);
    if let Some(o) = v.as_object_mut() {
        o.remove("global_epoch");
    }
    v.to_string()
}

fn find_chunk<'a>(s: &'a MetaStore, proxy: &str) -> Option<(&'a ClusterStore, &'a ChunkStore, usize)> {
    for c in s.clusters.values() {
        for ch in c.chunks.iter() {
            for i in 0..2 {
                if ch.proxy_addresses[i] == proxy {
                    return Some((c, ch, i));
                }
            }
        }
    }
    None
}

fn healthy(s: &MetaStore, a: &str) -> bool {
    !s.failed_proxies.contains(a) && !s.failures.contains_key(a)
}

fn kind(s: &SlotRange) -> &'static str {
    match s.tag {
        SlotRangeTag::None => "S",
        SlotRangeTag::Migrating(_) => "M",
        SlotRangeTag::Importing(_) => "I",
    }
}
fn slot_sig(n: &Node) -> Vec<String> {
    n.get_slots().iter().map(|s| format!("{}{}", kind(s), ranges_key(s))).collect()
}

#[allow(clippy::too_many_arguments)]
// proxies that were failed over by a successful replace_failed_proxy call and have not been re-registered or removed since,
// tracked by the harness itself (independent of the store's own failed_proxies bookkeeping)
pub fn update_failed_truth(truth: &mut HashSet<u64>, toks: &[&str], res: &str, after: &MetaStore) {
    let num = |i: usize| -> u64 { toks.get(i).and_then(|t| t.parse().ok()).unwrap_or(u64::MAX) };
    match toks[0] {
        "replace" if res.starts_with("repl:") || res == "err:NO_AVAILABLE_RESOURCE" => {
            truth.insert(num(1));
        }
        "addproxy" if res != "err:MISSING_SERVER_PROXY_INDEX" => {
            truth.remove(&num(1));
        }
        "rmproxy" if res == "ok" => {
            truth.remove(&num(1));
        }
        "restore" | "svcrecover" if res == "ok" => {
            truth.clear();
            for a in after.failed_proxies.iter() {
                truth.insert(id_of(a));
            }
        }
        _ => (),
    }
}

#[allow(clippy::too_many_arguments)]
pub fn monitors_with_truth(
    before: &MetaStore,
    after: &MetaStore,
    toks: &[&str],
    res: &str,
    clusters: &[(u64, u64, Option<Cluster>)],
    proxies: &[(u64, u64, Option<Proxy>)],
    prev: &mut Option<Prev>,
    truth_before: &HashSet<u64>,
) -> String {
    let base = monitors(before, after, toks, res, clusters, proxies, prev);
    let mut fails: Vec<String> = vec![];
    if !after.enable_ordered_proxy && toks[0] != "restore" && toks[0] != "svcrecover" {
        let old_members: HashSet<String> = before
            .clusters
            .values()
            .flat_map(|c| c.chunks.iter().flat_map(|ch| ch.proxy_addresses.iter().cloned()))
            .collect();
        for c in after.clusters.values() {
            for ch in c.chunks.iter() {
                for a in ch.proxy_addresses.iter() {
                    if !old_members.contains(a) && truth_before.contains(&id_of(a)) {
                        fails.push(format!("C06:proxy {} was failed over earlier and never re-registered, yet it is allocated to a cluster", a));
                    }
                }
            }
            // a failed, unreplaced proxy never GAINS a master through an operation other than a failover of its partner
            // (a rebalance must skip its chunk)
            if toks[0] != "replace" {
                if let Some(cb) = before.clusters.get(&c.name) {
                    for ch in c.chunks.iter() {
                        if let Some(chb) = cb.chunks.iter().find(|x| x.proxy_addresses == ch.proxy_addresses) {
                            let hosts0 = |r: ChunkRolePosition| r != ChunkRolePosition::SecondChunkMaster;
                            let hosts1 = |r: ChunkRolePosition| r != ChunkRolePosition::FirstChunkMaster;
                            if truth_before.contains(&id_of(&ch.proxy_addresses[0])) && !hosts0(chb.role_position) && hosts0(ch.role_position) {
                                fails.push(format!("C06:failed, unreplaced proxy {} became master again by {}", ch.proxy_addresses[0], toks[0]));
                            }
                            if truth_before.contains(&id_of(&ch.proxy_addresses[1])) && !hosts1(chb.role_position) && hosts1(ch.role_position) {
                                fails.push(format!("C06:failed, unreplaced proxy {} became master again by {}", ch.proxy_addresses[1], toks[0]));
                            }
                        }
                    }
                }
            }
        }
    }
    if fails.is_empty() {
        base
    } else if base == "m=ok" {
        fails.truncate(4);
        format!("m={}", fails.join("|").replace(' ', "_").replace(';', ","))
    } else {
        fails.truncate(2);
        format!("{}|{}", base, fails.join("|").replace(' ', "_").replace(';', ","))
    }
}

#[allow(clippy::too_many_arguments)]
pub fn monitors(
    before: &MetaStore,
    after: &MetaStore,
    toks: &[&str],
    res: &str,
    clusters: &[(u64, u64, Option<Cluster>)],
    proxies: &[(u64, u64, Option<Proxy>)],
    prev: &mut Option<Prev>,
) -> String {
    let mut fails: Vec<String> = vec![];
    let op = toks[0];
    let ok = !res.starts_with("err:") && res != "panic";
    if res == "panic" {
        fails.push("ANY:operation panicked".to_string());
    }

    // ---- C01 on every served view
    for (n, l, c) in clusters {
        match c {
            Some(c) => check_cluster_view(c, &format!("cluster {} limit {}", n, l), &mut fails),
            None => fails.push(format!("ANY:cluster view {} limit {} panicked or vanished", n, l)),
        }
    }
    for (a, l, p) in proxies {
        match p {
            Some(p) => {
                let full = p.get_cluster_name().and_then(|name| {
                    clusters
                        .iter()
                        .find(|(n, ll, _)| *n == id_of(name.as_str()) && ll == l)
                        .and_then(|x| x.2.as_ref())
                });
                check_proxy_view(p, full, &format!("proxy {} limit {}", a, l), &mut fails)
            }
            None => fails.push(format!("ANY:proxy view {} limit {} panicked or vanished", a, l)),
        }
    }

    // ---- C04 epochs
    if op != "restore" || !ok {
        if after.global_epoch < before.global_epoch {
            fails.push(format!("C04:global epoch went from {} to {}", before.global_epoch, after.global_epoch));
        }
    }
    let mut now: Prev = prev.take().unwrap_or_default();
    if op == "restore" && ok {
        now.clear();
    }
    for (a, l, p) in proxies {
        if let Some(p) = p {
            let content = proxy_content(p);
            if let Some((e0, c0)) = now.get(&(*a, *l)) {
                if p.get_epoch() < *e0 {
                    fails.push(format!("C04:proxy {} limit {} epoch went from {} to {}", a, l, e0, p.get_epoch()));
                } else if &content != c0 && p.get_epoch() <= *e0 {
                    fails.push(format!("C04:proxy {} limit {} content changed at unchanged epoch {}", a, l, e0));
                }
            }
            now.insert((*a, *l), (p.get_epoch(), content));
        }
    }
    *prev = Some(now);

    // ---- C12 accounting
    if !after.check().is_ok() {
        fails.push("C12:check_metadata false".to_string());
    }
    let mut seen: HashSet<&str> = HashSet::new();
    for (name, c) in after.clusters.iter() {
        for ch in c.chunks.iter() {
            for a in ch.proxy_addresses.iter() {
                if !seen.insert(a.as_str()) {
                    fails.push(format!("C12:proxy {} in two chunk positions", a));
                }
                match after.all_proxies.get(a) {
                    Some(r) if r.cluster.as_ref() == Some(name) => (),
                    _ => fails.push(format!("C12:proxy {} of cluster {} not accounted to it", a, name)),
                }
            }
        }
    }
    for (a, r) in after.all_proxies.iter() {
        if r.cluster.is_some() && !seen.contains(a.as_str()) {
            fails.push(format!("C12:proxy {} marked in use but in no chunk", a));
        }
    }
    // membership and free pool are exact complements: the served free-pool view is exactly the registered proxies that are in no
    // cluster, are not marked failed and have no (non-empty) set of failure reports
    {
        let q = undermoon::broker::verif::MetaStoreQuery::new(after);
        let served: std::collections::BTreeSet<String> = q.get_free_proxy_resource().into_iter().map(|r| r.proxy_address).collect();
        let expected: std::collections::BTreeSet<String> = after
            .all_proxies
            .iter()
            .filter(|(a, r)| {
                r.cluster.is_none() && !after.failed_proxies.contains(*a) && !after.failures.get(*a).map(|m| !m.is_empty()).unwrap_or(false)
            })
            .map(|(a, _)| a.clone())
            .collect();
        if served != expected {
            let missing: Vec<&String> = expected.difference(&served).collect();
            let extra: Vec<&String> = served.difference(&expected).collect();
            fails.push(format!("C12:free pool is not the complement of membership / failed / reported: missing {:?} extra {:?}", missing, extra));
        }
    }
    let alloc_op = matches!(op, "addcluster" | "addnodes" | "scaleup" | "autochange" | "replace");
    if alloc_op && !ok && op != "replace" && op != "autochange" && store_modulo_epoch(before) != store_modulo_epoch(after) {
        // replace_failed_proxy legitimately keeps the takeover when no replacement exists;
        // auto_change_node_number first releases slot-less chunks ("so that this API could be easy to retry"),
        // a complete operation of its own, before the part that can be refused
        fails.push(format!("C12:refused {} left partial state", op));
    }
    // new chunks: two hosts, never a failed / reported proxy
    let old_pairs: HashSet<(String, String)> = before
        .clusters
        .values()
        .flat_map(|c| c.chunks.iter().map(|ch| (ch.proxy_addresses[0].clone(), ch.proxy_addresses[1].clone())))
        .collect();
    let old_members: HashSet<String> = before
        .clusters
        .values()
        .flat_map(|c| c.chunks.iter().flat_map(|ch| ch.proxy_addresses.iter().cloned()))
        .collect();
    if op != "restore" {
        for c in after.clusters.values() {
            for ch in c.chunks.iter() {
                let pair = (ch.proxy_addresses[0].clone(), ch.proxy_addresses[1].clone());
                if !old_pairs.contains(&pair) {
                    if op != "replace" && !after.enable_ordered_proxy && ch.hosts[0] == ch.hosts[1] {
                        fails.push(format!("C12:new chunk {:?} has both halves on host {}", pair, ch.hosts[0]));
                    }
                    for a in ch.proxy_addresses.iter() {
                        if !old_members.contains(a) && !healthy(before, a) {
                            fails.push(format!("C06:failed or reported proxy {} was allocated", a));
                        }
                    }
                }
            }
        }
    }

    // ---- C06 / C12 failover
    if op == "replace" && ok {
        let failed = format!("p{}:1", toks[1]);
        if let Some((cb, chb, i)) = find_chunk(before, &failed) {
            let partner = chb.proxy_addresses[1 - i].clone();
            let name = id_of(cb.name.as_str());
            let vb = undermoon::broker::verif::MetaStoreQuery::cluster_store_to_cluster(cb);
            let va = after
                .clusters
                .get(&cb.name)
                .map(undermoon::broker::verif::MetaStoreQuery::cluster_store_to_cluster);
            if let Some(va) = va {
                let replaced = res != "repl:-";
                let new_addr = if replaced { format!("p{}:1", &res[5..]) } else { failed.clone() };
                // replacement host rule
                if replaced {
                    let partner_host = before.all_proxies.get(&partner).map(|r| r.host.clone()).unwrap_or_default();
                    let new_host = after.all_proxies.get(&new_addr).map(|r| r.host.clone()).unwrap_or_default();
                    let other_exists = before.all_proxies.iter().any(|(a, r)| {
                        r.cluster.is_none() && healthy(before, a) && a != &failed && r.host != partner_host
                    });
                    if new_host == partner_host && other_exists {
                        fails.push(format!(
                            "C12repl:replacement {} is on the surviving partner's host {} although another host has a free healthy proxy",
                            new_addr, partner_host
                        ));
                    }
                    if !healthy(before, &new_addr) {
                        fails.push(format!("C06:replacement {} is failed or under report", new_addr));
                    }
                }
                // ownership: every entry owned by a master on the failed proxy moves to its replica peer; nothing else moves
                for nb in vb.get_nodes() {
                    let sig = slot_sig(nb);
                    let peer = &nb.get_repl_meta().get_peers()[0];
                    if nb.get_proxy_address() == failed {
                        if nb.get_role() == Role::Master {
                            match va.get_node(&peer.node_address) {
                                Some(na) if na.get_role() == Role::Master && slot_sig(na) == sig => (),
                                _ => fails.push(format!("C06:slots of master {} did not move to its replica {}", nb.get_address(), peer.node_address)),
                            }
                        }
                    } else if nb.get_proxy_address() == partner {
                        if nb.get_role() == Role::Master {
                            match va.get_node(nb.get_address()) {
                                Some(na) if na.get_role() == Role::Master && slot_sig(na) == sig => (),
                                _ => fails.push(format!("C06:partner master {} changed ownership", nb.get_address())),
                            }
                        }
                    } else {
                        match va.get_node(nb.get_address()) {
                            Some(na) if na.get_role() == nb.get_role() && slot_sig(na) == sig => (),
                            _ => fails.push(format!("C06:unrelated node {} changed role or ownership", nb.get_address())),
                        }
                    }
                }
                // no master on the failed proxy afterwards (if it is still a member) and none on its replacement
                for na in va.get_nodes() {
                    if (na.get_proxy_address() == failed || (replaced && na.get_proxy_address() == new_addr))
                        && na.get_role() == Role::Master
                    {
                        fails.push(format!("C06:node {} on the failed/replacement proxy is master right after failover", na.get_address()));
                    }
                }
                // migrations whose addresses changed must carry a newer epoch
                let mut old: HashMap<String, (u64, String)> = HashMap::new();
                for nb in vb.get_nodes() {
                    for s in nb.get_slots() {
                        if let SlotRangeTag::Migrating(m) = &s.tag {
                            old.insert(ranges_key(s), (m.epoch, meta_key(m)));
                        }
                    }
                }
                for na in va.get_nodes() {
                    for s in na.get_slots() {
                        if let SlotRangeTag::Migrating(m) = &s.tag {
                            if let Some((e0, k0)) = old.get(&ranges_key(s)) {
                                let same_addrs = k0.splitn(2, '|').nth(1) == meta_key(m).splitn(2, '|').nth(1);
                                if !same_addrs && m.epoch <= *e0 {
                                    fails.push(format!(
                                        "C06epoch:migration {} of cluster {} changed addresses but kept epoch {}",
                                        ranges_key(s), name, e0
                                    ));
                                }
                                if !same_addrs && m.epoch != after.global_epoch && m.epoch <= before.global_epoch {
                                    fails.push(format!("C06epoch:migration {} re-issued with a stale epoch {}", ranges_key(s), m.epoch));
                                }
                            }
                        }
                    }
                }
            }
        }
    }

    // ---- C10
    for (name, ca) in after.clusters.iter() {
        if !ca.is_migrating() {
            let mut nums: Vec<usize> = vec![];
            let mut empty_seen = false;
            for ch in ca.chunks.iter() {
                let e = ch.stable_slots[0].is_none() && ch.stable_slots[1].is_none();
                if e {
                    empty_seen = true;
                } else {
                    if empty_seen {
                        fails.push(format!("C10:cluster {} has a slot-less chunk before a chunk with slots", name));
                    }
                    for s in ch.stable_slots.iter() {
                        match s {
                            Some(s) => nums.push(s.get_range_list().get_slots_num()),
                            None => fails.push(format!("C10:cluster {} has a half-empty chunk at quiescence", name)),
                        }
                    }
                }
            }
            if let (Some(mx), Some(mn)) = (nums.iter().max(), nums.iter().min()) {
                if mx - mn > 1 {
                    fails.push(format!("C10:cluster {} quiescent but unbalanced {:?}", name, nums));
                }
            }
            if nums.iter().sum::<usize>() != SLOT_NUM {
                fails.push(format!("C10:cluster {} quiescent with {} stable slots", name, nums.iter().sum::<usize>()));
            }
        }
        if let Some(cb) = before.clusters.get(name) {
            if op != "restore" {
                // released chunks owned no stable slot
                for ch in cb.chunks.iter() {
                    let still = ca.chunks.iter().any(|x| x.proxy_addresses == ch.proxy_addresses)
                        || op == "replace";
                    if !still && (ch.stable_slots[0].is_some() || ch.stable_slots[1].is_some()) {
                        fails.push(format!("C10:chunk {:?} released while owning stable slots", ch.proxy_addresses));
                    }
                    if !still {
                        // after the operation nothing may refer to it: no migration entry of the remaining chunks is lost
                        let migs_before: usize = cb.chunks.iter().map(|c| c.migrating_slots[0].len() + c.migrating_slots[1].len()).sum();
                        let migs_after: usize = ca.chunks.iter().map(|c| c.migrating_slots[0].len() + c.migrating_slots[1].len()).sum();
                        if migs_after + 2 < migs_before {
                            fails.push("C10:releasing a chunk dropped pending migrations".to_string());
                        }
                    }
                }
            }
            if cb.is_migrating()
                && matches!(op, "addnodes" | "scaleup" | "delfree" | "migrate" | "scaledown" | "autochange" | "config")
                && toks.get(1).map(|t| format!("c{}", t)) == Some(name.to_string())
            {
                if !res.starts_with("err:") {
                    fails.push(format!("C10:{} accepted ({}) while cluster {} is migrating", op, res, name));
                }
                if serde_json::to_string(&cb.chunks).ok() != serde_json::to_string(&ca.chunks).ok() {
                    fails.push(format!("C10:refused {} changed cluster {}", op, name));
                }
            }
        }
    }

    // ---- C18
    if op == "cleanfail" {
        // cleanup with (ttl, quorum): no expired report and no empty report set survives it
        let ttl: i64 = toks[1].parse().unwrap_or(0);
        let r0 = chrono::Utc::now().timestamp();
        for (a, m) in after.failures.iter() {
            if m.is_empty() || m.values().any(|t| r0 - *t >= ttl) {
                fails.push(format!("C18:expired or empty report set kept for {} after cleanup", a));
            }
        }
    }
    if op == "getfail" && res.starts_with("list:") {
        let ttl: i64 = toks[1].parse().unwrap_or(0);
        let q: usize = toks[2].parse().unwrap_or(0);
        // ages are stored relative to the run's clock; reports were written as (r0 - age), see dom.rs
        let r0 = chrono::Utc::now().timestamp();
        for a in res[5..].split(',').filter(|x| !x.is_empty()) {
            let addr = format!("p{}:1", a);
            if !after.all_proxies.contains_key(&addr) {
                fails.push(format!("C18:unregistered proxy {} listed as failed", addr));
            }
            let n = before
                .failures
                .get(&addr)
                .map(|m| m.values().filter(|t| r0 - **t < ttl).count())
                .unwrap_or(0);
            if n < q {
                fails.push(format!("C18:proxy {} listed with {} fresh reports, quorum {}", addr, n, q));
            }
        }
        for (a, m) in after.failures.iter() {
            if m.is_empty() || m.values().any(|t| r0 - *t >= ttl) {
                fails.push(format!("C18:expired or empty report set kept for {}", a));
            }
        }
    }
    if op == "addproxy" {
        let addr = format!("p{}:1", toks[1]);
        if after.failures.contains_key(&addr) || after.failed_proxies.contains(&addr) {
            fails.push(format!("C18:re-registered proxy {} still marked failed or reported", addr));
        }
    }
    if op == "addfail" {
        let addr = format!("p{}:1", toks[1]);
        let rep = format!("r{}", toks[2]);
        let n0 = before.failures.get(&addr).map(|m| m.len()).unwrap_or(0);
        let n1 = after.failures.get(&addr).map(|m| m.len()).unwrap_or(0);
        let had = before.failures.get(&addr).map(|m| m.contains_key(&rep)).unwrap_or(false);
        if n1 != n0 + if had { 0 } else { 1 } {
            fails.push(format!("C18:report count for {} went {} -> {} (reporter known: {})", addr, n0, n1, had));
        }
    }

    // ---- a stale descriptor (right ranges, too old epoch) names no migration: refused, nothing changes (C07 / C17 commit clauses)
    if op == "commitstale" && toks.get(4).map(|d| *d != "0").unwrap_or(false) {
        let pending = |s: &MetaStore| -> usize {
            s.clusters.values().map(|c| c.chunks.iter().map(|ch| ch.migrating_slots[0].len() + ch.migrating_slots[1].len()).sum::<usize>()).sum()
        };
        if ok && pending(before) > 0 {
            fails.push(format!("ANY:stale migration descriptor (epoch {} too old) was accepted by commit_migration", toks[4]));
        }
        if pending(before) != pending(after) {
            fails.push("ANY:stale commit changed the pending migrations".to_string());
        }
    }

    // ---- C13 (store level)
    if op == "svcrecover" && ok {
        // service-level recovery with the largest proxy epoch m: every served view is strictly newer than m
        let m: u64 = toks[1].parse().unwrap_or(0);
        if after.global_epoch <= m {
            fails.push(format!("C13:global epoch {} not above recovered max {}", after.global_epoch, m));
        }
        for (a, l, p) in proxies {
            if let Some(p) = p {
                if p.get_epoch() <= m {
                    fails.push(format!("C13:proxy {} limit {} served epoch {} <= largest proxy epoch {}", a, l, p.get_epoch(), m));
                }
            }
        }
    }
    if op == "recover" {
        let e: u64 = toks[1].parse().unwrap_or(0);
        for (a, l, p) in proxies {
            if let Some(p) = p {
                if p.get_epoch() < e || p.get_epoch() <= before.global_epoch {
                    fails.push(format!("C13:proxy {} limit {} served epoch {} after recovery with {}", a, l, p.get_epoch(), e));
                }
            }
        }
    }

    if fails.is_empty() {
        "m=ok".to_string()
    } else {
        fails.truncate(4);
        format!("m={}", fails.join("|").replace(' ', "_").replace(';', ","))
    }
}
