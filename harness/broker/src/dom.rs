// Broker group: applies an operation history to a real MetaStore (hook H1 re-exports the store modules).
// Input : "H <ordered> ; op ; op ..."   (ops as generated; allocation choices may be "?" = to be resolved)
// Output: "R <resolved history>  ##  O res hs hv mon ; ..."  on one line
use std::collections::HashMap;
use std::convert::TryFrom;
use std::panic::{catch_unwind, AssertUnwindSafe};
use undermoon::broker::verif::*;
use undermoon::broker::MetaStoreError;
use undermoon::common::cluster::{
    Cluster, ClusterName, MigrationMeta, MigrationTaskMeta, Node, Proxy, Range, RangeList, Role,
    SlotRange, SlotRangeTag,
};
use undermoon::common::config::ClusterConfig;

fn id_of(s: &str) -> u64 {
    // "p12:1" -> 12 ; "n7:1" -> 7 ; "h3" -> 3 ; "p5" (derived host) -> 1000005 ; "c2" -> 2 ; "r9" -> 9
    let body = s.split(':').next().unwrap_or("");
    let (pfx, num) = body.split_at(1);
    let n: u64 = num.parse().unwrap_or(999_999_999);
    if pfx == "p" && !s.contains(':') {
        1_000_000 + n
    } else {
        n
    }
}
fn paddr(a: u64) -> String {
    format!("p{}:1", a)
}
fn naddr(a: u64) -> String {
    format!("n{}:1", a)
}
fn cname(n: u64) -> String {
    format!("c{}", n)
}

fn ranges_s(rl: &RangeList) -> String {
    if rl.get_ranges().is_empty() {
        return "E".to_string();
    }
    rl.get_ranges()
        .iter()
        .map(|r| format!("{}-{}", r.start(), r.end()))
        .collect::<Vec<_>>()
        .join(",")
}
fn opt_ranges_s(o: &Option<SlotRange>) -> String {
    match o {
        None => "N".to_string(),
        Some(sr) => {
            assert!(sr.tag == SlotRangeTag::None, "stable slots carry a tag");
            ranges_s(&sr.range_list)
        }
    }
}
fn b01(b: bool) -> &'static str {
    if b {
        "1"
    } else {
        "0"
    }
}
fn migs_s(l: &[MigrationSlotRangeStore]) -> String {
    let v: Vec<String> = l
        .iter()
        .map(|m| {
            format!(
                "{}/{}/{}/{}/{}/{}/{}",
                ranges_s(&m.range_list),
                b01(m.is_migrating),
                m.meta.epoch,
                m.meta.src_chunk_index,
                m.meta.src_chunk_part,
                m.meta.dst_chunk_index,
                m.meta.dst_chunk_part
            )
        })
        .collect();
    format!("[{}]", v.join(" "))
}
fn chunk_s(c: &ChunkStore) -> String {
    let role = match c.role_position {
        ChunkRolePosition::Normal => "n",
        ChunkRolePosition::FirstChunkMaster => "f",
        ChunkRolePosition::SecondChunkMaster => "s",
    };
    vec![
        role.to_string(),
        opt_ranges_s(&c.stable_slots[0]),
        opt_ranges_s(&c.stable_slots[1]),
        migs_s(&c.migrating_slots[0]),
        migs_s(&c.migrating_slots[1]),
        id_of(&c.proxy_addresses[0]).to_string(),
        id_of(&c.proxy_addresses[1]).to_string(),
        id_of(&c.hosts[0]).to_string(),
        id_of(&c.hosts[1]).to_string(),
        id_of(&c.node_addresses[0]).to_string(),
        id_of(&c.node_addresses[1]).to_string(),
        id_of(&c.node_addresses[2]).to_string(),
        id_of(&c.node_addresses[3]).to_string(),
    ]
    .join(";")
}
fn cfg_id(c: &ClusterConfig) -> String {
    let d = ClusterConfig::default();
    let mut probe = c.clone();
    probe.migration_config.scan_count = d.migration_config.scan_count;
    if probe != d {
        return format!("nondefault:{:?}", c);
    }
    c.migration_config.scan_count.to_string()
}

pub struct World {
    last_repl: u64,
    store: MetaStore,
    r0: i64,
    snaps: Vec<MetaStore>,
}

fn state_s(w: &World) -> String {
    let s = &w.store;
    let mut clusters: Vec<(u64, &ClusterStore)> = s
        .clusters
        .iter()
        .map(|(k, v)| (id_of(k.as_str()), v))
        .collect();
    clusters.sort_by_key(|x| x.0);
    let cs: String = clusters
        .iter()
        .map(|(n, c)| {
            assert!(id_of(c.name.as_str()) == *n);
            format!(
                "{{{}:{}:{}:{}}}",
                n,
                c.epoch,
                cfg_id(&c.config),
                c.chunks.iter().map(chunk_s).collect::<Vec<_>>().join("|")
            )
        })
        .collect();
    let mut ps: Vec<(u64, &ProxyResource)> = s.all_proxies.iter().map(|(k, v)| (id_of(k), v)).collect();
    ps.sort_by_key(|x| x.0);
    let pss: String = ps
        .iter()
        .map(|(a, r)| {
            assert!(id_of(&r.proxy_address) == *a);
            format!(
                "{{{}:{}:{}:{}:{}:{}}}",
                a,
                id_of(&r.node_addresses[0]),
                id_of(&r.node_addresses[1]),
                id_of(&r.host),
                r.index,
                match &r.cluster {
                    None => "-".to_string(),
                    Some(n) => id_of(n.as_str()).to_string(),
                }
            )
        })
        .collect();
    let mut failed: Vec<u64> = s.failed_proxies.iter().map(|a| id_of(a)).collect();
    failed.sort();
    let mut fl: Vec<(u64, Vec<(u64, i64)>)> = s
        .failures
        .iter()
        .map(|(a, m)| {
            let mut v: Vec<(u64, i64)> = m.iter().map(|(r, t)| (id_of(r), w.r0 - *t)).collect();
            v.sort();
            (id_of(a), v)
        })
        .collect();
    fl.sort();
    let fls: String = fl
        .iter()
        .map(|(a, v)| {
            format!(
                "{{{}:{}}}",
                a,
                v.iter().map(|(r, t)| format!("{}={}", r, t)).collect::<Vec<_>>().join(",")
            )
        })
        .collect();
    format!(
        "E{} O{} C{} P{} F[{}] R{}",
        s.global_epoch,
        b01(s.enable_ordered_proxy),
        cs,
        pss,
        failed.iter().map(|x| x.to_string()).collect::<Vec<_>>().join(","),
        fls
    )
}

fn vmeta_s(m: &MigrationMeta) -> String {
    format!(
        "{}:{}:{}:{}:{}",
        m.epoch,
        id_of(&m.src_proxy_address),
        id_of(&m.src_node_address),
        id_of(&m.dst_proxy_address),
        id_of(&m.dst_node_address)
    )
}
fn vslot_s(s: &SlotRange) -> String {
    let t = match &s.tag {
        SlotRangeTag::None => "-".to_string(),
        SlotRangeTag::Migrating(m) => format!("M:{}", vmeta_s(m)),
        SlotRangeTag::Importing(m) => format!("I:{}", vmeta_s(m)),
    };
    format!("{}/{}", ranges_s(&s.range_list), t)
}
fn vslots_s(l: &[SlotRange]) -> String {
    format!("[{}]", l.iter().map(vslot_s).collect::<Vec<_>>().join(" "))
}
fn vnode_s(n: &Node) -> String {
    let peers = n.get_repl_meta().get_peers();
    let peer = if peers.is_empty() {
        "-".to_string()
    } else {
        peers
            .iter()
            .map(|p| format!("{}@{}", id_of(&p.node_address), id_of(&p.proxy_address)))
            .collect::<Vec<_>>()
            .join("+")
    };
    format!(
        "({},{},{},{},{})",
        id_of(n.get_address()),
        id_of(n.get_proxy_address()),
        if n.get_role() == Role::Master { "M" } else { "R" },
        vslots_s(n.get_slots()),
        peer
    )
}
fn vcluster_s(c: &Cluster) -> String {
    format!(
        "e{} c{} {}",
        c.get_epoch(),
        cfg_id(&c.get_config()),
        c.get_nodes().iter().map(vnode_s).collect::<String>()
    )
}
fn vproxy_s(p: &Proxy) -> String {
    format!(
        "{} e{} {} peers{} cfg{}",
        match p.get_cluster_name() {
            None => "-".to_string(),
            Some(n) => id_of(n.as_str()).to_string(),
        },
        p.get_epoch(),
        if p.get_cluster_name().is_some() {
            p.get_nodes().iter().map(vnode_s).collect::<String>()
        } else {
            p.get_free_nodes()
                .iter()
                .map(|a| format!("({},{},M,[],-)", id_of(a), id_of(p.get_address())))
                .collect::<String>()
        },
        p.get_peers()
            .iter()
            .map(|pp| format!("<{}{}>", id_of(&pp.proxy_address), vslots_s(&pp.slots)))
            .collect::<String>(),
        match p.get_cluster_config() {
            None => "-".to_string(),
            Some(c) => cfg_id(c),
        }
    )
}

const LIMITS: [u64; 3] = [0, 1, 2];

struct Views {
    text: String,
    clusters: Vec<(u64, u64, Option<Cluster>)>,
    proxies: Vec<(u64, u64, Option<Proxy>)>,
}

fn views(w: &World) -> Views {
    let s = &w.store;
    let mut text = String::new();
    let mut cn: Vec<u64> = s.clusters.keys().map(|k| id_of(k.as_str())).collect();
    cn.sort();
    let mut clusters = vec![];
    for n in cn {
        for l in LIMITS.iter() {
            let r = catch_unwind(AssertUnwindSafe(|| s.get_cluster_by_name(&cname(n), *l)));
            let t = match &r {
                Ok(Some(c)) => vcluster_s(c),
                Ok(None) => "none".to_string(),
                Err(_) => "panic".to_string(),
            };
            text.push_str(&format!("C{}/{}={}\n", n, l, t));
            clusters.push((n, *l, r.ok().flatten()));
        }
    }
    let mut pa: Vec<u64> = s.all_proxies.keys().map(|k| id_of(k)).collect();
    pa.sort();
    if std::env::var("UM_NO_PROXY_VIEWS").is_ok() {
        pa.clear();
    }
    let mut proxies = vec![];
    for a in pa {
        for l in LIMITS.iter() {
            let r = catch_unwind(AssertUnwindSafe(|| s.get_proxy_by_address(&paddr(a), *l)));
            let t = match &r {
                Ok(Some(p)) => vproxy_s(p),
                Ok(None) => "none".to_string(),
                Err(_) => "panic".to_string(),
            };
            text.push_str(&format!("P{}/{}={}\n", a, l, t));
            proxies.push((a, *l, r.ok().flatten()));
        }
    }
    Views {
        text,
        clusters,
        proxies,
    }
}

pub fn fnv(s: &str) -> String {
    let mut h: u64 = 0xcbf29ce484222325;
    for b in s.as_bytes() {
        h ^= *b as u64;
        h = h.wrapping_mul(0x100000001b3);
    }
    format!("{:016x}", h)
}

fn err_s(e: &MetaStoreError) -> String {
    format!("err:{}", e.to_code())
}
fn unit_res(r: Result<(), MetaStoreError>) -> String {
    match r {
        Ok(()) => "ok".to_string(),
        Err(e) => err_s(&e),
    }
}

fn pairs_between(before: &[ChunkStore], after: &[ChunkStore]) -> String {
    // chunks present after but not before (by proxy address pair), in order
    let old: Vec<(String, String)> = before
        .iter()
        .map(|c| (c.proxy_addresses[0].clone(), c.proxy_addresses[1].clone()))
        .collect();
    let v: Vec<String> = after
        .iter()
        .filter(|c| !old.contains(&(c.proxy_addresses[0].clone(), c.proxy_addresses[1].clone())))
        .map(|c| format!("{}:{}", id_of(&c.proxy_addresses[0]), id_of(&c.proxy_addresses[1])))
        .collect();
    if v.is_empty() {
        "-".to_string()
    } else {
        v.join(",")
    }
}

fn chunks_of(s: &MetaStore, n: u64) -> Vec<ChunkStore> {
    ClusterName::try_from(cname(n).as_str())
        .ok()
        .and_then(|k| s.clusters.get(&k).map(|c| c.chunks.clone()))
        .unwrap_or_default()
}

fn parse_ranges(s: &str) -> Vec<Range> {
    if s == "-" || s == "E" {
        return vec![];
    }
    s.split(',')
        .map(|p| {
            let mut it = p.split('-');
            Range(
                it.next().expect("start").parse().expect("start"),
                it.next().expect("end").parse().expect("end"),
            )
        })
        .collect()
}

fn rt_block<F: std::future::Future>(f: F) -> F::Output {
    tokio::runtime::Builder::new_current_thread()
        .enable_all()
        .build()
        .expect("rt")
        .block_on(f)
}

fn dummy_meta(epoch: u64) -> MigrationMeta {
    MigrationMeta {
        epoch,
        src_proxy_address: "x".into(),
        src_node_address: "x".into(),
        dst_proxy_address: "x".into(),
        dst_node_address: "x".into(),
    }
}

// applies one op; returns (resolved op text, result text)
fn apply(w: &mut World, toks: &[&str]) -> (String, String) {
    let u = |s: &str| -> u64 { s.parse().expect("num") };
    let same = toks.join(" ");
    let st = &mut w.store;
    match toks[0] {
        "addproxy" => {
            let a = u(toks[1]);
            let host = if toks[2] == "-" { None } else { Some(format!("h{}", toks[2])) };
            let index = if toks[3] == "-" { None } else { Some(u(toks[3]) as usize) };
            let r = st.add_proxy(paddr(a), [naddr(2 * a), naddr(2 * a + 1)], host, index);
            (same, unit_res(r))
        }
        "rmproxy" => (same, unit_res(st.remove_proxy(paddr(u(toks[1]))))),
        "addcluster" => {
            let n = u(toks[1]);
            let mut cfg = ClusterConfig::default();
            cfg.migration_config.scan_count = u(toks[3]);
            let before = chunks_of(st, n);
            let r = st.add_cluster(cname(n), u(toks[2]) as usize, cfg);
            let pairs = if r.is_ok() { pairs_between(&before, &chunks_of(st, n)) } else { "-".to_string() };
            (format!("addcluster {} {} {} {}", toks[1], toks[2], toks[3], pairs), unit_res(r))
        }
        "rmcluster" => (same, unit_res(st.remove_cluster(cname(u(toks[1]))))),
        "addnodes" | "scaleup" => {
            let n = u(toks[1]);
            let before = chunks_of(st, n);
            let r = if toks[0] == "addnodes" {
                st.auto_add_nodes(cname(n), u(toks[2]) as usize).map(|_| ())
            } else {
                st.auto_scale_up_nodes(cname(n), u(toks[2]) as usize).map(|_| ())
            };
            let pairs = if r.is_ok() { pairs_between(&before, &chunks_of(st, n)) } else { "-".to_string() };
            (format!("{} {} {} {}", toks[0], toks[1], toks[2], pairs), unit_res(r))
        }
        "delfree" => (same, unit_res(st.auto_delete_free_nodes(cname(u(toks[1]))))),
        "migrate" => (same, unit_res(st.migrate_slots(cname(u(toks[1]))))),
        "scaledown" => (same, unit_res(st.migrate_slots_to_scale_down(cname(u(toks[1])), u(toks[2]) as usize))),
        "commit" | "commitnth" | "commitstale" => {
            let n = u(toks[1]);
            // commitstale n j clr delta: the j-th pending migration's ranges with an epoch that is `delta` too old
            let stale_delta: u64 = if toks[0] == "commitstale" { u(toks[4]) } else { 0 };
            let (epoch, tag, clr, ranges) = if toks[0] == "commit" {
                (u(toks[2]), toks[3].to_string(), toks[4] == "1", parse_ranges(toks[5]))
            } else {
                // j-th (mod count) out entry in chunk / part / list order of the stored cluster
                let mut outs = vec![];
                for c in chunks_of(st, n).iter() {
                    for part in c.migrating_slots.iter() {
                        for m in part.iter() {
                            if m.is_migrating {
                                outs.push((m.meta.epoch, m.range_list.get_ranges().to_vec()));
                            }
                        }
                    }
                }
                if outs.is_empty() {
                    (0, "m".to_string(), toks[3] == "1", vec![])
                } else {
                    let (e, r) = outs[(u(toks[2]) as usize) % outs.len()].clone();
                    (e.saturating_sub(stale_delta), "m".to_string(), toks[3] == "1", r)
                }
            };
            let name = match ClusterName::try_from(cname(n).as_str()) {
                Ok(n) => n,
                Err(_) => return (same, "err:INVALID_CLUSTER_NAME".to_string()),
            };
            // the task's range list arrives through RangeList::new in production (parsed from the proxy's report)
            let range_list = RangeList::new(ranges);
            let tagv = match tag.as_str() {
                "m" => SlotRangeTag::Migrating(dummy_meta(epoch)),
                "i" => SlotRangeTag::Importing(dummy_meta(epoch)),
                _ => SlotRangeTag::None,
            };
            let task = MigrationTaskMeta {
                cluster_name: name,
                slot_range: SlotRange {
                    range_list,
                    tag: tagv,
                },
            };
            (same, unit_res(st.commit_migration(task, clr)))
        }
        "autochange" => {
            let n = u(toks[1]);
            let before = chunks_of(st, n);
            let r = st.auto_change_node_number(cname(n), u(toks[2]) as usize);
            let pairs = match &r {
                Ok((ScaleOp::ScaleOut, _, _)) => {
                    // slot-less chunks are released first, then new chunks are appended at the end
                    let retained = before
                        .iter()
                        .filter(|c| {
                            c.stable_slots.iter().any(|s| s.is_some())
                                || c.migrating_slots.iter().any(|m| !m.is_empty())
                        })
                        .count();
                    let after = chunks_of(st, n);
                    let v: Vec<String> = after
                        .iter()
                        .skip(retained)
                        .map(|c| format!("{}:{}", id_of(&c.proxy_addresses[0]), id_of(&c.proxy_addresses[1])))
                        .collect();
                    if v.is_empty() {
                        "-".to_string()
                    } else {
                        v.join(",")
                    }
                }
                _ => "-".to_string(),
            };
            let res = match r {
                Ok((ScaleOp::NoOp, _, _)) => "scale:noop".to_string(),
                Ok((ScaleOp::ScaleOut, _, _)) => "scale:out".to_string(),
                Ok((ScaleOp::ScaleDown, _, _)) => "scale:down".to_string(),
                Err(e) => err_s(&e),
            };
            (format!("autochange {} {} {}", toks[1], toks[2], pairs), res)
        }
        "autoscaleout" => (same, unit_res(st.auto_scale_out_node_number(cname(u(toks[1])), u(toks[2]) as usize))),
        "replace" | "replacelast" | "replacemember" => {
            // replacelast <lim> ?: fail the proxy that was chosen as the most recent replacement;
            // replacemember <cluster> <k> <lim> ?: fail the k-th (mod count) proxy of the cluster. Both resolve to a plain `replace`.
            let (a, lim_tok) = if toks[0] == "replacelast" {
                (w.last_repl, toks[1])
            } else if toks[0] == "replacemember" {
                let members: Vec<u64> = chunks_of(st, u(toks[1]))
                    .iter()
                    .flat_map(|c| c.proxy_addresses.iter().map(|a| id_of(a)).collect::<Vec<_>>())
                    .collect();
                let id = if members.is_empty() { 0 } else { members[(u(toks[2]) as usize) % members.len()] };
                (id, toks[3])
            } else {
                (u(toks[1]), toks[2])
            };
            let toks: Vec<&str> = vec!["replace", "", lim_tok];
            let a_s = a.to_string();
            let toks = [toks[0], a_s.as_str(), toks[2]];
            let r = st.replace_failed_proxy(paddr(a), u(toks[2]));
            let (ch, res) = match r {
                Ok(Some(p)) => {
                    let id = id_of(p.get_address());
                    w.last_repl = id;
                    (id.to_string(), format!("repl:{}", id))
                }
                Ok(None) => ("-".to_string(), "repl:-".to_string()),
                Err(e) => ("-".to_string(), err_s(&e)),
            };
            (format!("replace {} {} {}", toks[1], toks[2], ch), res)
        }
        "balance" => (same, unit_res(st.balance_masters(cname(u(toks[1]))))),
        "config" => {
            let mut m = HashMap::new();
            if toks[2] == "1" {
                m.insert("migration_scan_count".to_string(), toks[3].to_string());
            } else {
                m.insert("bogus_field".to_string(), toks[3].to_string());
            }
            (same, unit_res(st.change_config(cname(u(toks[1])), m)))
        }
        "addfail" => {
            let a = paddr(u(toks[1]));
            let rep = format!("r{}", toks[2]);
            let age: i64 = toks[3].parse().expect("age");
            let added = st.add_failure(a.clone(), rep.clone());
            if added {
                if let Some(m) = st.failures.get_mut(&a) {
                    m.insert(rep, w.r0 - age);
                }
            }
            (same, format!("bool:{}", b01(added)))
        }
        "getfail" => {
            let ttl: i64 = toks[1].parse().expect("ttl");
            let mut l: Vec<u64> = st
                .get_failures(chrono::Duration::seconds(ttl), u(toks[2]))
                .iter()
                .map(|a| id_of(a))
                .collect();
            l.sort();
            (same, format!("list:{}", l.iter().map(|x| x.to_string()).collect::<Vec<_>>().join(",")))
        }
        "cleanfail" => {
            let ttl: i64 = toks[1].parse().expect("ttl");
            let b = st.cleanup_failures(chrono::Duration::seconds(ttl), u(toks[2]));
            (same, format!("bool:{}", b01(b)))
        }
        "forcebump" => (same, unit_res(st.force_bump_all_epoch(u(toks[1])))),
        "recover" => {
            st.recover_epoch(u(toks[1]));
            (same, "ok".to_string())
        }
        "svcrecover" => {
            // the broker process restarts from the current store as its snapshot (MemBrokerService::new restores it),
            // then runs epoch recovery with the given largest proxy epoch through hook H4
            // (= the production statement `self.storage.recover_epoch(max_epoch + 1)` without the TCP fetch)
            use std::sync::Arc;
            use undermoon::broker::{JsonFileStorage, JsonMetaReplicator, MemBrokerConfig, MemBrokerService, StorageConfig};
            let cfg = MemBrokerConfig {
                address: "127.0.0.1:0".to_string(),
                failure_ttl: 60,
                failure_quorum: 1,
                migration_limit: 0,
                recover_from_meta_file: false,
                meta_filename: "/nonexistent/verif-metadata".to_string(),
                auto_update_meta_file: false,
                update_meta_file_interval: None,
                replica_addresses: Arc::new(arc_swap::ArcSwap::new(Arc::new(vec![]))),
                sync_meta_interval: None,
                enable_ordered_proxy: st.enable_ordered_proxy,
                storage: StorageConfig::Memory,
                debug: false,
            };
            let persistence = Arc::new(JsonFileStorage::new(cfg.meta_filename.clone()));
            let replicator = Arc::new(JsonMetaReplicator::new(cfg.replica_addresses.clone(), reqwest::Client::new()));
            let snapshot = st.clone();
            let m = u(toks[1]);
            let res = rt_block(async move {
                let svc = MemBrokerService::new(cfg, ClusterConfig::default(), persistence, replicator, Some(snapshot))?;
                svc.recover_epoch_with_max(m).await?;
                svc.get_all_data().await
            });
            match res {
                Ok(new_store) => {
                    *st = new_store;
                    (same, "ok".to_string())
                }
                Err(e) => (same, err_s(&e)),
            }
        }
        "restore" => {
            let k: usize = toks[1].parse().expect("k");
            let snap = w.snaps[k.min(w.snaps.len() - 1)].clone();
            let k2 = k.min(w.snaps.len() - 1);
            (format!("restore {}", k2), unit_res(st.restore(snap)))
        }
        other => (same, format!("unknown-op:{}", other)),
    }
}

pub fn run_case(_rt: &tokio::runtime::Runtime, line: &str) -> String {
    let mut segs = line.split(';').map(|s| s.trim());
    let hd: Vec<&str> = segs.next().expect("header").split_whitespace().collect();
    assert!(hd[0] == "H");
    let ordered = hd[1] == "1";
    let mut w = World {
        last_repl: 0,
        store: MetaStore::new(ordered),
        r0: chrono::Utc::now().timestamp(),
        snaps: vec![],
    };
    w.snaps.push(w.store.clone());
    let verbose = std::env::var("UM_VERBOSE").map(|v| v == "1").unwrap_or(false);
    // UM_VIEWS_FROM=k: skip state/view printing and monitors for the first k operations (huge set-up prefixes)
    let views_from: usize = std::env::var("UM_VIEWS_FROM").ok().and_then(|v| v.parse().ok()).unwrap_or(0);
    let mut op_index = 0usize;
    let mut resolved = vec![format!("H {}", hd[1])];
    let mut outs = vec![];
    let mut prev: Option<crate::mon::Prev> = None;
    let mut failed_truth: std::collections::HashSet<u64> = std::collections::HashSet::new();
    for seg in segs {
        if seg.is_empty() {
            continue;
        }
        let toks: Vec<&str> = seg.split_whitespace().collect();
        let before = w.store.clone();
        let r = catch_unwind(AssertUnwindSafe(|| apply(&mut w, &toks)));
        let (rop, res) = match r {
            Ok(x) => x,
            Err(_) => (seg.replace('?', "-"), "panic".to_string()),
        };
        w.snaps.push(w.store.clone());
        resolved.push(rop.clone());
        op_index += 1;
        if op_index <= views_from {
            w.snaps.pop();
            outs.push(format!("{} - - m=skipped", res));
            continue;
        }
        let st = state_s(&w);
        let vs = views(&w);
        let rtoks: Vec<&str> = rop.split_whitespace().collect();
        let mon = crate::mon::monitors_with_truth(&before, &w.store, &rtoks, &res, &vs.clusters, &vs.proxies, &mut prev, &failed_truth);
        crate::mon::update_failed_truth(&mut failed_truth, &rtoks, &res, &w.store);
        if verbose {
            outs.push(format!("{}\n  STATE {}\n  VIEWS\n{}  MON {}", res, st, vs.text, mon));
        } else {
            outs.push(format!("{} {} {} {}", res, fnv(&st), fnv(&vs.text), mon));
        }
        if res == "panic" {
            break;
        }
    }
    format!("R {} ## O {}", resolved.join(" ; "), outs.join(" ; "))
}
