// Group `epoch` (C05): UMCTL SETCLUSTER / SETREPL sequences through a real proxy (SharedForwardHandler).
//
//   seq <host> <k> <msg>*k
//   conc <host> <kpre> <msg>*kpre <kthr> <msg>*kthr <ksuf> <msg>*ksuf      (kthr OS threads send one SETREPL each at once)
//   <msg> ::= C <epoch> <flags> <content> <route> <n> <addr>*n
//           | R <epoch> <flags> <nm> (<cluster> <addr> <peers>)*nm <nr> (<cluster> <addr> <peers>)*nr
//   (strings in hex, "-" = empty; epoch / content / peers decimal)
//
// Realisation of the abstract parts of a message (the model only has identifiers):
//   content c      -> cluster name "c<c>"
//   route r        -> the node address that owns the slot of the key "probe": a local node if r is one of the local
//                     addresses, else a peer node; every local node i also owns one slot of its own so that it is not
//                     dropped by the plain encoding
//   peers p        -> no peer for 0, else one ReplPeer 127.0.0.9:(9000+p) @ 127.0.0.9:(6000+p)
// The commands are built with ProxyClusterMeta::to_args / to_compressed_args and encode_repl_meta; the flags token is
// then replaced by the raw token of the case.
//
// Output per message: reply/GETEPOCH/content(LISTCLUSTER)/route(GET probe)/roles(INFOREPL)
use crate::util::*;
use arc_swap::ArcSwap;
use futures::channel::mpsc;
use futures::{Future, SinkExt, StreamExt, TryStreamExt};
use parking_lot::Mutex;
use std::collections::HashMap;
use std::convert::TryFrom;
use std::net::SocketAddr;
use std::num::NonZeroUsize;
use std::pin::Pin;
use std::sync::atomic::{AtomicBool, AtomicI64, AtomicU64};
use std::sync::Arc;
use std::time::Duration;
use undermoon::common::batch::BatchStrategy;
use undermoon::common::cluster::{ClusterName, Range, RangeList, ReplPeer, SlotRange, SlotRangeTag};
use undermoon::common::config::ClusterConfig;
use undermoon::common::proto::{ClusterMapFlags, ProxyClusterMeta};
use undermoon::common::track::TrackedFutureRegistry;
use undermoon::common::utils::generate_slot;
use undermoon::protocol::{
    Array, BinSafeStr, BulkStr, OptionalMulti, RedisClient, RedisClientError, RedisClientFactory,
    Resp, RespPacket, RespVec,
};
use undermoon::proxy::backend::{BackendError, ConnFactory, ConnSink, ConnStream, CreateConnResult};
use undermoon::proxy::command::{new_command_pair, Command};
use undermoon::proxy::executor::SharedForwardHandler;
use undermoon::proxy::manager::MetaMap;
use undermoon::proxy::service::{ClusterNodesVersion, ServerProxyConfig};
use undermoon::proxy::session::{CmdCtx, CmdCtxHandler};
use undermoon::proxy::slowlog::SlowRequestLogger;
use undermoon::replication::replicator::{encode_repl_meta, MasterMeta, ReplicaMeta, ReplicatorMeta};

type Log = Arc<Mutex<Vec<(String, Vec<Vec<u8>>)>>>;

struct FakeConnFactory {
    log: Log,
}

impl ConnFactory for FakeConnFactory {
    type Pkt = RespPacket;
    fn create_conn(
        &self,
        addr: SocketAddr,
    ) -> Pin<Box<dyn Future<Output = CreateConnResult<Self::Pkt>> + Send>> {
        let (sender, receiver) = mpsc::unbounded();
        let log = self.log.clone();
        let addr_s = addr.to_string();
        let receiver = receiver.map(move |packet: RespPacket| {
            let cmd: Vec<Vec<u8>> = match packet.to_resp_vec() {
                Resp::Arr(Array::Arr(resps)) => resps
                    .iter()
                    .map(|r| match r {
                        Resp::Bulk(BulkStr::Str(s)) => s.clone(),
                        _ => vec![],
                    })
                    .collect(),
                _ => vec![],
            };
            log.lock().push((addr_s.clone(), cmd));
            Ok::<_, ()>(RespPacket::Data(Resp::Bulk(BulkStr::Str(b"v".to_vec()))))
        });
        let sink: ConnSink<RespPacket> = Box::pin(sender.sink_map_err(|_| BackendError::Canceled));
        let stream: ConnStream<RespPacket> = Box::pin(receiver.map_err(|_| BackendError::Canceled));
        Box::pin(async { Ok((sink, stream)) })
    }
}

// control connections of the replicators: Redis answers +OK to everything
struct OkClient;
impl RedisClient for OkClient {
    fn execute<'s>(
        &'s mut self,
        command: OptionalMulti<Vec<BinSafeStr>>,
    ) -> Pin<Box<dyn Future<Output = Result<OptionalMulti<RespVec>, RedisClientError>> + Send + 's>>
    {
        let ok = || Resp::Simple(b"OK".to_vec());
        let res = match command {
            OptionalMulti::Single(_) => OptionalMulti::Single(ok()),
            OptionalMulti::Multi(cs) => OptionalMulti::Multi(cs.iter().map(|_| ok()).collect()),
        };
        Box::pin(async move { Ok(res) })
    }
}
struct OkClientFactory;
impl RedisClientFactory for OkClientFactory {
    type Client = OkClient;
    fn create_client<'s>(
        &'s self,
        _address: String,
    ) -> Pin<Box<dyn Future<Output = Result<Self::Client, RedisClientError>> + Send + 's>> {
        Box::pin(async move { Ok(OkClient) })
    }
}

type Handler = SharedForwardHandler<OkClientFactory, FakeConnFactory>;

struct Proxy {
    handler: Handler,
    log: Log,
}

fn new_proxy(host: &str) -> Proxy {
    let self_addr = format!("{}:5299", host);
    let config = Arc::new(ServerProxyConfig {
        address: self_addr.clone(),
        announce_address: self_addr,
        announce_host: host.to_string(),
        slowlog_len: NonZeroUsize::new(16).unwrap(),
        slowlog_log_slower_than: AtomicI64::new(-1),
        slowlog_sample_rate: AtomicU64::new(1),
        thread_number: NonZeroUsize::new(2).unwrap(),
        backend_conn_num: NonZeroUsize::new(1).unwrap(),
        active_redirection: false,
        max_redirections: None,
        default_redirection_address: None,
        backend_batch_strategy: BatchStrategy::Disabled,
        backend_flush_size: NonZeroUsize::new(1024).unwrap(),
        backend_low_flush_interval: Duration::from_nanos(200_000),
        backend_high_flush_interval: Duration::from_nanos(800_000),
        session_timeout: None,
        backend_timeout: Duration::from_secs(3),
        password: None,
        command_cluster_nodes_version: ClusterNodesVersion::V2,
    });
    let log: Log = Arc::new(Mutex::new(vec![]));
    let conn_factory = Arc::new(FakeConnFactory { log: log.clone() });
    let meta_map = Arc::new(ArcSwap::new(Arc::new(MetaMap::empty())));
    let (stopped, rx) = mpsc::unbounded();
    std::mem::forget(rx);
    let handler = SharedForwardHandler::new(
        config.clone(),
        Arc::new(OkClientFactory),
        Arc::new(SlowRequestLogger::new(config)),
        meta_map,
        conn_factory,
        Arc::new(TrackedFutureRegistry::default()),
        stopped,
    );
    Proxy { handler, log }
}

async fn send_cmd(handler: &Handler, elems: Vec<Vec<u8>>) -> Option<RespVec> {
    let resp = Resp::Arr(Array::Arr(
        elems.into_iter().map(|b| Resp::Bulk(BulkStr::Str(b))).collect(),
    ));
    let cmd = Command::new(Box::new(RespPacket::Data(resp)));
    let (s, r) = new_command_pair(&cmd);
    let ctx = CmdCtx::new(cmd, s, 0, false);
    let auth = AtomicBool::new(false);
    match handler.handle_cmd_ctx(ctx, r, &auth).await {
        Ok(reply) => Some(reply.into_resp_vec()),
        Err(_) => None,
    }
}

#[derive(Clone)]
struct RNode {
    cluster: String,
    addr: String,
    peers: u64,
}

#[derive(Clone)]
enum Msg {
    C {
        epoch: u64,
        flags: String,
        content: u64,
        route: String,
        locals: Vec<String>,
    },
    R {
        epoch: u64,
        flags: String,
        masters: Vec<RNode>,
        replicas: Vec<RNode>,
    },
}

fn s_of(hexs: &str) -> String {
    String::from_utf8(unhex(hexs)).expect("utf8")
}

fn parse_nodes<'a, I: Iterator<Item = &'a str>>(it: &mut I) -> Vec<RNode> {
    let n: usize = it.next().expect("n").parse().expect("n");
    (0..n)
        .map(|_| RNode {
            cluster: s_of(it.next().expect("cluster")),
            addr: s_of(it.next().expect("addr")),
            peers: it.next().expect("peers").parse().expect("peers"),
        })
        .collect()
}

fn parse_msg<'a, I: Iterator<Item = &'a str>>(it: &mut I) -> Msg {
    match it.next().expect("kind") {
        "C" => {
            let epoch = it.next().expect("epoch").parse().expect("epoch");
            let flags = s_of(it.next().expect("flags"));
            let content = it.next().expect("content").parse().expect("content");
            let route = s_of(it.next().expect("route"));
            let n: usize = it.next().expect("n").parse().expect("n");
            let locals = (0..n).map(|_| s_of(it.next().expect("addr"))).collect();
            Msg::C {
                epoch,
                flags,
                content,
                route,
                locals,
            }
        }
        "R" => {
            let epoch = it.next().expect("epoch").parse().expect("epoch");
            let flags = s_of(it.next().expect("flags"));
            let masters = parse_nodes(it);
            let replicas = parse_nodes(it);
            Msg::R {
                epoch,
                flags,
                masters,
                replicas,
            }
        }
        other => panic!("bad msg kind {}", other),
    }
}

fn parse_msgs<'a, I: Iterator<Item = &'a str>>(it: &mut I) -> Vec<Msg> {
    let n: usize = it.next().expect("k").parse().expect("k");
    (0..n).map(|_| parse_msg(it)).collect()
}

const PROBE: &[u8] = b"probe";

fn ranges(rs: &[(usize, usize)]) -> Vec<SlotRange> {
    vec![SlotRange {
        range_list: RangeList::new(rs.iter().map(|(s, e)| Range(*s, *e)).collect()),
        tag: SlotRangeTag::None,
    }]
}

fn peers_of(p: u64) -> Vec<ReplPeer> {
    if p == 0 {
        vec![]
    } else {
        vec![ReplPeer {
            node_address: format!("127.0.0.9:{}", 9000 + p),
            proxy_address: format!("127.0.0.9:{}", 6000 + p),
        }]
    }
}

fn build_cmd(m: &Msg) -> Vec<Vec<u8>> {
    match m {
        Msg::C {
            epoch,
            flags,
            content,
            route,
            locals,
        } => {
            let p = generate_slot(PROBE);
            let mut local: HashMap<String, Vec<SlotRange>> = HashMap::new();
            let mut idx = 0usize;
            for a in locals {
                if local.contains_key(a) {
                    continue;
                }
                let own = (p + 1 + idx) % 16384;
                idx += 1;
                let mut rs = vec![(own, own)];
                if a == route {
                    rs.push((p, p));
                }
                local.insert(a.clone(), ranges(&rs));
            }
            let mut peer: HashMap<String, Vec<SlotRange>> = HashMap::new();
            if !local.contains_key(route) {
                peer.insert(route.clone(), ranges(&[(p, p)]));
            }
            let parsed = ClusterMapFlags::from_arg(flags);
            let compress = parsed.compress;
            let meta = ProxyClusterMeta::new(
                *epoch,
                parsed,
                ClusterName::try_from(format!("c{}", content).as_str()).expect("name"),
                local,
                peer,
                ClusterConfig::default(),
            );
            let mut args = if compress {
                meta.to_compressed_args().expect("compress")
            } else {
                meta.to_args()
            };
            args[2] = flags.clone();
            let mut elems = vec![b"UMCTL".to_vec(), b"SETCLUSTER".to_vec()];
            elems.extend(args.into_iter().map(|a| a.into_bytes()));
            elems
        }
        Msg::R {
            epoch,
            flags,
            masters,
            replicas,
        } => {
            let meta = ReplicatorMeta {
                epoch: *epoch,
                flags: ClusterMapFlags::from_arg(flags),
                masters: masters
                    .iter()
                    .map(|n| MasterMeta {
                        cluster_name: ClusterName::try_from(n.cluster.as_str()).expect("name"),
                        master_node_address: n.addr.clone(),
                        replicas: peers_of(n.peers),
                    })
                    .collect(),
                replicas: replicas
                    .iter()
                    .map(|n| ReplicaMeta {
                        cluster_name: ClusterName::try_from(n.cluster.as_str()).expect("name"),
                        replica_node_address: n.addr.clone(),
                        masters: peers_of(n.peers),
                    })
                    .collect(),
            };
            let mut args = encode_repl_meta(meta);
            args[1] = flags.clone();
            let mut elems = vec![b"UMCTL".to_vec(), b"SETREPL".to_vec()];
            elems.extend(args.into_iter().map(|a| a.into_bytes()));
            elems
        }
    }
}

fn reply_word(r: &Option<RespVec>) -> String {
    match r {
        Some(Resp::Simple(b)) if b == b"OK" => "ok".into(),
        Some(Resp::Error(b)) if b == b"OLD_EPOCH" => "old".into(),
        Some(Resp::Error(b)) if b == b"ERR_NOT_MY_META" => "notmine".into(),
        Some(other) => format!("other:{}", resp_to_string(other).replace(' ', "_")),
        None => "canceled".into(),
    }
}

fn bulk_text(r: &RespVec) -> String {
    match r {
        Resp::Bulk(BulkStr::Str(b)) => String::from_utf8_lossy(b).to_string(),
        _ => "?".to_string(),
    }
}

async fn roles_of(handler: &Handler) -> String {
    let r = send_cmd(handler, vec![b"UMCTL".to_vec(), b"INFOREPL".to_vec()]).await;
    let mut out = vec![];
    if let Some(Resp::Arr(Array::Arr(entries))) = r {
        for e in entries {
            if let Resp::Arr(Array::Arr(lines)) = e {
                let (mut cluster, mut role, mut addr, mut peers) = (String::new(), String::new(), String::new(), 0u64);
                let mut npeers = 0;
                for l in lines.iter() {
                    let t = bulk_text(l);
                    let t = t.strip_suffix('\n').unwrap_or(&t).to_string();
                    if let Some(v) = t.strip_prefix("cluster:") {
                        cluster = v.to_string();
                    } else if let Some(v) = t.strip_prefix("role:") {
                        role = if v == "master" { "M".into() } else if v == "replica" { "R".into() } else { format!("?{}", v) };
                    } else if let Some(v) = t.strip_prefix("node_address:") {
                        addr = v.to_string();
                    } else if let Some(v) = t.strip_prefix("replica:").or_else(|| t.strip_prefix("master:")) {
                        // <node>@<proxy>; the identifier is in the node port
                        npeers += 1;
                        let node = v.split('@').next().unwrap_or("");
                        let port: u64 = node.rsplit(':').next().unwrap_or("0").parse().unwrap_or(0);
                        peers = port.wrapping_sub(9000);
                    }
                }
                if npeers > 1 {
                    peers = 1_000_000 + npeers;
                }
                out.push(format!("{}:{}:{}:{}", hex(cluster.as_bytes()), hex(addr.as_bytes()), role, peers));
            }
        }
    } else {
        return format!("badreply");
    }
    out.sort();
    if out.is_empty() {
        "-".into()
    } else {
        out.join(",")
    }
}

async fn observe(p: &Proxy, reply: String) -> String {
    let h = &p.handler;
    let epoch = match send_cmd(h, vec![b"UMCTL".to_vec(), b"GETEPOCH".to_vec()]).await {
        Some(Resp::Integer(b)) => String::from_utf8_lossy(&b).to_string(),
        _ => "?".into(),
    };
    let content = match send_cmd(h, vec![b"UMCTL".to_vec(), b"LISTCLUSTER".to_vec()]).await {
        Some(Resp::Arr(Array::Arr(v))) if v.len() == 1 => {
            let name = bulk_text(&v[0]);
            if name.is_empty() {
                "-".to_string()
            } else if let Some(n) = name.strip_prefix('c') {
                n.to_string()
            } else {
                format!("?{}", name)
            }
        }
        _ => "?".into(),
    };
    p.log.lock().clear();
    let route = match send_cmd(h, vec![b"GET".to_vec(), PROBE.to_vec()]).await {
        Some(Resp::Error(e)) => {
            let t = String::from_utf8_lossy(&e).to_string();
            let parts: Vec<&str> = t.split(' ').collect();
            if parts.len() == 3 && parts[0] == "MOVED" {
                hex(parts[2].as_bytes())
            } else if t.starts_with("ERR_CLUSTER_NOT_FOUND") {
                "-".to_string()
            } else {
                format!("?{}", hex(&e))
            }
        }
        Some(_) => {
            let log = p.log.lock();
            match log.iter().find(|(_, c)| !c.is_empty() && c[0].eq_ignore_ascii_case(b"GET")) {
                Some((a, _)) => hex(a.as_bytes()),
                None => "?nolog".to_string(),
            }
        }
        None => "?canceled".into(),
    };
    let roles = roles_of(h).await;
    format!("{}/{}/{}/{}/{}", reply, epoch, content, route, roles)
}

async fn deliver(p: &Proxy, m: &Msg) -> String {
    let r = send_cmd(&p.handler, build_cmd(m)).await;
    reply_word(&r)
}

pub fn run_case(rt: &tokio::runtime::Runtime, line: &str) -> String {
    let mut it = line.split_whitespace();
    let kind = it.next().expect("kind");
    match kind {
        "seq" => {
            let host = s_of(it.next().expect("host"));
            let msgs = parse_msgs(&mut it);
            rt.block_on(async {
                let p = new_proxy(&host);
                let mut outs = vec!["seq".to_string()];
                for m in msgs.iter() {
                    let reply = deliver(&p, m).await;
                    outs.push(observe(&p, reply).await);
                }
                outs.join(" ")
            })
        }
        "conc" => {
            let host = s_of(it.next().expect("host"));
            let pre = parse_msgs(&mut it);
            let thr = parse_msgs(&mut it);
            let suf = parse_msgs(&mut it);
            let p = Arc::new(rt.block_on(async {
                let p = new_proxy(&host);
                for m in pre.iter() {
                    deliver(&p, m).await;
                }
                p
            }));
            let barrier = Arc::new(std::sync::Barrier::new(thr.len()));
            let handle = rt.handle().clone();
            let joins: Vec<_> = thr
                .iter()
                .cloned()
                .map(|m| {
                    let p = p.clone();
                    let b = barrier.clone();
                    let h = handle.clone();
                    let cmd = build_cmd(&m);
                    std::thread::spawn(move || {
                        b.wait();
                        let r = h.block_on(send_cmd(&p.handler, cmd));
                        reply_word(&r)
                    })
                })
                .collect();
            let replies: Vec<String> = joins.into_iter().map(|j| j.join().expect("thread")).collect();
            rt.block_on(async {
                let mut outs = vec!["conc".to_string(), replies.join(","), roles_of(&p.handler).await];
                for m in suf.iter() {
                    let reply = deliver(&p, m).await;
                    outs.push(observe(&p, reply).await);
                }
                outs.join(" ")
            })
        }
        other => format!("unknown-kind {}", other),
    }
}
