// C19: expiry handling on the three transfer paths, driven through the real code.
//   ttl <hex>                      -> pttl_to_restore_expire_time
//   push <pttl_resp> <dump_resp>   -> ScanMigrationTask::handle_sync_task (produce_entries + forward_entries)
//   scan <pttl_resp> <dump_resp>   -> the scan future (scan_and_migrate_keys)
//   pull <dump_resp> <pttl_resp>   -> RestoreDataCmdTaskHandler (get_data_entry + gen_restore_resp)
// Output: "ttl <hex>" or "cmd <hex..>" | "none-ok" | "none-err"
use crate::util::*;
use futures::{Future, FutureExt};
use parking_lot::Mutex;
use std::pin::Pin;
use std::sync::atomic::{AtomicUsize, Ordering};
use std::sync::Arc;
use std::time::Duration;
use undermoon::common::cluster::{RangeList, SlotRange, SlotRangeTag};
use undermoon::common::config::AtomicMigrationConfig;
use undermoon::common::utils::Wrapper;
use undermoon::migration::scan_migration::{pttl_to_restore_expire_time, ScanMigrationTask};
use undermoon::migration::stats::MigrationStats;
use undermoon::protocol::{
    Array, BinSafeStr, BulkStr, OptionalMulti, RedisClient, RedisClientError, RedisClientFactory,
    Resp, RespPacket, RespVec,
};
use undermoon::proxy::backend::{CmdTask, ReqTask, SenderBackendError};
use undermoon::proxy::command::{new_command_pair, CmdReplyReceiver, Command};
use undermoon::proxy::migration_backend::{RestoreDataCmdTaskHandler, WaitableTask};
use undermoon::proxy::sender::CmdTaskSender;
use undermoon::proxy::session::{CmdCtx, CmdCtxFactory};

#[derive(Default)]
struct Shared {
    pttl: Mutex<Option<RespVec>>,
    dump: Mutex<Option<RespVec>>,
    restores: Mutex<Vec<Vec<Vec<u8>>>>,
    scans: AtomicUsize,
    key: Mutex<Vec<u8>>,
    // batch cases: several keys in one SCAN batch, each with its own (PTTL, DUMP) replies
    batch_keys: Mutex<Vec<Vec<u8>>>,
    per_key: Mutex<std::collections::HashMap<Vec<u8>, (RespVec, RespVec)>>,
}

struct FakeClient {
    shared: Arc<Shared>,
}

impl FakeClient {
    fn answer(&self, cmd: &[BinSafeStr]) -> RespVec {
        let name = String::from_utf8_lossy(&cmd[0]).to_uppercase();
        match name.as_str() {
            "PTTL" | "DUMP" if self.shared.per_key.lock().contains_key(&cmd[1]) => {
                let (p, d) = self.shared.per_key.lock().get(&cmd[1]).cloned().expect("per key");
                if name == "PTTL" {
                    p
                } else {
                    d
                }
            }
            "PTTL" => self.shared.pttl.lock().clone().expect("pttl"),
            "DUMP" => self.shared.dump.lock().clone().expect("dump"),
            "RESTORE" => {
                self.shared.restores.lock().push(cmd.to_vec());
                Resp::Simple(b"OK".to_vec())
            }
            "DEL" => Resp::Integer(b"1".to_vec()),
            "SCAN" => {
                let n = self.shared.scans.fetch_add(1, Ordering::SeqCst);
                let keys = if n == 0 {
                    let bk = self.shared.batch_keys.lock().clone();
                    if bk.is_empty() {
                        vec![Resp::Bulk(BulkStr::Str(self.shared.key.lock().clone()))]
                    } else {
                        bk.into_iter().map(|k| Resp::Bulk(BulkStr::Str(k))).collect()
                    }
                } else {
                    vec![]
                };
                Resp::Arr(Array::Arr(vec![
                    Resp::Bulk(BulkStr::Str(b"0".to_vec())),
                    Resp::Arr(Array::Arr(keys)),
                ]))
            }
            _ => Resp::Error(b"unexpected".to_vec()),
        }
    }
}

impl RedisClient for FakeClient {
    fn execute<'s>(
        &'s mut self,
        command: OptionalMulti<Vec<BinSafeStr>>,
    ) -> Pin<Box<dyn Future<Output = Result<OptionalMulti<RespVec>, RedisClientError>> + Send + 's>>
    {
        let res = match command {
            OptionalMulti::Single(c) => OptionalMulti::Single(self.answer(&c)),
            OptionalMulti::Multi(cs) => {
                OptionalMulti::Multi(cs.iter().map(|c| self.answer(c)).collect())
            }
        };
        Box::pin(async move { Ok(res) })
    }
}

struct FakeFactory {
    shared: Arc<Shared>,
}

impl RedisClientFactory for FakeFactory {
    type Client = FakeClient;
    fn create_client<'s>(
        &'s self,
        _address: String,
    ) -> Pin<Box<dyn Future<Output = Result<Self::Client, RedisClientError>> + Send + 's>> {
        let shared = self.shared.clone();
        Box::pin(async move { Ok(FakeClient { shared }) })
    }
}

fn new_ctx(args: &[&[u8]]) -> (CmdCtx, CmdReplyReceiver) {
    let packet = Box::new(RespPacket::from_resp_vec(bulk_cmd(args)));
    let cmd = Command::new(packet);
    let (s, r) = new_command_pair(&cmd);
    (CmdCtx::new(cmd, s, 0, false), r)
}

fn fmt_restores(restores: &[Vec<Vec<u8>>], ok: bool) -> String {
    if restores.is_empty() {
        return if ok { "none-ok".into() } else { "none-err".into() };
    }
    let mut parts = vec![];
    for r in restores {
        let mut s = vec!["cmd".to_string()];
        for a in r {
            s.push(hex(a));
        }
        parts.push(s.join(" "));
    }
    parts.join(" | ")
}

const KEY: &[u8] = b"k";

fn new_scan_task(shared: Arc<Shared>) -> ScanMigrationTask<CmdCtx, FakeFactory> {
    *shared.key.lock() = KEY.to_vec();
    let meta = undermoon::common::cluster::MigrationMeta {
        epoch: 1,
        src_proxy_address: "127.0.0.1:1".into(),
        src_node_address: "127.0.0.1:2".into(),
        dst_proxy_address: "127.0.0.1:3".into(),
        dst_node_address: "127.0.0.1:4".into(),
    };
    let slot_range = SlotRange {
        range_list: RangeList::from_single_range(undermoon::common::cluster::Range(0, 16383)),
        tag: SlotRangeTag::Migrating(meta),
    };
    ScanMigrationTask::new(
        "127.0.0.1:2".into(),
        "127.0.0.1:4".into(),
        slot_range,
        Arc::new(FakeFactory { shared }),
        Arc::new(AtomicMigrationConfig::default()),
        Arc::new(MigrationStats::default()),
    )
}

async fn reply_is_ok(r: CmdReplyReceiver) -> bool {
    match r.await {
        Ok(reply) => {
            let (_, packet, _) = reply.into_inner();
            !matches!(packet.to_resp_slice(), Resp::Error(_))
        }
        Err(_) => false,
    }
}

struct Sender {
    shared: Arc<Shared>,
    exists: bool,
}

impl Sender {
    fn handle(&self, ctx: CmdCtx) {
        let name = ctx
            .get_cmd()
            .get_command_name()
            .unwrap_or("")
            .to_string()
            .to_uppercase();
        let resp = match name.as_str() {
            "EXISTS" => Resp::Integer(if self.exists { b"1".to_vec() } else { b"0".to_vec() }),
            "PTTL" => self.shared.pttl.lock().clone().expect("pttl"),
            "DUMP" => self.shared.dump.lock().clone().expect("dump"),
            "RESTORE" => {
                let mut v = vec![];
                let mut i = 0;
                while let Some(e) = ctx.get_cmd().get_command_element(i) {
                    v.push(e.to_vec());
                    i += 1;
                }
                self.shared.restores.lock().push(v);
                Resp::Simple(b"OK".to_vec())
            }
            "GET" => Resp::Bulk(BulkStr::Str(b"v".to_vec())),
            "DEL" => Resp::Integer(b"1".to_vec()),
            _ => Resp::Error(b"unexpected".to_vec()),
        };
        ctx.set_resp_result(Ok(resp));
    }
}

struct PlainSender(Sender);
impl CmdTaskSender for PlainSender {
    type Task = ReqTask<CmdCtx>;
    fn send(&self, t: Self::Task) -> Result<(), SenderBackendError<Self::Task>> {
        match t {
            ReqTask::Simple(c) => self.0.handle(c),
            ReqTask::Multi(cs) => cs.into_iter().for_each(|c| self.0.handle(c)),
        }
        Ok(())
    }
}
struct WaitSender(Sender);
impl CmdTaskSender for WaitSender {
    type Task = ReqTask<WaitableTask<CmdCtx>>;
    fn send(&self, t: Self::Task) -> Result<(), SenderBackendError<Self::Task>> {
        match t {
            ReqTask::Simple(c) => self.0.handle(Wrapper::<CmdCtx>::from(c).into_inner()),
            ReqTask::Multi(cs) => cs
                .into_iter()
                .for_each(|c| self.0.handle(Wrapper::<CmdCtx>::from(c).into_inner())),
        }
        Ok(())
    }
}

pub fn run_case(rt: &tokio::runtime::Runtime, line: &str) -> String {
    let mut it = line.split_whitespace();
    let kind = it.next().expect("kind");
    match kind {
        "ttl" => {
            let b = unhex(it.next().expect("hex"));
            format!("ttl {}", hex(&pttl_to_restore_expire_time(b)))
        }
        "push" | "scan" => {
            let pttl = parse_resp_tokens(&mut it);
            let dump = parse_resp_tokens(&mut it);
            let shared = Arc::new(Shared::default());
            *shared.pttl.lock() = Some(pttl);
            *shared.dump.lock() = Some(dump);
            let task = new_scan_task(shared.clone());
            if kind == "push" {
                let (ctx, r) = new_ctx(&[b"UMSYNC", KEY]);
                let ok = rt.block_on(async {
                    task.handle_sync_task(ctx).await;
                    reply_is_ok(r).await
                });
                let out = fmt_restores(&shared.restores.lock(), ok);
            out
            } else {
                let fut = task.start().expect("fut");
                let finished = rt.block_on(async {
                    tokio::time::timeout(Duration::from_millis(300), fut)
                        .await
                        .is_ok()
                });
                // a reply the scanner treats as invalid makes it retry forever (SCAN asked again)
                let ok = finished && shared.scans.load(Ordering::SeqCst) == 1;
                let out = fmt_restores(&shared.restores.lock(), ok);
            out
            }
        }
        "batch" => {
            // batch <n> <pttl_1> <dump_1> .. <pttl_n> <dump_n>: n keys returned by one SCAN call, through the scan future
            let n: usize = it.next().expect("n").parse().expect("n");
            let shared = Arc::new(Shared::default());
            let mut keys = vec![];
            for i in 0..n {
                let p = parse_resp_tokens(&mut it);
                let d = parse_resp_tokens(&mut it);
                let k = format!("k{}", i).into_bytes();
                shared.per_key.lock().insert(k.clone(), (p, d));
                keys.push(k);
            }
            *shared.batch_keys.lock() = keys;
            let task = new_scan_task(shared.clone());
            let fut = task.start().expect("fut");
            let finished = rt.block_on(async {
                tokio::time::timeout(Duration::from_millis(400), fut)
                    .await
                    .is_ok()
            });
            let ok = finished && shared.scans.load(Ordering::SeqCst) == 1;
            let out = fmt_restores(&shared.restores.lock(), ok);
            out
        }
        "pull" => {
            let dump = parse_resp_tokens(&mut it);
            let pttl = parse_resp_tokens(&mut it);
            let shared = Arc::new(Shared::default());
            *shared.pttl.lock() = Some(pttl);
            *shared.dump.lock() = Some(dump);
            let handler = RestoreDataCmdTaskHandler::new(
                PlainSender(Sender {
                    shared: shared.clone(),
                    exists: true,
                }),
                WaitSender(Sender {
                    shared: shared.clone(),
                    exists: false,
                }),
                PlainSender(Sender {
                    shared: shared.clone(),
                    exists: false,
                }),
                Arc::new(CmdCtxFactory::default()),
                Arc::new(MigrationStats::default()),
            );
            let (ctx, r) = new_ctx(&[b"GET", KEY]);
            let ok = rt.block_on(async {
                if handler.handle_cmd_task(ctx).is_err() {
                    return false;
                }
                let run = handler.run_task_handler().map(|()| false);
                futures::select! {
                    ok = reply_is_ok(r).fuse() => ok,
                    x = run.fuse() => x,
                }
            });
            let out = fmt_restores(&shared.restores.lock(), ok);
            out
        }
        other => format!("unknown-kind {}", other),
    }
}
