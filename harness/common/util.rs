// Shared helpers: hex, textual RESP case codec, canonical printing.
use undermoon::protocol::{Array, BulkStr, Resp, RespVec};

pub fn hex(b: &[u8]) -> String {
    if b.is_empty() {
        return "-".to_string();
    }
    let mut s = String::with_capacity(b.len() * 2);
    for x in b {
        s.push_str(&format!("{:02x}", x));
    }
    s
}

pub fn unhex(s: &str) -> Vec<u8> {
    if s == "-" {
        return vec![];
    }
    let bs = s.as_bytes();
    let mut out = Vec::with_capacity(bs.len() / 2);
    let mut i = 0;
    while i + 1 < bs.len() {
        let h = (bs[i] as char).to_digit(16).expect("hex");
        let l = (bs[i + 1] as char).to_digit(16).expect("hex");
        out.push((h * 16 + l) as u8);
        i += 2;
    }
    out
}

// prefix token notation: S h | E h | I h | B h | BN | AN | A n e1 .. en
pub fn parse_resp_tokens<'a, I: Iterator<Item = &'a str>>(it: &mut I) -> RespVec {
    let t = it.next().expect("resp token");
    match t {
        "S" => Resp::Simple(unhex(it.next().expect("payload"))),
        "E" => Resp::Error(unhex(it.next().expect("payload"))),
        "I" => Resp::Integer(unhex(it.next().expect("payload"))),
        "B" => Resp::Bulk(BulkStr::Str(unhex(it.next().expect("payload")))),
        "BN" => Resp::Bulk(BulkStr::Nil),
        "AN" => Resp::Arr(Array::Nil),
        "A" => {
            let n: usize = it.next().expect("len").parse().expect("len");
            let mut v = Vec::with_capacity(n);
            for _ in 0..n {
                v.push(parse_resp_tokens(it));
            }
            Resp::Arr(Array::Arr(v))
        }
        other => panic!("bad resp token {}", other),
    }
}

pub fn resp_tokens(r: &RespVec, out: &mut Vec<String>) {
    match r {
        Resp::Simple(b) => {
            out.push("S".into());
            out.push(hex(b))
        }
        Resp::Error(b) => {
            out.push("E".into());
            out.push(hex(b))
        }
        Resp::Integer(b) => {
            out.push("I".into());
            out.push(hex(b))
        }
        Resp::Bulk(BulkStr::Str(b)) => {
            out.push("B".into());
            out.push(hex(b))
        }
        Resp::Bulk(BulkStr::Nil) => out.push("BN".into()),
        Resp::Arr(Array::Nil) => out.push("AN".into()),
        Resp::Arr(Array::Arr(v)) => {
            out.push("A".into());
            out.push(v.len().to_string());
            for e in v {
                resp_tokens(e, out);
            }
        }
    }
}

pub fn resp_to_string(r: &RespVec) -> String {
    let mut v = vec![];
    resp_tokens(r, &mut v);
    v.join(" ")
}

pub fn bulk_cmd(args: &[&[u8]]) -> RespVec {
    Resp::Arr(Array::Arr(
        args.iter()
            .map(|a| Resp::Bulk(BulkStr::Str(a.to_vec())))
            .collect(),
    ))
}
