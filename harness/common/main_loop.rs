// Shared main loop of every harness binary: reads case lines on stdin, prints one canonical result line per case.
// A panic inside a case is caught and printed as "panic <message>" so that one bad case does not hide the others.
use std::io::{self, BufRead, Write};
use std::panic::{catch_unwind, AssertUnwindSafe};

pub fn main_loop<F: Fn(&tokio::runtime::Runtime, &str) -> String>(f: F) {
    let stdin = io::stdin();
    let stdout = io::stdout();
    let mut out = io::BufWriter::new(stdout.lock());
    let rt = tokio::runtime::Builder::new_multi_thread()
        .worker_threads(2)
        .enable_all()
        .build()
        .expect("runtime");
    std::panic::set_hook(Box::new(|_| {}));
    for line in stdin.lock().lines() {
        let line = line.expect("line");
        let line = line.trim();
        if line.is_empty() || line.starts_with('#') {
            continue;
        }
        let res = match catch_unwind(AssertUnwindSafe(|| f(&rt, line))) {
            Ok(s) => s,
            Err(e) => {
                let msg = if let Some(s) = e.downcast_ref::<&str>() {
                    s.to_string()
                } else if let Some(s) = e.downcast_ref::<String>() {
                    s.clone()
                } else {
                    "?".to_string()
                };
                format!("panic {}", msg.replace('\n', " "))
            }
        };
        writeln!(out, "{}", res).expect("write");
        out.flush().expect("flush");
    }
}
