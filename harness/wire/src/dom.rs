// C17: control-plane wire encodings, driven through the real encoders and parsers.
// Case-line syntax and result lines: see /verif/ocaml/d_wire.ml (both sides print identical lines when they agree).
//   *_enc <value>  -> the real encoder            *_dec <hex tokens> -> the real parser
//   pcm_dec  = ProxyClusterMeta::from_resp on [UMCTL, SETCLUSTER, tokens..]     repl_dec = ReplicatorMeta::from_resp
//   pcm_zrt  = to_compressed_args + from_resp (the real serde_json + gzip + base64)
//   pcm_zenc = compressed args in hex (implementation only; input of the base64 mutation sweep)
//   coord_infomgr <hex> = the coordinator's real MigrationStateRespChecker::check (private parse_migration_task_meta) on an INFOMGR
//                         reply element; infomgr_e2e = the whole journey on real proxies (src/e2e.rs).  Nothing of the INFOMGR
//                         pair is repeated in this harness.
use crate::util::*;
use futures::{Future, StreamExt};
use parking_lot::Mutex;
use std::collections::HashMap;
use std::pin::Pin;
use std::sync::Arc;
use std::convert::TryFrom;
use undermoon::common::cluster::{
    ClusterName, MigrationMeta, MigrationTaskMeta, Node, PeerProxy, Proxy, Range, RangeList, ReplMeta, ReplPeer, Role,
    SlotRange, SlotRangeTag,
};
use undermoon::coordinator::verif::{
    MigrationStateChecker, MigrationStateRespChecker, ProxyMetaRespSender, ProxyMetaSender,
};
use undermoon::protocol::{BinSafeStr, OptionalMulti, RedisClient, RedisClientError, RedisClientFactory, RespVec};
use undermoon::common::config::{ClusterConfig, CompressionStrategy};
use undermoon::common::proto::{ClusterMapFlags, ProxyClusterMeta};
use undermoon::common::utils::CmdParseError;
use undermoon::migration::task::SwitchArg;
use undermoon::protocol::{Array, BulkStr, Resp};
use undermoon::replication::replicator::{encode_repl_meta, MasterMeta, ReplicaMeta, ReplicatorMeta};

// a control connection that records every command; UMCTL INFOMGR is answered with the configured reply, everything else with +OK
struct Wire {
    sent: Mutex<Vec<Vec<Vec<u8>>>>,
    infomgr: Mutex<Option<RespVec>>,
}
struct FakeClient {
    w: Arc<Wire>,
}
impl RedisClient for FakeClient {
    fn execute<'s>(
        &'s mut self,
        command: OptionalMulti<Vec<BinSafeStr>>,
    ) -> Pin<Box<dyn Future<Output = Result<OptionalMulti<RespVec>, RedisClientError>> + Send + 's>> {
        let w = self.w.clone();
        let answer = move |c: &Vec<BinSafeStr>| -> RespVec {
            w.sent.lock().push(c.clone());
            if c.len() >= 2 && c[1] == b"INFOMGR" {
                w.infomgr.lock().clone().unwrap_or(Resp::Arr(Array::Arr(vec![])))
            } else {
                Resp::Simple(b"OK".to_vec())
            }
        };
        let res = match command {
            OptionalMulti::Single(c) => OptionalMulti::Single(answer(&c)),
            OptionalMulti::Multi(cs) => OptionalMulti::Multi(cs.iter().map(|c| answer(c)).collect()),
        };
        Box::pin(async move { Ok(res) })
    }
}
struct FakeFactory {
    w: Arc<Wire>,
}
impl RedisClientFactory for FakeFactory {
    type Client = FakeClient;
    fn create_client<'s>(
        &'s self,
        _address: String,
    ) -> Pin<Box<dyn Future<Output = Result<Self::Client, RedisClientError>> + Send + 's>> {
        let w = self.w.clone();
        Box::pin(async move { Ok(FakeClient { w }) })
    }
}

struct Rd<'a> {
    it: std::str::SplitWhitespace<'a>,
}

struct Bad;

impl<'a> Rd<'a> {
    fn next(&mut self) -> &'a str {
        self.it.next().expect("missing token")
    }
    fn cnt(&mut self) -> usize {
        self.next().parse().expect("count")
    }
    fn u64(&mut self) -> Result<u64, Bad> {
        self.next().parse::<u64>().map_err(|_| Bad)
    }
    fn s(&mut self) -> Result<String, Bad> {
        String::from_utf8(unhex(self.next())).map_err(|_| Bad)
    }
    fn flags(&mut self) -> ClusterMapFlags {
        let v = self.cnt();
        ClusterMapFlags {
            force: v & 1 == 1,
            compress: v & 2 == 2,
        }
    }
    fn rl(&mut self) -> Result<RangeList, Bad> {
        let n = self.cnt();
        let mut v = vec![];
        let mut bad = false;
        for _ in 0..n {
            let s = self.u64();
            let e = self.u64();
            match (s, e) {
                (Ok(s), Ok(e)) => v.push(Range(s as usize, e as usize)),
                _ => bad = true,
            }
        }
        if bad {
            return Err(Bad);
        }
        // keep the list exactly as given (RangeList::new would compact it)
        let mut rl = RangeList::new(vec![]);
        *rl.get_mut_ranges() = v;
        Ok(rl)
    }
    fn mm(&mut self) -> Result<MigrationMeta, Bad> {
        let epoch = self.u64();
        let a = self.s();
        let b = self.s();
        let c = self.s();
        let d = self.s();
        Ok(MigrationMeta {
            epoch: epoch?,
            src_proxy_address: a?,
            src_node_address: b?,
            dst_proxy_address: c?,
            dst_node_address: d?,
        })
    }
    fn sr(&mut self) -> Result<SlotRange, Bad> {
        let t = self.next();
        let rl = self.rl();
        let tag = match t {
            "N" => Ok(SlotRangeTag::None),
            "M" => self.mm().map(SlotRangeTag::Migrating),
            "I" => self.mm().map(SlotRangeTag::Importing),
            _ => panic!("bad tag"),
        };
        Ok(SlotRange {
            range_list: rl?,
            tag: tag?,
        })
    }
    fn nm(&mut self) -> Result<Vec<(String, Vec<SlotRange>)>, Bad> {
        let n = self.cnt();
        let mut out = vec![];
        let mut bad = false;
        for _ in 0..n {
            let a = self.s();
            let k = self.cnt();
            let mut srs = vec![];
            for _ in 0..k {
                match self.sr() {
                    Ok(sr) => srs.push(sr),
                    Err(_) => bad = true,
                }
            }
            match a {
                Ok(a) => out.push((a, srs)),
                Err(_) => bad = true,
            }
        }
        if bad {
            Err(Bad)
        } else {
            Ok(out)
        }
    }
    fn cfg(&mut self) -> Result<ClusterConfig, Bad> {
        let s = match self.cnt() {
            0 => CompressionStrategy::Disabled,
            1 => CompressionStrategy::SetGetOnly,
            _ => CompressionStrategy::AllowAll,
        };
        let a = self.u64();
        let b = self.u64();
        let c = self.u64();
        let d = self.u64();
        let mut cfg = ClusterConfig::default();
        cfg.compression_strategy = s;
        cfg.migration_config.max_migration_time = a?;
        cfg.migration_config.max_blocking_time = b?;
        cfg.migration_config.scan_interval = c?;
        cfg.migration_config.scan_count = d?;
        Ok(cfg)
    }
    fn name(&mut self) -> Result<ClusterName, Bad> {
        let s = self.s()?;
        ClusterName::try_from(s.as_str()).map_err(|_| Bad)
    }
    fn pcm(&mut self) -> Result<ProxyClusterMeta, Bad> {
        let epoch = self.u64();
        let flags = self.flags();
        let name = self.name();
        let local = self.nm();
        let peer = self.nm();
        let cfg = self.cfg();
        let to_map = |v: Vec<(String, Vec<SlotRange>)>| v.into_iter().collect::<HashMap<_, _>>();
        Ok(ProxyClusterMeta::new(
            epoch?,
            flags,
            name?,
            to_map(local?),
            to_map(peer?),
            cfg?,
        ))
    }
    fn rec(&mut self) -> Result<(ClusterName, String, Vec<ReplPeer>), Bad> {
        let c = self.name();
        let a = self.s();
        let k = self.cnt();
        let mut ps = vec![];
        let mut bad = false;
        for _ in 0..k {
            let x = self.s();
            let y = self.s();
            match (x, y) {
                (Ok(x), Ok(y)) => ps.push(ReplPeer {
                    node_address: x,
                    proxy_address: y,
                }),
                _ => bad = true,
            }
        }
        if bad {
            return Err(Bad);
        }
        Ok((c?, a?, ps))
    }
    fn repl(&mut self) -> Result<ReplicatorMeta, Bad> {
        let epoch = self.u64();
        let flags = self.flags();
        let n = self.cnt();
        let mut masters = vec![];
        let mut bad = false;
        for _ in 0..n {
            match self.rec() {
                Ok((cluster_name, master_node_address, replicas)) => masters.push(MasterMeta {
                    cluster_name,
                    master_node_address,
                    replicas,
                }),
                Err(_) => bad = true,
            }
        }
        let n = self.cnt();
        let mut replicas = vec![];
        for _ in 0..n {
            match self.rec() {
                Ok((cluster_name, replica_node_address, masters)) => replicas.push(ReplicaMeta {
                    cluster_name,
                    replica_node_address,
                    masters,
                }),
                Err(_) => bad = true,
            }
        }
        if bad {
            return Err(Bad);
        }
        Ok(ReplicatorMeta {
            epoch: epoch?,
            flags,
            masters,
            replicas,
        })
    }
    fn task(&mut self) -> Result<MigrationTaskMeta, Bad> {
        let c = self.name();
        let sr = self.sr();
        Ok(MigrationTaskMeta {
            cluster_name: c?,
            slot_range: sr?,
        })
    }
    // <name hex | ~> <epoch> <n> {<addr> <m|r> <k> {sr} <np> {<node> <proxy>}} <nm peers> <cfg>
    fn cproxy(&mut self) -> Result<Proxy, Bad> {
        let name = match self.next() {
            "~" => Ok(None),
            h => String::from_utf8(unhex(h))
                .map_err(|_| Bad)
                .and_then(|s| ClusterName::try_from(s.as_str()).map_err(|_| Bad))
                .map(Some),
        };
        let epoch = self.u64();
        let n = self.cnt();
        let mut nodes = vec![];
        let mut bad = false;
        for _ in 0..n {
            let a = self.s();
            let role = if self.next() == "m" { Role::Master } else { Role::Replica };
            let k = self.cnt();
            let mut srs = vec![];
            for _ in 0..k {
                match self.sr() {
                    Ok(sr) => srs.push(sr),
                    Err(_) => bad = true,
                }
            }
            let np = self.cnt();
            let mut ps = vec![];
            for _ in 0..np {
                match (self.s(), self.s()) {
                    (Ok(x), Ok(y)) => ps.push(ReplPeer {
                        node_address: x,
                        proxy_address: y,
                    }),
                    _ => bad = true,
                }
            }
            match a {
                Ok(a) => nodes.push(Node::new(a, "10.255.0.1:5299".to_string(), srs, ReplMeta::new(role, ps))),
                Err(_) => bad = true,
            }
        }
        let peers = self.nm();
        let cfg = self.cfg();
        if bad {
            return Err(Bad);
        }
        let peers = peers?
            .into_iter()
            .map(|(proxy_address, slots)| PeerProxy { proxy_address, slots })
            .collect();
        Ok(Proxy::new(name?, "10.255.0.1:5299".to_string(), epoch?, nodes, peers, Some(cfg?)))
    }
    fn toks(&mut self) -> Vec<Vec<u8>> {
        let mut v = vec![];
        while let Some(t) = self.it.next() {
            v.push(unhex(t));
        }
        v
    }
}

fn pr_flags(f: &ClusterMapFlags) -> String {
    ((f.force as u8) + 2 * (f.compress as u8)).to_string()
}
fn pr_rl(rl: &RangeList) -> String {
    let mut v = vec![rl.get_ranges().len().to_string()];
    for r in rl.get_ranges() {
        v.push(r.start().to_string());
        v.push(r.end().to_string());
    }
    v.join(" ")
}
fn pr_mm(m: &MigrationMeta) -> String {
    format!(
        "{} {} {} {} {}",
        m.epoch,
        hex(m.src_proxy_address.as_bytes()),
        hex(m.src_node_address.as_bytes()),
        hex(m.dst_proxy_address.as_bytes()),
        hex(m.dst_node_address.as_bytes())
    )
}
fn pr_sr(sr: &SlotRange) -> String {
    match &sr.tag {
        SlotRangeTag::None => format!("N {}", pr_rl(&sr.range_list)),
        SlotRangeTag::Migrating(m) => format!("M {} {}", pr_rl(&sr.range_list), pr_mm(m)),
        SlotRangeTag::Importing(m) => format!("I {} {}", pr_rl(&sr.range_list), pr_mm(m)),
    }
}
fn pr_nm(nm: &HashMap<String, Vec<SlotRange>>) -> String {
    let mut items: Vec<(String, String)> = nm
        .iter()
        .map(|(a, srs)| {
            let h = hex(a.as_bytes());
            let mut v = vec![h.clone(), srs.len().to_string()];
            v.extend(srs.iter().map(pr_sr));
            (h, v.join(" "))
        })
        .collect();
    items.sort();
    let mut v = vec![nm.len().to_string()];
    v.extend(items.into_iter().map(|(_, s)| s));
    v.join(" ")
}
fn pr_cfg(c: &ClusterConfig) -> String {
    let s = match c.compression_strategy {
        CompressionStrategy::Disabled => 0,
        CompressionStrategy::SetGetOnly => 1,
        CompressionStrategy::AllowAll => 2,
    };
    format!(
        "{} {} {} {} {}",
        s,
        c.migration_config.max_migration_time,
        c.migration_config.max_blocking_time,
        c.migration_config.scan_interval,
        c.migration_config.scan_count
    )
}
fn pr_pcm(m: &ProxyClusterMeta) -> String {
    format!(
        "{} {} {} {} {} {}",
        m.get_epoch(),
        pr_flags(&m.get_flags()),
        hex(m.get_cluster_name().as_str().as_bytes()),
        pr_nm(m.get_local()),
        pr_nm(m.get_peer()),
        pr_cfg(m.get_config())
    )
}
fn pr_rec(c: &ClusterName, a: &str, ps: &[ReplPeer]) -> String {
    let mut v = vec![hex(c.as_str().as_bytes()), hex(a.as_bytes()), ps.len().to_string()];
    for p in ps {
        v.push(hex(p.node_address.as_bytes()));
        v.push(hex(p.proxy_address.as_bytes()));
    }
    v.join(" ")
}
fn pr_repl(m: &ReplicatorMeta) -> String {
    let mut v = vec![m.epoch.to_string(), pr_flags(&m.flags), m.masters.len().to_string()];
    for x in &m.masters {
        v.push(pr_rec(&x.cluster_name, &x.master_node_address, &x.replicas));
    }
    v.push(m.replicas.len().to_string());
    for x in &m.replicas {
        v.push(pr_rec(&x.cluster_name, &x.replica_node_address, &x.masters));
    }
    v.join(" ")
}
fn pr_task(t: &MigrationTaskMeta) -> String {
    format!("{} {}", hex(t.cluster_name.as_str().as_bytes()), pr_sr(&t.slot_range))
}
fn pr_toks(v: &[String]) -> String {
    let mut out = vec!["toks".to_string()];
    out.extend(v.iter().map(|s| hex(s.as_bytes())));
    out.join(" ")
}
fn pr_err(e: &CmdParseError) -> String {
    format!("err {:?}", e)
}

// the tokens as the `String` iterator the parsers take; a token that is not UTF-8 cannot be a String
fn strings(toks: &[Vec<u8>]) -> Option<Vec<String>> {
    toks.iter().map(|t| String::from_utf8(t.clone()).ok()).collect()
}

fn umctl(sub: &str, toks: &[Vec<u8>]) -> Resp<Vec<u8>> {
    let mut v = vec![
        Resp::Bulk(BulkStr::Str(b"UMCTL".to_vec())),
        Resp::Bulk(BulkStr::Str(sub.as_bytes().to_vec())),
    ];
    v.extend(toks.iter().map(|t| Resp::Bulk(BulkStr::Str(t.clone()))));
    Resp::Arr(Array::Arr(v))
}

fn pcm_dec(toks: &[Vec<u8>]) -> String {
    match ProxyClusterMeta::from_resp(&umctl("SETCLUSTER", toks)) {
        Ok((m, ext)) => format!("ok {} ext={}", pr_pcm(&m), ext.is_ok() as u8),
        Err(e) => pr_err(&e),
    }
}

const UNC: &str = "unconstructible";

fn cmd_resp(cmd: &[Vec<u8>]) -> Resp<Vec<u8>> {
    Resp::Arr(Array::Arr(cmd.iter().map(|t| Resp::Bulk(BulkStr::Str(t.clone()))).collect()))
}

pub fn run_case(rt: &tokio::runtime::Runtime, line: &str) -> String {
    let mut it = line.split_whitespace();
    let kind = it.next().unwrap_or("");
    let mut rd = Rd { it };
    match kind {
        "rl_enc" => match rd.rl() {
            Ok(rl) => pr_toks(&rl.to_strings()),
            Err(_) => UNC.into(),
        },
        "rl_new" => match rd.rl() {
            // RangeList::new = compact on the given ranges
            Ok(rl) => format!("ok {}", pr_rl(&RangeList::new(rl.get_ranges().to_vec()))),
            Err(_) => UNC.into(),
        },
        "rl_try" => {
            let s = match String::from_utf8(unhex(rd.next())) {
                Ok(s) => s,
                Err(_) => return "not-utf8".into(),
            };
            match RangeList::try_from(s.as_str()) {
                Ok(rl) => format!("ok {}", pr_rl(&rl)),
                Err(_) => "err None".into(),
            }
        }
        "mm_enc" => match rd.mm() {
            Ok(m) => pr_toks(&m.into_strings()),
            Err(_) => UNC.into(),
        },
        "mm_dec" => {
            let toks = match strings(&rd.toks()) {
                Some(t) => t,
                None => return "not-utf8".into(),
            };
            let mut it = toks.into_iter();
            match MigrationMeta::from_strings(&mut it) {
                Some(m) => format!("ok {} rest={}", pr_mm(&m), it.count()),
                None => "err None".into(),
            }
        }
        "sr_enc" => match rd.sr() {
            Ok(sr) => pr_toks(&sr.into_strings()),
            Err(_) => UNC.into(),
        },
        "sr_dec" => {
            let toks = match strings(&rd.toks()) {
                Some(t) => t,
                None => return "not-utf8".into(),
            };
            let mut it = toks.into_iter().peekable();
            match SlotRange::from_strings(&mut it) {
                Some(sr) => format!("ok {} rest={}", pr_sr(&sr), it.count()),
                None => "err None".into(),
            }
        }
        "task_enc" => match rd.task() {
            Ok(t) => pr_toks(&t.into_strings()),
            Err(_) => UNC.into(),
        },
        "task_dec" => {
            let toks = match strings(&rd.toks()) {
                Some(t) => t,
                None => return "not-utf8".into(),
            };
            let mut it = toks.into_iter().peekable();
            match MigrationTaskMeta::from_strings(&mut it) {
                Some(t) => format!("ok {} rest={}", pr_task(&t), it.count()),
                None => "err None".into(),
            }
        }
        "infomgr_e2e" => {
            // <name> <epoch> <k> {rl}: real migrations on two real proxies, real INFOMGR reply, real coordinator reader (src/e2e.rs)
            let name = rd.name();
            let epoch = rd.u64();
            let k = rd.cnt();
            let mut rls = vec![];
            for _ in 0..k {
                match rd.rl() {
                    Ok(rl) => rls.push(rl),
                    Err(_) => return UNC.into(),
                }
            }
            let (name, epoch) = match (name, epoch) {
                (Ok(n), Ok(e)) => (n, e),
                _ => return UNC.into(),
            };
            match rt.block_on(crate::e2e::infomgr_journey(name, epoch, rls)) {
                Err(e) => format!("journey-error {}", e),
                Ok(j) => {
                    let mut raw: Vec<String> = j.raw.iter().map(|s| hex(s)).collect();
                    raw.sort();
                    let dec = match j.decoded {
                        Ok(ts) => {
                            let mut v: Vec<String> = ts.iter().map(pr_task).collect();
                            v.sort();
                            format!("ok {} {}", v.len(), v.join(" ; "))
                        }
                        Err(_) => "err None".to_string(),
                    };
                    format!("reply {} | {}", raw.join(" "), dec)
                }
            }
        }
        "sw_enc" => {
            let v = rd.s();
            let t = rd.task();
            match (v, t) {
                (Ok(version), Ok(meta)) => pr_toks(&SwitchArg { version, meta }.into_strings()),
                _ => UNC.into(),
            }
        }
        "sw_dec" => {
            let toks = match strings(&rd.toks()) {
                Some(t) => t,
                None => return "not-utf8".into(),
            };
            let mut it = toks.into_iter().peekable();
            match SwitchArg::from_strings(&mut it) {
                Some(a) => format!(
                    "ok {} {} rest={}",
                    hex(a.version.as_bytes()),
                    pr_task(&a.meta),
                    it.count()
                ),
                None => "err None".into(),
            }
        }
        "flags_enc" => pr_toks(&[rd.flags().to_arg()]),
        "flags_dec" => match String::from_utf8(unhex(rd.next())) {
            Ok(s) => format!("ok {}", pr_flags(&ClusterMapFlags::from_arg(&s))),
            Err(_) => "not-utf8".into(),
        },
        "pcm_enc" => {
            let _ord = rd.next();
            match rd.pcm() {
                Ok(m) => pr_toks(&m.to_args()),
                Err(_) => UNC.into(),
            }
        }
        "pcm_zenc" => match rd.pcm() {
            Ok(m) => match m.to_compressed_args() {
                Ok(args) => pr_toks(&args),
                Err(e) => format!("compress-error {:?}", e),
            },
            Err(_) => UNC.into(),
        },
        "pcm_dec" => pcm_dec(&rd.toks()),
        "pcm_zrt" => match rd.pcm() {
            Ok(m) => match m.to_compressed_args() {
                Ok(args) => {
                    let toks: Vec<Vec<u8>> = args.into_iter().map(String::into_bytes).collect();
                    pcm_dec(&toks)
                }
                Err(e) => format!("compress-error {:?}", e),
            },
            Err(_) => UNC.into(),
        },
        "coord_send" => {
            // coordinator/sync.rs ProxyMetaRespSender::send_meta over a recording connection; both commands it sends are
            // handed to the parsers the proxy uses (proxy/executor.rs handle_umctl_setrepl / handle_umctl_set_cluster)
            let compress = rd.cnt() == 1;
            let proxy = match rd.cproxy() {
                Ok(p) => p,
                Err(_) => return UNC.into(),
            };
            let w = Arc::new(Wire {
                sent: Mutex::new(vec![]),
                infomgr: Mutex::new(None),
            });
            let sender = ProxyMetaRespSender::new(Arc::new(FakeFactory { w: w.clone() }), compress);
            if let Err(e) = rt.block_on(sender.send_meta(proxy)) {
                return format!("send-error {:?}", e);
            }
            let sent = w.sent.lock().clone();
            if sent.len() != 2 || sent[0].get(1).map(|t| t.as_slice()) != Some(b"SETREPL") || sent[1].get(1).map(|t| t.as_slice()) != Some(b"SETCLUSTER") {
                return format!("unexpected-commands {}", sent.len());
            }
            let repl = match ReplicatorMeta::from_resp(&cmd_resp(&sent[0])) {
                Ok(m) => format!("ok {}", pr_repl(&m)),
                Err(e) => pr_err(&e),
            };
            let cluster = match ProxyClusterMeta::from_resp(&cmd_resp(&sent[1])) {
                Ok((m, ext)) => format!("ok {} ext={}", pr_pcm(&m), ext.is_ok() as u8),
                Err(e) => pr_err(&e),
            };
            format!("repl {} | cluster {}", repl, cluster)
        }
        "coord_infomgr" => {
            // coordinator/migration.rs MigrationStateRespChecker::check (the real parse_migration_task_meta) on an INFOMGR reply
            let w = Arc::new(Wire {
                sent: Mutex::new(vec![]),
                infomgr: Mutex::new(Some(Resp::Arr(Array::Arr(vec![Resp::Bulk(BulkStr::Str(unhex(rd.next())))])))),
            });
            let checker = MigrationStateRespChecker::new(Arc::new(FakeFactory { w }));
            let res: Vec<_> = rt.block_on(checker.check("10.255.0.1:5299".to_string()).collect());
            match res.as_slice() {
                [Ok(t)] => format!("ok {}", pr_task(t)),
                [Err(_)] => "err None".into(),
                _ => format!("unexpected-results {}", res.len()),
            }
        }
        "repl_enc" => match rd.repl() {
            Ok(m) => pr_toks(&encode_repl_meta(m)),
            Err(_) => UNC.into(),
        },
        "repl_dec" => match ReplicatorMeta::from_resp(&umctl("SETREPL", &rd.toks())) {
            Ok(m) => format!("ok {}", pr_repl(&m)),
            Err(e) => pr_err(&e),
        },
        k => format!("unknown-kind {}", k),
    }
}
