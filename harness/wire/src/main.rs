#[path = "../../common/main_loop.rs"]
mod main_loop;
#[path = "../../common/util.rs"]
#[allow(dead_code)]
mod util;
mod dom;
mod e2e;

fn main() {
    main_loop::main_loop(dom::run_case);
}
