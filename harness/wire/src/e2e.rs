// The INFOMGR journey end to end on real code: two real proxies (SharedForwardHandler) run real migrations over an in-process
// network with a Redis stand-in until the tasks are SwitchCommitted; the source proxy's real handle_umctl_info_migration then
// answers `UMCTL INFOMGR`, and the coordinator's real MigrationStateRespChecker::check (with its private
// parse_migration_task_meta) reads that reply over the same network.  Recipe after harness/ctrl.
use arc_swap::ArcSwap;
use futures::channel::mpsc;
use futures::{Future, SinkExt, StreamExt, TryStreamExt};
use parking_lot::Mutex;
use std::collections::HashMap;
use std::net::SocketAddr;
use std::num::NonZeroUsize;
use std::pin::Pin;
use std::sync::atomic::{AtomicBool, AtomicI64, AtomicU64};
use std::sync::Arc;
use std::time::Duration;
use undermoon::common::batch::BatchStrategy;
use undermoon::common::cluster::{ClusterName, MigrationMeta, MigrationTaskMeta, RangeList, SlotRange, SlotRangeTag};
use undermoon::common::config::ClusterConfig;
use undermoon::common::proto::{ClusterMapFlags, ProxyClusterMeta};
use undermoon::common::track::TrackedFutureRegistry;
use undermoon::coordinator::verif::{MigrationStateChecker, MigrationStateRespChecker};
use undermoon::protocol::{
    Array, BinSafeStr, BulkStr, OptionalMulti, RedisClient, RedisClientError, RedisClientFactory, Resp, RespPacket, RespVec,
};
use undermoon::proxy::backend::{BackendError, ConnFactory, ConnSink, ConnStream, CreateConnResult};
use undermoon::proxy::command::{new_command_pair, Command};
use undermoon::proxy::executor::SharedForwardHandler;
use undermoon::proxy::manager::MetaMap;
use undermoon::proxy::service::{ClusterNodesVersion, ServerProxyConfig};
use undermoon::proxy::session::{CmdCtx, CmdCtxHandler};
use undermoon::proxy::slowlog::SlowRequestLogger;

pub fn paddr(i: usize) -> String {
    format!("127.0.{}.1:5299", i)
}
fn phost(i: usize) -> String {
    format!("127.0.{}.1", i)
}
pub fn naddr(i: usize) -> String {
    format!("127.0.{}.1:7001", i)
}
fn is_proxy_addr(addr: &str) -> bool {
    addr.ends_with(":5299")
}

type Handler = SharedForwardHandler<ProxyNet, FakeConn>;

pub struct Registry {
    handlers: Mutex<HashMap<String, Arc<Handler>>>,
}

async fn send_cmd(handler: &Handler, elems: Vec<Vec<u8>>) -> Option<RespVec> {
    let resp = Resp::Arr(Array::Arr(elems.into_iter().map(|b| Resp::Bulk(BulkStr::Str(b))).collect()));
    let cmd = Command::new(Box::new(RespPacket::Data(resp)));
    let (s, r) = new_command_pair(&cmd);
    let ctx = CmdCtx::new(cmd, s, 0, false);
    let auth = AtomicBool::new(false);
    match handler.handle_cmd_ctx(ctx, r, &auth).await {
        Ok(reply) => Some(reply.into_resp_vec()),
        Err(_) => None,
    }
}

async fn dispatch(reg: &Registry, addr: &str, cmd: Vec<Vec<u8>>) -> Option<RespVec> {
    let h = { reg.handlers.lock().get(addr).cloned() };
    match h {
        Some(h) => send_cmd(&h, cmd).await,
        None => None,
    }
}

fn fake_redis(cmd: &[Vec<u8>]) -> RespVec {
    let name = cmd.get(0).map(|c| String::from_utf8_lossy(c).to_uppercase()).unwrap_or_default();
    match name.as_str() {
        "SCAN" => Resp::Arr(Array::Arr(vec![Resp::Bulk(BulkStr::Str(b"0".to_vec())), Resp::Arr(Array::Arr(vec![]))])),
        "PING" => Resp::Simple(b"PONG".to_vec()),
        "EXISTS" | "DEL" => Resp::Integer(b"0".to_vec()),
        "PTTL" => Resp::Integer(b"-2".to_vec()),
        "DUMP" | "GET" => Resp::Bulk(BulkStr::Nil),
        _ => Resp::Simple(b"OK".to_vec()),
    }
}

// control connections: to a proxy address -> that proxy's real command handler; anything else is the Redis stand-in
pub struct ProxyNet {
    reg: Arc<Registry>,
}
pub struct ProxyNetClient {
    reg: Arc<Registry>,
    addr: String,
}
impl ProxyNetClient {
    async fn one(&self, cmd: Vec<BinSafeStr>) -> Result<RespVec, RedisClientError> {
        if is_proxy_addr(&self.addr) {
            dispatch(&self.reg, &self.addr, cmd).await.ok_or(RedisClientError::Canceled)
        } else {
            Ok(fake_redis(&cmd))
        }
    }
}
impl RedisClient for ProxyNetClient {
    fn execute<'s>(
        &'s mut self,
        command: OptionalMulti<Vec<BinSafeStr>>,
    ) -> Pin<Box<dyn Future<Output = Result<OptionalMulti<RespVec>, RedisClientError>> + Send + 's>> {
        Box::pin(async move {
            match command {
                OptionalMulti::Single(c) => Ok(OptionalMulti::Single(self.one(c).await?)),
                OptionalMulti::Multi(cs) => {
                    let mut out = vec![];
                    for c in cs {
                        out.push(self.one(c).await?);
                    }
                    Ok(OptionalMulti::Multi(out))
                }
            }
        })
    }
}
impl RedisClientFactory for ProxyNet {
    type Client = ProxyNetClient;
    fn create_client<'s>(
        &'s self,
        address: String,
    ) -> Pin<Box<dyn Future<Output = Result<Self::Client, RedisClientError>> + Send + 's>> {
        let reg = self.reg.clone();
        Box::pin(async move { Ok(ProxyNetClient { reg, addr: address }) })
    }
}

pub struct FakeConn {
    reg: Arc<Registry>,
}
impl ConnFactory for FakeConn {
    type Pkt = RespPacket;
    fn create_conn(&self, addr: SocketAddr) -> Pin<Box<dyn Future<Output = CreateConnResult<Self::Pkt>> + Send>> {
        let (sender, receiver) = mpsc::unbounded();
        let reg = self.reg.clone();
        let addr_s = addr.to_string();
        let receiver = receiver.then(move |packet: RespPacket| {
            let reg = reg.clone();
            let addr_s = addr_s.clone();
            async move {
                let cmd: Vec<Vec<u8>> = match packet.to_resp_vec() {
                    Resp::Arr(Array::Arr(resps)) => resps
                        .iter()
                        .map(|r| match r {
                            Resp::Bulk(BulkStr::Str(s)) => s.clone(),
                            _ => vec![],
                        })
                        .collect(),
                    _ => vec![],
                };
                let reply = if is_proxy_addr(&addr_s) {
                    dispatch(&reg, &addr_s, cmd).await.unwrap_or_else(|| Resp::Error(b"ERR canceled".to_vec()))
                } else {
                    fake_redis(&cmd)
                };
                Ok::<_, ()>(RespPacket::Data(reply))
            }
        });
        let sink: ConnSink<RespPacket> = Box::pin(sender.sink_map_err(|_| BackendError::Canceled));
        let stream: ConnStream<RespPacket> = Box::pin(receiver.map_err(|_| BackendError::Canceled));
        Box::pin(async { Ok((sink, stream)) })
    }
}

fn new_handler(reg: &Arc<Registry>, i: usize) -> Arc<Handler> {
    let self_addr = paddr(i);
    let config = Arc::new(ServerProxyConfig {
        address: self_addr.clone(),
        announce_address: self_addr,
        announce_host: phost(i),
        slowlog_len: NonZeroUsize::new(16).unwrap(),
        slowlog_log_slower_than: AtomicI64::new(-1),
        slowlog_sample_rate: AtomicU64::new(1),
        thread_number: NonZeroUsize::new(2).unwrap(),
        backend_conn_num: NonZeroUsize::new(1).unwrap(),
        active_redirection: false,
        max_redirections: None,
        default_redirection_address: None,
        backend_batch_strategy: BatchStrategy::Disabled,
        backend_flush_size: NonZeroUsize::new(1024).unwrap(),
        backend_low_flush_interval: Duration::from_nanos(200_000),
        backend_high_flush_interval: Duration::from_nanos(800_000),
        session_timeout: None,
        backend_timeout: Duration::from_secs(3),
        password: None,
        command_cluster_nodes_version: ClusterNodesVersion::V2,
    });
    let meta_map = Arc::new(ArcSwap::new(Arc::new(MetaMap::empty())));
    let (stopped, rx) = mpsc::unbounded();
    std::mem::forget(rx);
    Arc::new(SharedForwardHandler::new(
        config.clone(),
        Arc::new(ProxyNet { reg: reg.clone() }),
        Arc::new(SlowRequestLogger::new(config)),
        meta_map,
        Arc::new(FakeConn { reg: reg.clone() }),
        Arc::new(TrackedFutureRegistry::default()),
        stopped,
    ))
}

fn set_cluster_cmd(epoch: u64, name: &ClusterName, local: (String, Vec<SlotRange>), peer: (String, Vec<SlotRange>)) -> Vec<Vec<u8>> {
    let mut l = HashMap::new();
    l.insert(local.0, local.1);
    let mut p = HashMap::new();
    p.insert(peer.0, peer.1);
    let meta = ProxyClusterMeta::new(
        epoch,
        ClusterMapFlags { force: false, compress: false },
        name.clone(),
        l,
        p,
        ClusterConfig::default(),
    );
    let mut cmd = vec![b"UMCTL".to_vec(), b"SETCLUSTER".to_vec()];
    cmd.extend(meta.to_args().into_iter().map(String::into_bytes));
    cmd
}

pub struct Journey {
    pub raw: Vec<Vec<u8>>,                               // elements of the source proxy's UMCTL INFOMGR reply
    pub decoded: Result<Vec<MigrationTaskMeta>, String>, // what the coordinator's checker made of it
}

// migrations of `ranges` (one task per range list) from proxy 1 / node 1 to proxy 2 / node 2 of cluster `name`, started at `epoch`
pub async fn infomgr_journey(name: ClusterName, epoch: u64, ranges: Vec<RangeList>) -> Result<Journey, String> {
    let reg = Arc::new(Registry { handlers: Mutex::new(HashMap::new()) });
    for i in 1..=2 {
        let h = new_handler(&reg, i);
        reg.handlers.lock().insert(paddr(i), h);
    }
    let meta = MigrationMeta {
        epoch,
        src_proxy_address: paddr(1),
        src_node_address: naddr(1),
        dst_proxy_address: paddr(2),
        dst_node_address: naddr(2),
    };
    let migrating: Vec<SlotRange> = ranges
        .iter()
        .map(|rl| SlotRange { range_list: rl.clone(), tag: SlotRangeTag::Migrating(meta.clone()) })
        .collect();
    let importing: Vec<SlotRange> = ranges
        .iter()
        .map(|rl| SlotRange { range_list: rl.clone(), tag: SlotRangeTag::Importing(meta.clone()) })
        .collect();
    let c1 = set_cluster_cmd(epoch, &name, (naddr(1), migrating.clone()), (paddr(2), importing.clone()));
    let c2 = set_cluster_cmd(epoch, &name, (naddr(2), importing), (paddr(1), migrating));
    for (i, c) in [(2usize, c2), (1usize, c1)] {
        match dispatch(&reg, &paddr(i), c).await {
            Some(Resp::Simple(_)) => (),
            other => return Err(format!("SETCLUSTER refused by proxy {}: {:?}", i, other.map(|r| crate::util::resp_to_string(&r)))),
        }
    }
    let infomgr = || vec![b"UMCTL".to_vec(), b"INFOMGR".to_vec()];
    let mut raw: Vec<Vec<u8>> = vec![];
    for _ in 0..400 {
        if let Some(Resp::Arr(Array::Arr(items))) = dispatch(&reg, &paddr(1), infomgr()).await {
            raw = items
                .iter()
                .filter_map(|r| match r {
                    Resp::Bulk(BulkStr::Str(s)) => Some(s.clone()),
                    _ => None,
                })
                .collect();
            if raw.len() >= ranges.len() {
                break;
            }
        }
        tokio::time::sleep(Duration::from_millis(15)).await;
    }
    if raw.len() < ranges.len() {
        return Err(format!("migrations not finished: {} of {} reported", raw.len(), ranges.len()));
    }
    // the coordinator side, over the same network: it sends UMCTL INFOMGR itself and parses the reply
    let checker = MigrationStateRespChecker::new(Arc::new(ProxyNet { reg: reg.clone() }));
    let res: Vec<_> = checker.check(paddr(1)).collect().await;
    let mut tasks = vec![];
    let mut err = None;
    for r in res {
        match r {
            Ok(t) => tasks.push(t),
            Err(e) => err = Some(format!("{:?}", e)),
        }
    }
    reg.handlers.lock().clear();
    Ok(Journey { raw, decoded: match err { Some(e) => Err(e), None => Ok(tasks) } })
}
