// C08: the backend request/reply pipeline, driven through the real code.
//
// Real code exercised: RoundRobinSenderGroup -> ReqAdaptorSender -> RecoverableBackendNode -> BackendNode::send ->
// handle_backend -> handle_conn (+ handle_conn_err) -> ReplyCommitHandler -> CmdCtx::set_result -> CmdReplySender /
// CmdReplyReceiver; in session mode additionally handle_session over a loopback TcpStream.
// Stand-ins (harness code): the ConnFactory (one per backend node) whose connections are tokio::io::duplex byte pipes
// framed by the real RespCodec exactly like backend.rs create_conn frames a TcpStream, a logging wrapper around the
// resulting sink/stream (this is where the per-connection trace is observed), and a scripted fake backend task that
// reads requests `ECHO <id>` from the raw byte pipe and answers with the bulk string `<id*100000+connno>`.
//
// Everything of one case runs on its own current-thread tokio runtime, so the log is totally ordered and a task sent
// between two executions of the poll_fn closure of handle_conn is received by the next execution.
//
// Case line:
//   pipe <d|f|y> <nconn> <c|s> <backend_timeout_ms> <wait_ms> <flush_size> <req-script..> / <node0 conn specs..> / <node1 ..> ..
//     req-script tokens (mode c: CmdCtx tasks sent through the sender stack; mode s: a client pipeline through handle_session)
//        s<id>        one request                     m<id>,<id>..  one ReqTask::Multi (mode c only)
//        z<ms>        sleep                           y             yield to the other tasks a few times
//        F<n>         (mode s) client writes its byte stream in fragments of n bytes from here on
//        P<n>         requests from here on carry an extra argument of n bytes (large payloads => real back pressure)
//        close        drop the senders (mode c only)
//        L<id> E<id>  (mode s) a request the handler answers itself at once (reply id*100000 / error id*100000+99999)
//        W            (mode s) the client writes what it has accumulated (without F the pipeline goes out in ONE write)
//     mode s: after the script the client sends a sentinel request and reads until its reply, EOF or 60 s
//     conn spec tokens, one per connection of that node, a trailing `*` repeats the spec for ever:
//        R            create_conn fails
//        c[,opt..]    a connection; options:
//           x<k>  close after reading the k-th request without answering it (x0: close right after accept)
//           p<j>.<n>  answer j-1 requests, write n bytes of reply j, then close
//           g<j>  answer j-1 requests, then write bytes that are not RESP, then close
//           s<k>  answer k requests then stall for ever (connection stays open)
//           d<ms> delay before the close       l<ms> latency before each reply
//           f<n>  write replies in fragments of n bytes (yield between fragments)
//           b<n>  capacity of the duplex pipe in bytes (default 65536)
//           w<k>  the k-th start_send on this connection fails with an io error (injected in the wrapper)
//           q<k>  the sink's poll_ready reports Pending once, right after k packets were accepted, and wakes the task
//     when a node's list is exhausted the remaining connections are healthy (`c`)
//   fan <ids,..> err|single|multi<k>     ReqTask::Multi(..).set_result(..)
//
// Output of a pipe case:
//   trace <node>:<event> ..  # <id>=<outcome> ..  [client <outcome> ..]
use crate::util::*;
use futures::future::Either;
use futures::{Future, Sink, SinkExt, Stream, StreamExt, TryStreamExt};
use parking_lot::Mutex;
use std::collections::VecDeque;
use std::io;
use std::net::SocketAddr;
use std::num::NonZeroUsize;
use std::pin::Pin;
use std::sync::atomic::{AtomicBool, AtomicI64, AtomicU64, AtomicUsize, Ordering};
use std::sync::Arc;
use std::task::{Context, Poll};
use std::time::Duration;
use tokio::io::{AsyncWriteExt, DuplexStream};
use tokio_util::codec::{Decoder, FramedRead};
use undermoon::common::batch::{BatchStats, BatchStrategy};
use undermoon::common::track::TrackedFutureRegistry;
use undermoon::protocol::{
    new_simple_packet_codec, BulkStr, DecodeError, EncodeError, OptionalMulti, Resp,
    RespCodec, RespPacket, RespVec,
};
use undermoon::proxy::backend::{
    BackendError, CmdTask, ConnFactory, ConnSink, ConnStream, CreateConnResult, ReqTask,
};
use undermoon::proxy::command::{
    new_command_pair, CmdReplyReceiver, Command, CommandError, TaskResult,
};
use undermoon::proxy::reply::ReplyCommitHandlerFactory;
use undermoon::proxy::sender::{
    CmdTaskSender, CmdTaskSenderFactory, RecoverableBackendNode, RecoverableBackendNodeFactory,
    ReqAdaptorSender, RoundRobinSenderGroup, RoundRobinSenderGroupFactory,
};
use undermoon::proxy::service::{ClusterNodesVersion, ServerProxyConfig};
use undermoon::proxy::session::{handle_session, CmdCtx, CmdHandler, CmdReplyFuture};
use undermoon::proxy::slowlog::Slowlog;

const ADDR: &str = "127.0.0.1:6399";
const LOG_CAP: usize = 20000;
const SENTINEL: u64 = 999_999;
const SENTINEL_CAP_MS: u64 = 60_000;

// ------------------------------------------------------------------------------------------------ shared log
struct Shared {
    log: Mutex<Vec<String>>,
    stopped: AtomicBool,
    mirror: Mutex<Vec<VecDeque<u64>>>, // tasks accepted by BackendNode::send and not yet received, per node
    done: Mutex<Vec<(u64, String)>>,   // session mode: completions seen by the reply futures
}

impl Shared {
    fn ev(&self, node: usize, s: &str) {
        if !self.stopped.load(Ordering::SeqCst) {
            let mut log = self.log.lock();
            // a runaway reconnect loop must not produce an unbounded line; the model accepts the prefix
            if log.len() < LOG_CAP {
                log.push(format!("{}:{}", node, s));
            } else if log.len() == LOG_CAP {
                log.push("0:truncated".to_string());
            }
        }
    }
    // every task queued for `node` is received now
    fn arrive_all(&self, node: usize) -> usize {
        let ids: Vec<u64> = self.mirror.lock()[node].drain(..).collect();
        let n = ids.len();
        for id in ids {
            self.ev(node, &format!("arr{}", id));
        }
        n
    }
}

fn berr_name(e: &BackendError) -> &'static str {
    match e {
        BackendError::Io(_) => "io",
        BackendError::Canceled => "canceled",
        BackendError::InvalidState => "invalidstate",
        BackendError::Timeout => "timeout",
        BackendError::InvalidProtocol => "proto",
        BackendError::NodeNotFound => "nodenotfound",
        BackendError::InvalidAddress => "invalidaddress",
    }
}

fn packet_id(p: &RespPacket) -> Option<u64> {
    let b = p.get_array_element(1)?;
    std::str::from_utf8(b).ok()?.parse().ok()
}

fn echo_request(id: u64, pad: usize) -> RespVec {
    if pad == 0 {
        bulk_cmd(&[b"ECHO", id.to_string().as_bytes()])
    } else {
        bulk_cmd(&[b"ECHO", id.to_string().as_bytes(), &vec![b'p'; pad]])
    }
}

// ------------------------------------------------------------------------------------------------ conn specs
#[derive(Clone, Debug, Default)]
struct ConnSpec {
    refuse: bool,
    close_after: Option<usize>,
    partial: Option<(usize, usize)>,
    garbage_at: Option<usize>,
    stall_after: Option<usize>,
    delay_ms: u64,
    latency_ms: u64,
    frag: usize,
    buf: usize,
    wfail: Option<usize>,
    qpend: Option<usize>,
}

fn parse_spec(tok: &str) -> (ConnSpec, bool) {
    let (tok, star) = match tok.strip_suffix('*') {
        Some(t) => (t, true),
        None => (tok, false),
    };
    let mut s = ConnSpec {
        buf: 65536,
        ..Default::default()
    };
    if tok == "R" {
        s.refuse = true;
        return (s, star);
    }
    let mut it = tok.split(',');
    assert_eq!(it.next(), Some("c"), "conn spec must start with c or R");
    for o in it {
        let (k, v) = o.split_at(1);
        match k {
            "x" => s.close_after = Some(v.parse().expect("x")),
            "p" => {
                let mut q = v.split('.');
                s.partial = Some((
                    q.next().expect("p").parse().expect("p"),
                    q.next().expect("p").parse().expect("p"),
                ))
            }
            "g" => s.garbage_at = Some(v.parse().expect("g")),
            "s" => s.stall_after = Some(v.parse().expect("s")),
            "d" => s.delay_ms = v.parse().expect("d"),
            "l" => s.latency_ms = v.parse().expect("l"),
            "f" => s.frag = v.parse().expect("f"),
            "b" => s.buf = v.parse().expect("b"),
            "w" => s.wfail = Some(v.parse().expect("w")),
            "q" => s.qpend = Some(v.parse().expect("q")),
            _ => panic!("bad conn option {}", o),
        }
    }
    (s, star)
}

// ------------------------------------------------------------------------------------------------ fake backend
async fn fake_backend(server: DuplexStream, spec: ConnSpec, connno: u64) {
    let (rd, mut wr) = tokio::io::split(server);
    let (enc, dec) = new_simple_packet_codec::<RespPacket, RespPacket>();
    let mut fr = FramedRead::new(rd, RespCodec::new(enc, dec));
    let delay = Duration::from_millis(spec.delay_ms);
    if spec.close_after == Some(0) {
        tokio::time::sleep(delay).await;
        return;
    }
    let mut nreq = 0usize;
    loop {
        let pkt = match fr.next().await {
            Some(Ok(p)) => p,
            _ => return,
        };
        nreq += 1;
        let id = packet_id(&pkt).unwrap_or(999_999);
        if spec.close_after == Some(nreq) {
            tokio::time::sleep(delay).await;
            return;
        }
        if let Some(k) = spec.stall_after {
            if nreq > k {
                futures::future::pending::<()>().await;
            }
        }
        if spec.latency_ms > 0 {
            tokio::time::sleep(Duration::from_millis(spec.latency_ms)).await;
        }
        if spec.garbage_at == Some(nreq) {
            let _ = wr.write_all(b"!not-resp\r\n").await;
            let _ = wr.flush().await;
            tokio::time::sleep(delay).await;
            return;
        }
        let payload = (id * 100_000 + connno).to_string();
        let reply = format!("${}\r\n{}\r\n", payload.len(), payload).into_bytes();
        if let Some((j, n)) = spec.partial {
            if j == nreq {
                let n = n.min(reply.len().saturating_sub(1));
                let _ = wr.write_all(&reply[..n]).await;
                let _ = wr.flush().await;
                tokio::time::sleep(delay).await;
                return;
            }
        }
        if spec.frag == 0 {
            if wr.write_all(&reply).await.is_err() {
                return;
            }
        } else {
            for chunk in reply.chunks(spec.frag) {
                if wr.write_all(chunk).await.is_err() {
                    return;
                }
                let _ = wr.flush().await;
                tokio::task::yield_now().await;
            }
        }
        let _ = wr.flush().await;
    }
}

// ------------------------------------------------------------------------------------------------ logging sink / stream
struct ConnState {
    node: usize,
    shared: Arc<Shared>,
    in_poll: AtomicBool,
    // the last event logged for this connection was `poll`: an execution of the closure in which nothing happened.
    // Consecutive empty polls are logged once (Poll;Poll has the effect of Poll in both variants of the model), otherwise
    // a connection under back pressure produces thousands of `poll` tokens.
    last_was_poll: AtomicBool,
}

impl ConnState {
    fn ev(&self, s: &str) {
        self.last_was_poll.store(false, Ordering::SeqCst);
        self.shared.ev(self.node, s);
    }
    fn begin_poll(&self) {
        if !self.in_poll.swap(true, Ordering::SeqCst) {
            if !self.last_was_poll.swap(true, Ordering::SeqCst) {
                self.shared.ev(self.node, "poll");
            }
            if self.shared.arrive_all(self.node) > 0 {
                self.last_was_poll.store(false, Ordering::SeqCst);
            }
        }
    }
    fn end_poll(&self) {
        self.in_poll.store(false, Ordering::SeqCst);
    }
}

struct WSink {
    inner: ConnSink<RespPacket>,
    cs: Arc<ConnState>,
    wfail: Option<usize>,
    nsend: usize,
    qpend: Option<usize>,
    naccepted: usize,
}

impl WSink {
    fn note<T>(&self, r: Poll<Result<T, BackendError>>) -> Poll<Result<T, BackendError>> {
        if let Poll::Ready(Err(e)) = &r {
            self.cs.ev(&format!("werr:{}", berr_name(e)));
        }
        r
    }
}

impl Sink<RespPacket> for WSink {
    type Error = BackendError;

    fn poll_ready(mut self: Pin<&mut Self>, cx: &mut Context<'_>) -> Poll<Result<(), BackendError>> {
        self.cs.begin_poll();
        // scripted back pressure: report Pending once, right after `qpend` packets were accepted, and wake the task
        if self.qpend == Some(self.naccepted) {
            self.qpend = None;
            cx.waker().wake_by_ref();
            return Poll::Pending;
        }
        let r = self.inner.as_mut().poll_ready(cx);
        self.note(r)
    }

    fn start_send(mut self: Pin<&mut Self>, item: RespPacket) -> Result<(), BackendError> {
        self.nsend += 1;
        let id = packet_id(&item).unwrap_or(999_999);
        if self.wfail == Some(self.nsend) {
            self.cs.ev("werr:io");
            return Err(BackendError::Io(io::Error::from(io::ErrorKind::BrokenPipe)));
        }
        match self.inner.as_mut().start_send(item) {
            Ok(()) => {
                self.naccepted += 1;
                self.cs.ev(&format!("w{}", id));
                Ok(())
            }
            Err(e) => {
                self.cs.ev(&format!("werr:{}", berr_name(&e)));
                Err(e)
            }
        }
    }

    fn poll_flush(mut self: Pin<&mut Self>, cx: &mut Context<'_>) -> Poll<Result<(), BackendError>> {
        let r = self.inner.as_mut().poll_flush(cx);
        self.note(r)
    }

    fn poll_close(mut self: Pin<&mut Self>, cx: &mut Context<'_>) -> Poll<Result<(), BackendError>> {
        self.inner.as_mut().poll_close(cx)
    }
}

struct RStream {
    inner: ConnStream<RespPacket>,
    cs: Arc<ConnState>,
}

impl Stream for RStream {
    type Item = Result<RespPacket, BackendError>;

    fn poll_next(mut self: Pin<&mut Self>, cx: &mut Context<'_>) -> Poll<Option<Self::Item>> {
        let r = self.inner.as_mut().poll_next(cx);
        match &r {
            Poll::Pending => self.cs.end_poll(),
            Poll::Ready(None) => self.cs.ev("closed"),
            Poll::Ready(Some(Ok(p))) => {
                let txt = match p.to_resp_vec() {
                    Resp::Bulk(BulkStr::Str(b)) => String::from_utf8_lossy(&b).to_string(),
                    other => format!("x{}", resp_to_string(&other).replace(' ', "_")),
                };
                self.cs.ev(&format!("rp{}", txt));
            }
            Poll::Ready(Some(Err(e))) => self.cs.ev(&format!("rerr:{}", berr_name(e))),
        }
        r
    }
}

impl Drop for RStream {
    fn drop(&mut self) {
        self.cs.ev("drop");
    }
}

// ------------------------------------------------------------------------------------------------ conn factory
struct NodeConnFactory {
    node: usize,
    shared: Arc<Shared>,
    specs: Vec<ConnSpec>,
    repeat_last: bool,
    next: AtomicUsize,
    nok: AtomicU64,
    last_failed: AtomicBool,
}

impl ConnFactory for NodeConnFactory {
    type Pkt = RespPacket;

    fn create_conn(
        &self,
        _addr: SocketAddr,
    ) -> Pin<Box<dyn Future<Output = CreateConnResult<RespPacket>> + Send>> {
        let idx = self.next.fetch_add(1, Ordering::SeqCst);
        let spec = if idx < self.specs.len() {
            self.specs[idx].clone()
        } else if self.repeat_last && !self.specs.is_empty() {
            self.specs[self.specs.len() - 1].clone()
        } else {
            ConnSpec {
                buf: 65536,
                ..Default::default()
            }
        };
        let node = self.node;
        let shared = self.shared.clone();
        if self.last_failed.swap(spec.refuse, Ordering::SeqCst) {
            shared.ev(node, "wait");
        }
        if spec.refuse {
            return Box::pin(async move {
                shared.ev(node, "cfail");
                // handle_backend sets conn_failed and answers everything already queued
                shared.arrive_all(node);
                Err(BackendError::Io(io::Error::from(
                    io::ErrorKind::ConnectionRefused,
                )))
            });
        }
        let connno = self.nok.fetch_add(1, Ordering::SeqCst) + 1;
        Box::pin(async move {
            let (client_end, server_end) = tokio::io::duplex(spec.buf.max(1));
            let wfail = spec.wfail;
            let qpend = spec.qpend;
            tokio::spawn(fake_backend(server_end, spec, connno));
            // the framing of backend.rs create_conn, on a duplex pipe instead of a TcpStream
            let (encoder, decoder) = new_simple_packet_codec::<RespPacket, RespPacket>();
            let frame = RespCodec::new(encoder, decoder).framed(client_end);
            let (writer, reader) = frame.split();
            let writer = writer.sink_map_err(|e| match e {
                EncodeError::Io(err) => BackendError::Io(err),
                EncodeError::NotReady(_) => BackendError::InvalidState,
            });
            let reader = reader.map_err(|e| match e {
                DecodeError::InvalidProtocol => BackendError::InvalidProtocol,
                DecodeError::Io(e) => BackendError::Io(e),
            });
            let cs = Arc::new(ConnState {
                node,
                shared: shared.clone(),
                in_poll: AtomicBool::new(false),
                last_was_poll: AtomicBool::new(false),
            });
            shared.ev(node, "cok");
            let sink: ConnSink<RespPacket> = Box::pin(WSink {
                inner: Box::pin(writer),
                cs: cs.clone(),
                wfail,
                nsend: 0,
                qpend,
                naccepted: 0,
            });
            let stream: ConnStream<RespPacket> = Box::pin(RStream {
                inner: Box::pin(reader),
                cs,
            });
            Ok((sink, stream))
        })
    }
}

// one RecoverableBackendNode per create(), each with its own conn factory so that the nodes can be told apart
struct PerNodeFactory {
    config: Arc<ServerProxyConfig>,
    shared: Arc<Shared>,
    specs: Vec<(Vec<ConnSpec>, bool)>,
    next: AtomicUsize,
    registry: Arc<TrackedFutureRegistry>,
    stats: Arc<BatchStats>,
}

type NodeSender = ReqAdaptorSender<RecoverableBackendNode<ReplyCommitHandlerFactory>>;

impl CmdTaskSenderFactory for PerNodeFactory {
    type Sender = NodeSender;

    fn create(&self, address: String) -> Self::Sender {
        let node = self.next.fetch_add(1, Ordering::SeqCst);
        let (specs, repeat_last) = self.specs.get(node).cloned().unwrap_or((vec![], false));
        let cf = Arc::new(NodeConnFactory {
            node,
            shared: self.shared.clone(),
            specs,
            repeat_last,
            next: AtomicUsize::new(0),
            nok: AtomicU64::new(0),
            last_failed: AtomicBool::new(false),
        });
        let inner = RecoverableBackendNodeFactory::new(
            self.config.clone(),
            Arc::new(ReplyCommitHandlerFactory::default()),
            cf,
            self.registry.clone(),
            self.stats.clone(),
        );
        ReqAdaptorSender::new(inner.create(address))
    }
}

type Group = RoundRobinSenderGroup<NodeSender>;

fn gen_config(strategy: BatchStrategy, nconn: usize, timeout_ms: u64, flush: usize) -> ServerProxyConfig {
    ServerProxyConfig {
        address: "127.0.0.1:5299".to_string(),
        announce_address: "127.0.0.1:5299".to_string(),
        announce_host: "127.0.0.1".to_string(),
        slowlog_len: NonZeroUsize::new(1024).unwrap(),
        slowlog_log_slower_than: AtomicI64::new(0),
        slowlog_sample_rate: AtomicU64::new(1),
        thread_number: NonZeroUsize::new(1).unwrap(),
        backend_conn_num: NonZeroUsize::new(nconn).unwrap(),
        active_redirection: false,
        max_redirections: None,
        default_redirection_address: None,
        backend_batch_strategy: strategy,
        backend_flush_size: NonZeroUsize::new(flush.max(1)).unwrap(),
        backend_low_flush_interval: Duration::from_nanos(200_000),
        backend_high_flush_interval: Duration::from_nanos(800_000),
        session_timeout: None,
        backend_timeout: Duration::from_millis(timeout_ms),
        password: None,
        command_cluster_nodes_version: ClusterNodesVersion::V2,
    }
}

// ------------------------------------------------------------------------------------------------ outcomes
fn classify_resp(r: &RespVec) -> String {
    match r {
        Resp::Bulk(BulkStr::Str(b)) => format!("rep{}", String::from_utf8_lossy(b)),
        Resp::Error(b) => {
            let s = String::from_utf8_lossy(b).to_string();
            if s.starts_with("backend failed to handle task: ") {
                let k = &s["backend failed to handle task: ".len()..];
                let k = if k.starts_with("Io") {
                    "io"
                } else if k.starts_with("InvalidProtocol") {
                    "proto"
                } else if k.starts_with("Canceled") {
                    "canceled"
                } else if k.starts_with("InvalidState") {
                    "invalidstate"
                } else if k.starts_with("Timeout") {
                    "timeout"
                } else {
                    "other"
                };
                format!("taskerr:{}", k)
            } else if s.starts_with("LOCALERR ") {
                format!("rep{}", &s["LOCALERR ".len()..])
            } else if s.starts_with("failed to connect to") {
                "connfailed".to_string()
            } else if s.starts_with("ERR_BACKEND_CONNECTION") {
                "refused".to_string()
            } else if s.starts_with("ERR_MULTI_KEY_PARTIAL_ERROR") {
                "multipartial".to_string()
            } else if s.starts_with("Err cmd error ") {
                // the session's rendering of a CommandError
                let k = &s["Err cmd error ".len()..];
                if k.starts_with("Io") {
                    "cmdio".to_string()
                } else {
                    format!("cmd{}", k.to_lowercase())
                }
            } else {
                format!("othererr:{}", hex(b))
            }
        }
        other => format!("other:{}", resp_to_string(other).replace(' ', "_")),
    }
}

fn classify_cmd_err(e: &CommandError) -> String {
    match e {
        CommandError::Io(_) => "cmdio".to_string(),
        CommandError::UnexpectedResponse => "cmdunexpectedresponse".to_string(),
        CommandError::Dropped => "cmddropped".to_string(),
        CommandError::Canceled => "cmdcanceled".to_string(),
        CommandError::BackendError => "cmdbackenderror".to_string(),
        CommandError::InnerError => "cmdinnererror".to_string(),
    }
}

fn classify_owned(res: TaskResult) -> (String, TaskResult) {
    match res {
        Ok(reply) => {
            let (request, packet, slowlog) = (*reply).into_inner();
            let s = classify_resp(&packet.to_resp_vec());
            (
                s,
                Ok(Box::new(undermoon::proxy::command::TaskReply::new(
                    request, packet, slowlog,
                ))),
            )
        }
        Err(e) => (classify_cmd_err(&e), Err(e)),
    }
}

fn new_ctx(id: u64, pad: usize) -> (CmdCtx, CmdReplyReceiver) {
    let cmd = Command::new(Box::new(RespPacket::Data(echo_request(id, pad))));
    let (s, r) = new_command_pair(&cmd);
    (CmdCtx::new(cmd, s, 7, false), r)
}

// ------------------------------------------------------------------------------------------------ session handler
struct SessHandler {
    group: Group,
    shared: Arc<Shared>,
    counter: AtomicUsize,
    nconn: usize,
}

impl CmdHandler for SessHandler {
    fn handle_cmd(&self, cmd: Command) -> CmdReplyFuture {
        let id = packet_id(&cmd.get_packet()).unwrap_or(999_999);
        let name = cmd
            .get_command_name()
            .map(|n| n.to_uppercase())
            .unwrap_or_default();
        let (s, r) = new_command_pair(&cmd);
        let ctx = CmdCtx::new(cmd, s, 7, false);
        if name == "LOCAL" || name == "LOCALERR" {
            // answered by the handler itself, without a backend round trip: the reply future is ready at once
            // (stands for PING / ECHO / CLUSTER .. / unknown command / cluster-not-found of the real command handler).
            // Payload id*100000 (connection 0) for a reply, id*100000+99999 for a locally generated error.
            let (payload, reply) = if name == "LOCAL" {
                let p = id * 100_000;
                (p, Resp::Bulk(BulkStr::Str(p.to_string().into_bytes())))
            } else {
                let p = id * 100_000 + 99_999;
                (p, Resp::Error(format!("LOCALERR {}", p).into_bytes()))
            };
            ctx.set_resp_result(Ok(reply));
            if id != SENTINEL {
                self.shared.ev(9, &format!("sreq{}", id));
                self.shared.ev(9, &format!("sloc{}={}", id, payload));
                self.shared.done.lock().push((id, format!("rep{}", payload)));
            }
            return Either::Left(r);
        }
        let node = self.counter.fetch_add(1, Ordering::SeqCst) % self.nconn;
        self.shared.ev(9, &format!("sreq{}", id));
        self.shared.ev(node, &format!("sub{}", id));
        if self.group.send(ReqTask::Simple(ctx)).is_ok() {
            self.shared.mirror.lock()[node].push_back(id);
        }
        let shared = self.shared.clone();
        Either::Right(Box::pin(async move {
            let res = r.await;
            let (s, res) = classify_owned(res);
            shared.ev(9, &format!("sdone{}={}", id, s));
            shared.done.lock().push((id, s));
            res
        }))
    }

    fn handle_slowlog(&self, _request: Box<RespPacket>, _slowlog: Slowlog) {}
}

// ------------------------------------------------------------------------------------------------ the case
pub fn run_case(_rt: &tokio::runtime::Runtime, line: &str) -> String {
    let toks: Vec<&str> = line.split_whitespace().collect();
    match toks[0] {
        "pipe" => run_pipe(&toks[1..]),
        "fan" => run_fan(&toks[1..]),
        k => format!("unknown-kind {}", k),
    }
}

fn run_pipe(toks: &[&str]) -> String {
    let strategy = match toks[0] {
        "d" => BatchStrategy::Disabled,
        "f" => BatchStrategy::Fixed,
        "y" => BatchStrategy::Dynamic,
        s => panic!("bad strategy {}", s),
    };
    let nconn: usize = toks[1].parse().expect("nconn");
    let session_mode = match toks[2] {
        "c" => false,
        "s" => true,
        m => panic!("bad mode {}", m),
    };
    let timeout_ms: u64 = toks[3].parse().expect("timeout");
    let wait_ms: u64 = toks[4].parse().expect("wait");
    let flush: usize = toks[5].parse().expect("flush");
    let mut sections = toks[6..].split(|t| *t == "/");
    let script: Vec<String> = sections
        .next()
        .unwrap_or(&[])
        .iter()
        .map(|s| s.to_string())
        .collect();
    let mut specs = vec![];
    for sec in sections {
        let mut v = vec![];
        let mut rep = false;
        for t in sec {
            let (s, star) = parse_spec(t);
            v.push(s);
            rep = star;
        }
        specs.push((v, rep));
    }

    let shared = Arc::new(Shared {
        log: Mutex::new(vec![]),
        stopped: AtomicBool::new(false),
        mirror: Mutex::new((0..nconn).map(|_| VecDeque::new()).collect()),
        done: Mutex::new(vec![]),
    });
    let config = Arc::new(gen_config(strategy, nconn, timeout_ms, flush));
    let rt = tokio::runtime::Builder::new_current_thread()
        .enable_all()
        .build()
        .expect("rt");
    let shared2 = shared.clone();
    let body = async move {
        let shared = shared2;
        let factory = RoundRobinSenderGroupFactory::new(
            NonZeroUsize::new(nconn).unwrap(),
            PerNodeFactory {
                config: config.clone(),
                shared: shared.clone(),
                specs,
                next: AtomicUsize::new(0),
                registry: Arc::new(TrackedFutureRegistry::default()),
                stats: Arc::new(BatchStats::default()),
            },
        );
        let group: Group = factory.create(ADDR.to_string());
        if session_mode {
            run_session(group, shared, script, nconn, wait_ms).await
        } else {
            run_ctx(group, shared, script, nconn, wait_ms).await
        }
    };
    let res = rt.block_on(async move {
        let cap = if session_mode { SENTINEL_CAP_MS + 10_000 } else { wait_ms + 8000 };
        match tokio::time::timeout(Duration::from_millis(cap), body).await {
            Ok(s) => s,
            Err(_) => "case-timeout".to_string(),
        }
    });
    shared.stopped.store(true, Ordering::SeqCst);
    drop(rt);
    let log = shared.log.lock().join(" ");
    format!("trace {} # {}", log, res)
}

async fn run_ctx(
    group: Group,
    shared: Arc<Shared>,
    script: Vec<String>,
    nconn: usize,
    wait_ms: u64,
) -> String {
    let mut group = Some(group);
    let mut counter = 0usize;
    let mut pad = 0usize;
    let mut receivers: Vec<(u64, CmdReplyReceiver)> = vec![];
    for tok in script.iter() {
        let tok = tok.as_str();
        if tok == "y" {
            for _ in 0..3 {
                tokio::task::yield_now().await;
            }
        } else if tok == "close" {
            if group.take().is_some() {
                for n in 0..nconn {
                    shared.ev(n, "hclose");
                }
            }
        } else if let Some(ms) = tok.strip_prefix('z') {
            tokio::time::sleep(Duration::from_millis(ms.parse().expect("z"))).await;
        } else if let Some(n) = tok.strip_prefix('P') {
            pad = n.parse().expect("P");
        } else if let Some(id) = tok.strip_prefix('s') {
            let id: u64 = id.parse().expect("id");
            let (ctx, r) = new_ctx(id, pad);
            receivers.push((id, r));
            if let Some(g) = group.as_ref() {
                let node = counter % nconn;
                counter += 1;
                shared.ev(node, &format!("sub{}", id));
                if g.send(ReqTask::Simple(ctx)).is_ok() {
                    shared.mirror.lock()[node].push_back(id);
                }
            }
        } else if let Some(ids) = tok.strip_prefix('m') {
            let ids: Vec<u64> = ids.split(',').map(|x| x.parse().expect("id")).collect();
            let mut ctxs = vec![];
            for id in ids.iter() {
                let (ctx, r) = new_ctx(*id, pad);
                receivers.push((*id, r));
                ctxs.push(ctx);
            }
            if let Some(g) = group.as_ref() {
                let node = counter % nconn;
                counter += 1;
                let txt: Vec<String> = ids.iter().map(|x| x.to_string()).collect();
                shared.ev(node, &format!("mul{}", txt.join(",")));
                if g.send(ReqTask::Multi(ctxs)).is_ok() {
                    for id in ids.iter() {
                        shared.mirror.lock()[node].push_back(*id);
                    }
                }
            }
        } else {
            panic!("bad script token {}", tok);
        }
    }
    // bounded wait for every completion
    let bound = Duration::from_millis(wait_ms);
    let futs = receivers.into_iter().map(|(id, r)| async move {
        match tokio::time::timeout(bound, r).await {
            Ok(res) => (id, classify_owned(res).0),
            Err(_) => (id, "silent".to_string()),
        }
    });
    let mut outs: Vec<(u64, String)> = futures::future::join_all(futs).await;
    outs.sort();
    shared.stopped.store(true, Ordering::SeqCst);
    drop(group);
    outs.iter()
        .map(|(id, o)| format!("{}={}", id, o))
        .collect::<Vec<_>>()
        .join(" ")
}

async fn run_session(
    group: Group,
    shared: Arc<Shared>,
    script: Vec<String>,
    nconn: usize,
    wait_ms: u64,
) -> String {
    use tokio::io::AsyncReadExt;
    let listener = tokio::net::TcpListener::bind("127.0.0.1:0")
        .await
        .expect("bind loopback");
    let addr = listener.local_addr().expect("addr");
    let handler = Arc::new(SessHandler {
        group,
        shared: shared.clone(),
        counter: AtomicUsize::new(0),
        nconn,
    });
    let h2 = handler.clone();
    tokio::spawn(async move {
        if let Ok((sock, _)) = listener.accept().await {
            let _ = sock.set_nodelay(true);
            let _ = handle_session(h2, sock, None).await;
        }
    });
    let mut client = tokio::net::TcpStream::connect(addr).await.expect("connect");
    let _ = client.set_nodelay(true);
    let (mut crd, mut cwr) = client.split();
    let mut ids: Vec<u64> = vec![];
    let mut frag = 0usize;
    let mut pad = 0usize;
    let mut pendingbuf: Vec<u8> = vec![];
    let writer = async {
        for tok in script.iter() {
            let tok = tok.as_str();
            if tok == "y" {
                if !pendingbuf.is_empty() {
                    let _ = cwr.write_all(&pendingbuf).await;
                    pendingbuf.clear();
                }
                for _ in 0..3 {
                    tokio::task::yield_now().await;
                }
            } else if let Some(ms) = tok.strip_prefix('z') {
                if !pendingbuf.is_empty() {
                    let _ = cwr.write_all(&pendingbuf).await;
                    pendingbuf.clear();
                }
                tokio::time::sleep(Duration::from_millis(ms.parse().expect("z"))).await;
            } else if tok == "W" {
                if !pendingbuf.is_empty() {
                    let _ = cwr.write_all(&pendingbuf).await;
                    let _ = cwr.flush().await;
                    pendingbuf.clear();
                }
                tokio::task::yield_now().await;
            } else if let Some(n) = tok.strip_prefix('F') {
                frag = n.parse().expect("F");
            } else if let Some(n) = tok.strip_prefix('P') {
                pad = n.parse().expect("P");
            } else if tok.starts_with('s') || tok.starts_with('L') || tok.starts_with('E') {
                let id: u64 = tok[1..].parse().expect("id");
                ids.push(id);
                let idb = id.to_string();
                let req = if tok.starts_with('L') {
                    format!("*2\r\n$5\r\nLOCAL\r\n${}\r\n{}\r\n", idb.len(), idb).into_bytes()
                } else if tok.starts_with('E') {
                    format!("*2\r\n$8\r\nLOCALERR\r\n${}\r\n{}\r\n", idb.len(), idb).into_bytes()
                } else if pad == 0 {
                    format!("*2\r\n$4\r\nECHO\r\n${}\r\n{}\r\n", idb.len(), idb).into_bytes()
                } else {
                    format!(
                        "*3\r\n$4\r\nECHO\r\n${}\r\n{}\r\n${}\r\n{}\r\n",
                        idb.len(),
                        idb,
                        pad,
                        "p".repeat(pad)
                    )
                    .into_bytes()
                };
                pendingbuf.extend_from_slice(&req);
                if frag > 0 {
                    // write all complete fragments; the remainder joins the next request
                    while pendingbuf.len() >= frag {
                        let chunk: Vec<u8> = pendingbuf.drain(..frag).collect();
                        let _ = cwr.write_all(&chunk).await;
                        let _ = cwr.flush().await;
                        tokio::task::yield_now().await;
                    }
                }
                // without F the pipeline is accumulated and goes out in ONE client write (at W / y / z / the end)
            } else {
                panic!("bad script token {}", tok);
            }
        }
        if !pendingbuf.is_empty() {
            let _ = cwr.write_all(&pendingbuf).await;
        }
        let _ = cwr.flush().await;
        // sentinel: one more, uniquely tagged, locally answered request; its reply can only come after every other reply
        tokio::task::yield_now().await;
        let sb = SENTINEL.to_string();
        let req = format!("*2\r\n$5\r\nLOCAL\r\n${}\r\n{}\r\n", sb.len(), sb).into_bytes();
        let _ = cwr.write_all(&req).await;
        let _ = cwr.flush().await;
        ids
    };
    let ids = writer.await;
    // read the replies with the real decoder, bounded wait
    let (enc, dec) = new_simple_packet_codec::<RespPacket, RespPacket>();
    let mut codec = RespCodec::new(enc, dec);
    let mut buf = bytes::BytesMut::new();
    let mut replies: Vec<String> = vec![];
    // load-independent wait: read until the sentinel's reply (it is behind every other reply in the session FIFO), EOF,
    // or a generous cap; silence = the sentinel's reply never arrives while the connection is open
    let _ = wait_ms;
    let sentinel_reply = format!("rep{}", SENTINEL * 100_000);
    let deadline = tokio::time::Instant::now() + Duration::from_millis(SENTINEL_CAP_MS);
    'outer: loop {
        loop {
            match codec.decode(&mut buf) {
                Ok(Some(p)) => {
                    let c = classify_resp(&p.to_resp_vec());
                    if c == sentinel_reply {
                        break 'outer;
                    }
                    replies.push(c);
                }
                Ok(None) => break,
                Err(_) => {
                    replies.push("client-decode-error".to_string());
                    break 'outer;
                }
            }
        }
        let mut tmp = [0u8; 4096];
        match tokio::time::timeout_at(deadline, crd.read(&mut tmp)).await {
            Ok(Ok(0)) => break,
            Ok(Ok(n)) => buf.extend_from_slice(&tmp[..n]),
            Ok(Err(_)) => break,
            Err(_) => break,
        }
    }
    shared.stopped.store(true, Ordering::SeqCst);
    let mut outs: Vec<(u64, String)> = vec![];
    let done = shared.done.lock().clone();
    for id in ids.iter() {
        let o = done
            .iter()
            .find(|(i, _)| i == id)
            .map(|(_, s)| s.clone())
            .unwrap_or_else(|| "silent".to_string());
        outs.push((*id, o));
    }
    outs.sort();
    let ndone = done.len();
    let _ = ndone;
    format!(
        "{} client {}",
        outs.iter()
            .map(|(id, o)| format!("{}={}", id, o))
            .collect::<Vec<_>>()
            .join(" "),
        replies.join(" ")
    )
}

// ------------------------------------------------------------------------------------------------ ReqTask::set_result
fn run_fan(toks: &[&str]) -> String {
    let ids: Vec<u64> = if toks[0] == "-" {
        vec![]
    } else {
        toks[0].split(',').map(|x| x.parse().expect("id")).collect()
    };
    let rt = tokio::runtime::Builder::new_current_thread()
        .enable_all()
        .build()
        .expect("rt");
    rt.block_on(async move {
        let mut ctxs = vec![];
        let mut receivers = vec![];
        for id in ids.iter() {
            let (ctx, r) = new_ctx(*id, 0);
            ctxs.push(ctx);
            receivers.push((*id, r));
        }
        let task = ReqTask::Multi(ctxs);
        let pkt = |n: u64| RespPacket::Data(Resp::Bulk(BulkStr::Str(n.to_string().into_bytes())));
        let kind = toks[1];
        if kind == "err" {
            task.set_result(Err(CommandError::Canceled));
        } else if kind == "single" {
            task.set_result(Ok(Box::new(OptionalMulti::Single(pkt(0)))));
        } else if let Some(k) = kind.strip_prefix("multi") {
            let k: u64 = k.parse().expect("k");
            task.set_result(Ok(Box::new(OptionalMulti::Multi(
                (0..k).map(|i| pkt(1000 + i)).collect(),
            ))));
        } else {
            panic!("bad fan kind {}", kind);
        }
        let mut outs = vec![];
        for (id, r) in receivers {
            let o = match tokio::time::timeout(Duration::from_millis(200), r).await {
                Ok(res) => classify_owned(res).0,
                Err(_) => "silent".to_string(),
            };
            outs.push(format!("{}={}", id, o));
        }
        format!("fan {}", outs.join(" "))
    })
}
