// C15: RESP encoding and incremental decoding, driven through the real code of undermoon::protocol.
//   enc <resp>                      -> "enc <hex>"            (three real encoder paths; they must agree)
//   dec <hex>                       -> "ok <n> <data hex> <resp>" | "need" | "invalid"
//                                      one decode call on a buffer (RespPacket::decode -> IndexedResp); n = bytes split off,
//                                      data = the bytes the packet keeps (get_data), resp = to_resp_vec of the packet.
//                                      The same buffer also goes through RespVec::decode, Box<RespPacket> through the
//                                      SimplePacketDecoder/RespCodec and the packet is re-encoded (EncodedPacket) - any
//                                      disagreement between these real paths is printed as "paths-differ ...".
//   stream <hex chunk> ...          -> "<data hex> <resp> ; ... ; end <leftover hex>"  or  "... ; err"
//                                      chunks appended one by one to a BytesMut; after each append RespCodec::decode is
//                                      called until None/Err (the FramedRead contract). The same chunks also go through a
//                                      real tokio_util FramedRead over a reader that yields one chunk per read.
//   multi <ev> ...                  -> OptionalMultiPacketDecoder<RespVec> + its encoder (shared hint state)
//                                      events:  P s | P m<k>   produce a hint through the real encoder (Single / Multi k)
//                                               C <hex>        append a chunk, call decode until None/Err
//                                      output per event, joined by " ; ":  "p-ok" | "p-notready" |
//                                      "<out>, <out>, .. none|err" with out = "S <resp>" | "M <k> <resp>.."
use crate::util::*;
use bytes::BytesMut;
use futures::{FutureExt, StreamExt};
use std::pin::Pin;
use std::task::{Context, Poll};
use tokio::io::{AsyncRead, ReadBuf};
use tokio_util::codec::{Decoder, Encoder, FramedRead};
use undermoon::protocol::{
    encode_resp, new_optional_multi_packet_codec, new_simple_packet_codec, resp_to_buf, BinSafeStr,
    DecodeError, DecodedPacket, EncodedPacket, OptionalMulti, PacketDecoder, PacketEncoder,
    PacketSizeHint, RespCodec, RespPacket, RespVec,
};

fn enc_case<'a, I: Iterator<Item = &'a str>>(it: &mut I) -> String {
    let v = parse_resp_tokens(it);
    let mut a = Vec::new();
    let na = resp_to_buf(&mut a, &v).expect("resp_to_buf");
    let mut b = Vec::new();
    let nb = encode_resp(&mut b, &v).expect("encode_resp");
    let mut c = Vec::new();
    let pkt = RespPacket::from_resp_vec(v.clone());
    let hint = pkt.get_size_hint();
    let (nc, _) = pkt.encode(|d| c.extend_from_slice(d)).expect("encode pkt");
    // through the codec (Encoder impl of RespCodec)
    let (e, d) = new_simple_packet_codec::<Box<RespPacket>, Box<RespPacket>>();
    let mut codec = RespCodec::new(e, d);
    let mut out = BytesMut::new();
    codec
        .encode(Box::new(RespPacket::from_resp_vec(v)), &mut out)
        .map_err(|_| "encode")
        .expect("codec encode");
    if a != b || a != c || a != out.as_ref() || na != a.len() || nb != a.len() || nc != a.len() || hint != Some(a.len()) {
        return format!(
            "paths-differ enc {} {} {} {} sizes {} {} {} hint {:?}",
            hex(&a), hex(&b), hex(&c), hex(out.as_ref()), na, nb, nc, hint
        );
    }
    format!("enc {}", hex(&a))
}

fn dec_word(e: &DecodeError) -> &'static str {
    match e {
        DecodeError::InvalidProtocol => "invalid",
        DecodeError::Io(_) => "io",
    }
}

fn dec_case(input: &[u8]) -> String {
    // path 1: RespPacket::decode (IndexedResp)
    let mut buf = BytesMut::from(input);
    let r1 = RespPacket::decode(&mut buf, ());
    let s1 = match &r1 {
        Ok(Some(p)) => {
            let n = input.len() - buf.len();
            let data = match p {
                RespPacket::Indexed(ix) => ix.get_data().to_vec(),
                RespPacket::Data(_) => vec![],
            };
            format!("ok {} {} {}", n, hex(&data), resp_to_string(&p.to_resp_vec()))
        }
        Ok(None) => "need".to_string(),
        Err(e) => dec_word(e).to_string(),
    };
    let rest1 = buf.to_vec();
    // path 2: RespVec::decode
    let mut buf2 = BytesMut::from(input);
    let r2 = RespVec::decode(&mut buf2, ());
    let s2 = match &r2 {
        Ok(Some(v)) => format!("ok {} {}", input.len() - buf2.len(), resp_to_string(v)),
        Ok(None) => "need".to_string(),
        Err(e) => dec_word(e).to_string(),
    };
    // path 3: the codec with the packet type the sessions use
    let (e, d) = new_simple_packet_codec::<Box<RespPacket>, Box<RespPacket>>();
    let mut codec = RespCodec::new(e, d);
    let mut buf3 = BytesMut::from(input);
    let r3 = codec.decode(&mut buf3);
    let s3 = match &r3 {
        Ok(Some(p)) => {
            // forward path: re-encode the decoded packet
            let mut out = BytesMut::new();
            let hint = p.get_size_hint();
            let n = input.len() - buf3.len();
            let v = p.to_resp_vec();
            let slice_ok = p.to_resp_slice() == undermoon::protocol::Functor::map(undermoon::protocol::Functor::as_ref(&v), |a: &Vec<u8>| a.as_slice());
            codec
                .encode(p.clone(), &mut out)
                .map_err(|_| "encode")
                .expect("codec encode");
            format!(
                "ok {} {} fwd {} hint {:?} slice {}",
                n, resp_to_string(&v), hex(out.as_ref()), hint == Some(n), slice_ok
            )
        }
        Ok(None) => "need".to_string(),
        Err(e) => dec_word(e).to_string(),
    };
    // cross-path agreement
    let ok = match (&r1, &r2, &r3) {
        (Ok(Some(p)), Ok(Some(v)), Ok(Some(_))) => {
            let n = input.len() - buf.len();
            let t = resp_to_string(&p.to_resp_vec());
            s2 == format!("ok {} {}", n, t)
                && s3 == format!("ok {} {} fwd {} hint true slice true", n, t, hex(&input[..n]))
                && rest1 == buf2.to_vec()
                && rest1 == buf3.to_vec()
                && resp_to_string(v) == t
        }
        (Ok(None), Ok(None), Ok(None)) | (Err(_), Err(_), Err(_)) => {
            s1 == s2 && s1 == s3 && rest1 == input && buf2.as_ref() == input && buf3.as_ref() == input
        }
        _ => false,
    };
    if !ok {
        return format!("paths-differ dec [{}] [{}] [{}] rest {}", s1, s2, s3, hex(&rest1));
    }
    if let Ok(Some(_)) = &r1 {
        // consumed + leftover = input (split_to semantics)
        let n = input.len() - rest1.len();
        if input[n..] != rest1[..] {
            return format!("paths-differ dec leftover {} of {}", hex(&rest1), hex(input));
        }
    }
    s1
}

struct ChunkReader {
    chunks: Vec<Vec<u8>>,
    next: usize,
    off: usize,
}

impl AsyncRead for ChunkReader {
    fn poll_read(mut self: Pin<&mut Self>, _cx: &mut Context<'_>, buf: &mut ReadBuf<'_>) -> Poll<std::io::Result<()>> {
        loop {
            if self.next >= self.chunks.len() {
                return Poll::Pending; // never EOF: the harness stops polling
            }
            let i = self.next;
            let off = self.off;
            let chunk_len = self.chunks[i].len();
            if off >= chunk_len {
                self.next += 1;
                self.off = 0;
                continue; // empty chunks are skipped (a 0-byte read would mean EOF)
            }
            let n = std::cmp::min(buf.remaining(), chunk_len - off);
            buf.put_slice(&self.chunks[i][off..off + n]);
            self.off += n;
            if self.off >= chunk_len {
                self.next += 1;
                self.off = 0;
            }
            return Poll::Ready(Ok(()));
        }
    }
}

fn stream_case(chunks: Vec<Vec<u8>>) -> String {
    let (e, d) = new_simple_packet_codec::<Box<RespPacket>, Box<RespPacket>>();
    let mut codec = RespCodec::new(e, d);
    let mut buf = BytesMut::new();
    let mut items: Vec<String> = vec![];
    let mut fwd: Vec<u8> = vec![];
    let mut errored = false;
    'outer: for c in chunks.iter() {
        buf.extend_from_slice(c);
        loop {
            match codec.decode(&mut buf) {
                Ok(Some(p)) => {
                    let data = match p.as_ref() {
                        RespPacket::Indexed(ix) => ix.get_data().to_vec(),
                        RespPacket::Data(_) => vec![],
                    };
                    items.push(format!("{} {}", hex(&data), resp_to_string(&p.to_resp_vec())));
                    let mut out = BytesMut::new();
                    codec.encode(p, &mut out).map_err(|_| "encode").expect("codec encode");
                    fwd.extend_from_slice(out.as_ref());
                }
                Ok(None) => break,
                Err(_) => {
                    errored = true;
                    break 'outer;
                }
            }
        }
    }
    let manual = if errored {
        items.push("err".to_string());
        items.join(" ; ")
    } else {
        items.push(format!("end {}", hex(buf.as_ref())));
        items.join(" ; ")
    };
    // the forwarded bytes + leftover reproduce the stream (when no error)
    if !errored {
        let all: Vec<u8> = chunks.iter().flatten().cloned().collect();
        let mut f = fwd.clone();
        f.extend_from_slice(buf.as_ref());
        if f != all {
            return format!("paths-differ stream forwarded {} of {}", hex(&f), hex(&all));
        }
    }
    // real FramedRead over a reader delivering the chunks one per read
    let (e, d) = new_simple_packet_codec::<Box<RespPacket>, Box<RespPacket>>();
    let reader = ChunkReader { chunks, next: 0, off: 0 };
    let mut framed = FramedRead::new(reader, RespCodec::new(e, d));
    let mut fitems: Vec<String> = vec![];
    let mut ferr = false;
    loop {
        match framed.next().now_or_never() {
            Some(Some(Ok(p))) => {
                let data = match p.as_ref() {
                    RespPacket::Indexed(ix) => ix.get_data().to_vec(),
                    RespPacket::Data(_) => vec![],
                };
                fitems.push(format!("{} {}", hex(&data), resp_to_string(&p.to_resp_vec())));
            }
            Some(Some(Err(_))) => {
                ferr = true;
                break;
            }
            Some(None) => break,
            None => break,
        }
    }
    if ferr {
        fitems.push("err".to_string());
    } else {
        fitems.push(format!("end {}", hex(framed.read_buffer().as_ref())));
    }
    let framed_s = fitems.join(" ; ");
    if framed_s != manual {
        return format!("paths-differ stream manual [{}] framed [{}]", manual, framed_s);
    }
    manual
}

fn multi_case<'a, I: Iterator<Item = &'a str>>(it: &mut I) -> String {
    let (mut enc, mut dec) = new_optional_multi_packet_codec::<Vec<BinSafeStr>, RespVec>();
    let mut buf = BytesMut::new();
    let mut outs: Vec<String> = vec![];
    while let Some(ev) = it.next() {
        match ev {
            "P" => {
                let h = it.next().expect("hint");
                let pkt = if h == "s" {
                    OptionalMulti::Single(vec![b"PING".to_vec()])
                } else {
                    let k: usize = h[1..].parse().expect("hint count");
                    OptionalMulti::Multi((0..k).map(|_| vec![b"PING".to_vec()]).collect())
                };
                match enc.encode(pkt, |_| {}) {
                    Ok(_) => outs.push("p-ok".to_string()),
                    Err(undermoon::protocol::EncodeError::NotReady(_)) => outs.push("p-notready".to_string()),
                    Err(_) => outs.push("p-io".to_string()),
                }
            }
            "C" => {
                let c = unhex(it.next().expect("chunk"));
                buf.extend_from_slice(&c);
                let mut parts: Vec<String> = vec![];
                let mut guard = 0usize;
                let last;
                loop {
                    guard += 1;
                    if guard > 100000 {
                        last = "spin";
                        break;
                    }
                    match dec.decode(&mut buf) {
                        Ok(Some(OptionalMulti::Single(v))) => parts.push(format!("S {}", resp_to_string(&v))),
                        Ok(Some(OptionalMulti::Multi(vs))) => {
                            let mut s = format!("M {}", vs.len());
                            for v in vs.iter() {
                                s.push(' ');
                                s.push_str(&resp_to_string(v));
                            }
                            parts.push(s)
                        }
                        Ok(None) => {
                            last = "none";
                            break;
                        }
                        Err(_) => {
                            last = "err";
                            break;
                        }
                    }
                }
                parts.push(last.to_string());
                outs.push(parts.join(", "));
            }
            other => panic!("bad event {}", other),
        }
    }
    outs.push(format!("left {}", hex(buf.as_ref())));
    outs.join(" ; ")
}

pub fn run_case(_rt: &tokio::runtime::Runtime, line: &str) -> String {
    let mut it = line.split_whitespace();
    match it.next() {
        Some("enc") => enc_case(&mut it),
        Some("dec") => dec_case(&unhex(it.next().unwrap_or("-"))),
        Some("stream") => stream_case(it.map(unhex).collect()),
        Some("multi") => multi_case(&mut it),
        other => format!("unknown-kind {:?}", other),
    }
}
