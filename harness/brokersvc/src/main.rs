// Broker SERVICE harness: the same history lines as harness/broker, but every operation goes through the real
// HTTP server (`undermoon::broker::run_server` + `MemBrokerService` + `JsonFileStorage`) instead of the bare MetaStore.
// The canonical text / view / monitor code of harness/broker is reused unchanged (src/bdom.rs includes broker/src/dom.rs).
#[path = "../../common/main_loop.rs"]
mod main_loop;
#[path = "../../common/util.rs"]
#[allow(dead_code)]
mod util;
#[allow(dead_code)]
mod bdom;
#[path = "../../broker/src/mon.rs"]
#[allow(dead_code)]
mod mon;

fn main() {
    main_loop::main_loop(bdom::svc::run_case);
}
