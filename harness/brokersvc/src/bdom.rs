// The broker harness' dom.rs is textually included, so that its private helpers (state_s, views, fnv, id_of, paddr,
// pairs_between, chunks_of, parse_ranges, dummy_meta, World ...) are in scope of the child module `svc` without copying them
// and without touching harness/broker.  `crate::mon` (harness/broker/src/mon.rs) is included by main.rs.
include!("../../broker/src/dom.rs");

#[path = "svc.rs"]
pub mod svc;
