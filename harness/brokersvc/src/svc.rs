// Broker SERVICE group.  Same history syntax as harness/broker ("H <ordered> ; op ; op ..."), but every op is sent as the
// real HTTP request to the real server:
//   undermoon::broker::run_server (warp handlers of src/broker/service.rs) on 127.0.0.1:<free port>
//   + MemBrokerService { auto_update_meta_file: true, storage: Memory } + JsonFileStorage on a fresh file under /verif/work/brokersvc/.
// After EVERY op the in-memory store (GET /api/v3/metadata) and the persisted store (JsonFileStorage::load of the meta file) are
// read back; `svcrestart` stops the server and starts a new one the way src/bin/mem_broker.rs does with recover_from_meta_file=true.
//
// Output: "R <resolved history> ## O res hs hv mon f=<hash of the file store> ; ..."   (hs/hv/mon exactly as harness/broker prints them:
// same state_s / views / fnv / monitors code, included from harness/broker/src).  Lines with an op that has no HTTP API print
// "SKIP <reason>".
//
// Where the service legitimately differs from the bare MetaStore call, the RESOLVED op says what the service really did, so that the
// extracted model can be run on the resolved history unchanged:
//   addcluster c k <scan> ?   -> scan := the service's default_cluster_config (request carries no config); the harness builds the service
//                                with ClusterConfig::default() + migration_scan_count = the scan token of the line's first addcluster
//   getfail <ttl> <q>         -> ttl, q := MemBrokerConfig.failure_ttl / failure_quorum (taken from the line's first getfail)
//   replace a <lim> ?         -> lim := MemBrokerConfig.migration_limit (taken from the line's first replace*, default 1)
//   commit* ... <clr> ...     -> clr := 0 (MemBrokerService::commit_migration passes clear_free_nodes = false)
//   addfail a r <age>         -> only age 0 exists over HTTP (the broker stamps Utc::now()); result is `ok` (the bool is dropped by the service)
//   autochange c n ?          -> POST /clusters/migrations/auto/c/n = auto_change_node_number [+ wait_for_proxy_epoch + auto_scale_out_node_number];
//                                result `ok` (the ScaleOp is not returned) or the error; with the harness' unreachable proxy addresses a
//                                ScaleOut ends in err:PROXY_NOT_SYNC after the broker's own 31 retries
//   svcrecover 0              -> PUT /epoch/recovery with no reachable proxy (max epoch 0)
//   restore k                 -> PUT /metadata with the store as it was after the k-th non-restart op
// scale_lock is never contended (requests are sequential).
use super::*;
use arc_swap::ArcSwap;
use std::collections::HashSet;
use std::sync::atomic::{AtomicUsize, Ordering};
use std::sync::Arc;
use std::time::{Duration, Instant};
use undermoon::broker::{
    run_server, JsonFileStorage, JsonMetaReplicator, MemBrokerConfig, MemBrokerService, MetaPersistence, StorageConfig,
};
use undermoon::coordinator::http_mani_broker::ReplaceProxyResponse;
use undermoon::coordinator::http_meta_broker::{ClusterPayload, FailedProxiesPayload, FailuresPayload, ProxyPayload};

const SUPPORTED: &[&str] = &[
    "addproxy", "rmproxy", "addcluster", "rmcluster", "addnodes", "scaleup", "delfree", "migrate", "scaledown", "commit",
    "commitnth", "commitstale", "autochange", "replace", "replacelast", "replacemember", "balance", "config", "addfail",
    "getfail", "forcebump", "svcrecover", "restore", "svcrestart",
];

static CASE_NO: AtomicUsize = AtomicUsize::new(0);

struct Params {
    ordered: bool,
    ttl: u64,
    quorum: u64,
    limit: u64,
    scan: u64,
    file: String,
}

struct Srv {
    svc: Arc<MemBrokerService>,
    handle: tokio::task::JoinHandle<()>,
    base: String,
    client: reqwest::Client,
}

fn free_port() -> u16 {
    std::net::TcpListener::bind("127.0.0.1:0")
        .expect("bind port 0")
        .local_addr()
        .expect("local addr")
        .port()
}

// Mirrors src/bin/mem_broker.rs main(): JsonFileStorage on meta_filename, load() only when recover_from_meta_file,
// MemBrokerService::new(config, cluster_config, persistence, replicator, loaded), run_server(service, address).
async fn start(p: &Params, recover: bool) -> Result<Srv, String> {
    for _attempt in 0..30 {
        let port = free_port();
        let replicas = Arc::new(ArcSwap::new(Arc::new(vec![])));
        let cfg = MemBrokerConfig {
            address: format!("127.0.0.1:{}", port),
            failure_ttl: p.ttl,
            failure_quorum: p.quorum,
            migration_limit: p.limit,
            recover_from_meta_file: recover,
            meta_filename: p.file.clone(),
            auto_update_meta_file: true,
            update_meta_file_interval: None,
            replica_addresses: replicas.clone(),
            sync_meta_interval: None,
            enable_ordered_proxy: p.ordered,
            storage: StorageConfig::Memory,
            debug: false,
        };
        let mut cluster_cfg = ClusterConfig::default();
        cluster_cfg.migration_config.scan_count = p.scan;
        let persistence = Arc::new(JsonFileStorage::new(cfg.meta_filename.clone()));
        let last = if cfg.recover_from_meta_file {
            persistence.load().await.map_err(|e| format!("load:{}", e))?
        } else {
            None
        };
        let replicator = Arc::new(JsonMetaReplicator::new(replicas.clone(), reqwest::Client::new()));
        let address: std::net::SocketAddr = cfg.address.parse().expect("addr");
        let svc = Arc::new(
            MemBrokerService::new(cfg, cluster_cfg, persistence, replicator, last).map_err(|e| format!("new:{}", e))?,
        );
        let handle = tokio::spawn(run_server(svc.clone(), address));
        let client = reqwest::Client::builder()
            .timeout(Duration::from_secs(180))
            .build()
            .expect("client");
        let base = format!("http://127.0.0.1:{}/api/v3", port);
        // The port was free a moment ago, but another process may have taken it: the server is OURS iff it shows a token that
        // is planted through our own handle on the broker config (GET /config returns replica_addresses).
        let token = format!("verif-token-{}-{}", std::process::id(), port);
        let t0 = Instant::now();
        let mut ours = false;
        while t0.elapsed() < Duration::from_secs(60) {
            if handle.is_finished() {
                break; // bind failed (warp panics): try another port
            }
            replicas.store(Arc::new(vec![token.clone()]));
            let r = client.get(&format!("{}/config", base)).timeout(Duration::from_secs(5)).send().await;
            let seen = match r {
                Ok(resp) => resp.text().await.map(|t| t.contains(&token)).unwrap_or(false),
                Err(_) => false,
            };
            replicas.store(Arc::new(vec![]));
            if seen {
                ours = true;
                break;
            }
            tokio::time::sleep(Duration::from_millis(20)).await;
        }
        if ours {
            return Ok(Srv {
                svc,
                handle,
                base,
                client,
            });
        }
        handle.abort();
        let _ = handle.await;
    }
    Err("no port".to_string())
}

async fn stop(s: Srv) {
    let Srv {
        svc,
        handle,
        client,
        ..
    } = s;
    drop(client); // closes the pooled keep-alive connections (their hyper tasks hold the service)
    handle.abort();
    let _ = handle.await;
    drop(svc);
}

enum Reply {
    Status(u16, String),
    Broken(String),
}

async fn call(s: &Srv, method: reqwest::Method, path: &str, body: Option<serde_json::Value>) -> Reply {
    let mut rb = s.client.request(method, &format!("{}{}", s.base, path));
    if let Some(b) = body {
        rb = rb.json(&b);
    }
    match rb.send().await {
        Ok(resp) => {
            let st = resp.status().as_u16();
            match resp.text().await {
                Ok(t) => Reply::Status(st, t),
                Err(e) => Reply::Broken(format!("{}", e)),
            }
        }
        Err(e) => Reply::Broken(format!("{}", e)),
    }
}

// the small result vocabulary of harness/broker: ok | err:<CODE> ; anything else the HTTP layer says is printed as http:<status>
fn unit_reply(r: &Reply) -> String {
    match r {
        Reply::Status(st, _) if (200..300).contains(st) => "ok".to_string(),
        Reply::Status(st, body) => match serde_json::from_str::<serde_json::Value>(body) {
            Ok(v) => match v.get("error").and_then(|e| e.as_str()) {
                Some(code) => format!("err:{}", code),
                None => format!("http:{}", st),
            },
            Err(_) => format!("http:{}", st),
        },
        Reply::Broken(_) => "panic".to_string(),
    }
}

async fn get_json<T: serde::de::DeserializeOwned>(s: &Srv, path: &str) -> Result<T, String> {
    match call(s, reqwest::Method::GET, path, None).await {
        Reply::Status(200, body) => serde_json::from_str(&body).map_err(|e| format!("json {}: {}", path, e)),
        Reply::Status(st, body) => Err(format!("GET {} -> {} {}", path, st, body.chars().take(80).collect::<String>())),
        Reply::Broken(e) => Err(format!("GET {} broken: {}", path, e)),
    }
}

async fn file_store(p: &Params) -> Result<MetaStore, String> {
    // a separate JsonFileStorage on the same file: what a restart would load; no file yet = a fresh store
    match JsonFileStorage::new(p.file.clone()).load().await {
        Ok(Some(s)) => Ok(s),
        Ok(None) => Ok(MetaStore::new(p.ordered)),
        Err(e) => Err(format!("{}", e)),
    }
}

fn world(store: &MetaStore, r0: i64) -> World {
    World {
        last_repl: 0,
        store: store.clone(),
        r0,
        snaps: vec![],
    }
}

// reports written during this run carry the broker's Utc::now(): print them as age 0 (the model side gets `addfail a r 0`)
fn canon(store: &MetaStore, r0: i64) -> MetaStore {
    let mut s = store.clone();
    for m in s.failures.values_mut() {
        for t in m.values_mut() {
            if *t >= r0 {
                *t = r0;
            }
        }
    }
    s
}

fn new_pairs_after(before: &[ChunkStore], after: &[ChunkStore]) -> String {
    // auto_change_node_number: slot-less chunks are released first, then new chunks are appended at the end
    // (same resolution rule as harness/broker `autochange`)
    let retained = before
        .iter()
        .filter(|c| c.stable_slots.iter().any(|s| s.is_some()) || c.migrating_slots.iter().any(|m| !m.is_empty()))
        .count();
    let v: Vec<String> = after
        .iter()
        .skip(retained)
        .map(|c| format!("{}:{}", id_of(&c.proxy_addresses[0]), id_of(&c.proxy_addresses[1])))
        .collect();
    if v.is_empty() {
        "-".to_string()
    } else {
        v.join(",")
    }
}

struct Ctx {
    last_repl: u64,
    snaps: Vec<MetaStore>,
}

// sends one op; returns (resolved op text, result text).  `cur` = the store as fetched after the previous op.
async fn apply_http(s: &Srv, p: &Params, cur: &MetaStore, cx: &mut Ctx, toks: &[&str]) -> Result<(String, String), String> {
    use reqwest::Method;
    let u = |t: &str| -> u64 { t.parse().expect("num") };
    let same = toks.join(" ");
    let fetch = || async { get_json::<MetaStore>(s, "/metadata").await };
    Ok(match toks[0] {
        "addproxy" => {
            let a = u(toks[1]);
            let host = if toks[2] == "-" { serde_json::Value::Null } else { serde_json::json!(format!("h{}", toks[2])) };
            let index = if toks[3] == "-" { serde_json::Value::Null } else { serde_json::json!(u(toks[3])) };
            let body = serde_json::json!({"proxy_address": paddr(a), "nodes": [naddr(2 * a), naddr(2 * a + 1)], "host": host, "index": index});
            (same, unit_reply(&call(s, Method::POST, "/proxies/meta", Some(body)).await))
        }
        "rmproxy" => (same, unit_reply(&call(s, Method::DELETE, &format!("/proxies/meta/{}", paddr(u(toks[1]))), None).await)),
        "addcluster" => {
            let n = u(toks[1]);
            let before = chunks_of(cur, n);
            let r = unit_reply(
                &call(s, Method::POST, &format!("/clusters/meta/{}", cname(n)), Some(serde_json::json!({"node_number": u(toks[2])}))).await,
            );
            let pairs = if r == "ok" { pairs_between(&before, &chunks_of(&fetch().await?, n)) } else { "-".to_string() };
            (format!("addcluster {} {} {} {}", toks[1], toks[2], p.scan, pairs), r)
        }
        "rmcluster" => (same, unit_reply(&call(s, Method::DELETE, &format!("/clusters/meta/{}", cname(u(toks[1]))), None).await)),
        "addnodes" | "scaleup" => {
            let n = u(toks[1]);
            let before = chunks_of(cur, n);
            let rep = if toks[0] == "addnodes" {
                call(s, Method::PATCH, &format!("/clusters/nodes/{}", cname(n)), Some(serde_json::json!({"node_number": u(toks[2])}))).await
            } else {
                call(s, Method::PUT, &format!("/clusters/nodes/{}", cname(n)), Some(serde_json::json!({"cluster_node_number": u(toks[2])}))).await
            };
            let r = unit_reply(&rep);
            let pairs = if r == "ok" { pairs_between(&before, &chunks_of(&fetch().await?, n)) } else { "-".to_string() };
            (format!("{} {} {} {}", toks[0], toks[1], toks[2], pairs), r)
        }
        "delfree" => (same, unit_reply(&call(s, Method::DELETE, &format!("/clusters/free_nodes/{}", cname(u(toks[1]))), None).await)),
        "migrate" => (same, unit_reply(&call(s, Method::POST, &format!("/clusters/migrations/expand/{}", cname(u(toks[1]))), None).await)),
        "scaledown" => (
            same,
            unit_reply(&call(s, Method::POST, &format!("/clusters/migrations/shrink/{}/{}", cname(u(toks[1])), u(toks[2])), None).await),
        ),
        "commit" | "commitnth" | "commitstale" => {
            let n = u(toks[1]);
            let stale_delta: u64 = if toks[0] == "commitstale" { u(toks[4]) } else { 0 };
            let (epoch, tag, ranges) = if toks[0] == "commit" {
                (u(toks[2]), toks[3].to_string(), parse_ranges(toks[5]))
            } else {
                // j-th (mod count) out entry in chunk / part / list order of the stored cluster (as harness/broker does)
                let mut outs = vec![];
                for c in chunks_of(cur, n).iter() {
                    for part in c.migrating_slots.iter() {
                        for m in part.iter() {
                            if m.is_migrating {
                                outs.push((m.meta.epoch, m.range_list.get_ranges().to_vec()));
                            }
                        }
                    }
                }
                if outs.is_empty() {
                    (0, "m".to_string(), vec![])
                } else {
                    let (e, r) = outs[(u(toks[2]) as usize) % outs.len()].clone();
                    (e.saturating_sub(stale_delta), "m".to_string(), r)
                }
            };
            let name = ClusterName::try_from(cname(n).as_str()).map_err(|_| "cluster name".to_string())?;
            let tagv = match tag.as_str() {
                "m" => SlotRangeTag::Migrating(dummy_meta(epoch)),
                "i" => SlotRangeTag::Importing(dummy_meta(epoch)),
                _ => SlotRangeTag::None,
            };
            let task = MigrationTaskMeta {
                cluster_name: name,
                slot_range: SlotRange {
                    range_list: RangeList::new(ranges),
                    tag: tagv,
                },
            };
            let body = serde_json::to_value(&task).map_err(|e| format!("{}", e))?;
            let r = unit_reply(&call(s, Method::PUT, "/clusters/migrations", Some(body)).await);
            // the service always commits with clear_free_nodes = false
            let resolved = match toks[0] {
                "commit" => format!("commit {} {} {} 0 {}", toks[1], toks[2], toks[3], toks[5]),
                "commitnth" => format!("commitnth {} {} 0", toks[1], toks[2]),
                _ => format!("commitstale {} {} 0 {}", toks[1], toks[2], toks[4]),
            };
            (resolved, r)
        }
        "autochange" => {
            let n = u(toks[1]);
            let before = chunks_of(cur, n);
            let r = unit_reply(&call(s, Method::POST, &format!("/clusters/migrations/auto/{}/{}", cname(n), u(toks[2])), None).await);
            let pairs = if r == "err:PROXY_NOT_SYNC" { new_pairs_after(&before, &chunks_of(&fetch().await?, n)) } else { "-".to_string() };
            (format!("autochange {} {} {}", toks[1], toks[2], pairs), r)
        }
        "replace" | "replacelast" | "replacemember" => {
            let a = if toks[0] == "replacelast" {
                cx.last_repl
            } else if toks[0] == "replacemember" {
                let members: Vec<u64> = chunks_of(cur, u(toks[1]))
                    .iter()
                    .flat_map(|c| c.proxy_addresses.iter().map(|a| id_of(a)).collect::<Vec<_>>())
                    .collect();
                if members.is_empty() {
                    0
                } else {
                    members[(u(toks[2]) as usize) % members.len()]
                }
            } else {
                u(toks[1])
            };
            let rep = call(s, Method::POST, &format!("/proxies/failover/{}", paddr(a)), None).await;
            let (ch, res) = match &rep {
                Reply::Status(200, body) => match serde_json::from_str::<ReplaceProxyResponse>(body) {
                    Ok(ReplaceProxyResponse { proxy: Some(px) }) => {
                        let id = id_of(px.get_address());
                        cx.last_repl = id;
                        (id.to_string(), format!("repl:{}", id))
                    }
                    Ok(ReplaceProxyResponse { proxy: None }) => ("-".to_string(), "repl:-".to_string()),
                    Err(_) => ("-".to_string(), "http:200-bad-json".to_string()),
                },
                other => ("-".to_string(), unit_reply(other)),
            };
            (format!("replace {} {} {}", a, p.limit, ch), res)
        }
        "balance" => (same, unit_reply(&call(s, Method::PUT, &format!("/clusters/balance/{}", cname(u(toks[1]))), None).await)),
        "config" => {
            let key = if toks[2] == "1" { "migration_scan_count" } else { "bogus_field" };
            let mut m = serde_json::Map::new();
            m.insert(key.to_string(), serde_json::json!(toks[3].to_string()));
            (
                same,
                unit_reply(&call(s, Method::PATCH, &format!("/clusters/config/{}", cname(u(toks[1]))), Some(serde_json::Value::Object(m))).await),
            )
        }
        "addfail" => (
            format!("addfail {} {} 0", toks[1], toks[2]),
            unit_reply(&call(s, Method::POST, &format!("/failures/{}/r{}", paddr(u(toks[1])), toks[2]), None).await),
        ),
        "getfail" => {
            let rep = call(s, Method::GET, "/failures", None).await;
            let res = match &rep {
                Reply::Status(200, body) => match serde_json::from_str::<FailuresPayload>(body) {
                    Ok(FailuresPayload { addresses }) => {
                        let mut l: Vec<u64> = addresses.iter().map(|a| id_of(a)).collect();
                        l.sort();
                        format!("list:{}", l.iter().map(|x| x.to_string()).collect::<Vec<_>>().join(","))
                    }
                    Err(_) => "http:200-bad-json".to_string(),
                },
                other => unit_reply(other),
            };
            (format!("getfail {} {}", p.ttl, p.quorum), res)
        }
        "forcebump" => (same, unit_reply(&call(s, Method::PUT, &format!("/epoch/{}", u(toks[1])), None).await)),
        "svcrecover" => (same, unit_reply(&call(s, Method::PUT, "/epoch/recovery", None).await)),
        "restore" => {
            let k: usize = toks[1].parse().expect("k");
            let k2 = k.min(cx.snaps.len() - 1);
            let body = serde_json::to_value(&cx.snaps[k2]).map_err(|e| format!("{}", e))?;
            (format!("restore {}", k2), unit_reply(&call(s, Method::PUT, "/metadata", Some(body)).await))
        }
        other => (same, format!("unknown-op:{}", other)),
    })
}

// every GET the coordinator / operators use must serve exactly what the bare store computes from the in-memory state
async fn served_check(s: &Srv, p: &Params, mem: &MetaStore, fails: &mut Vec<String>) {
    let mut names: Vec<u64> = mem.clusters.keys().map(|k| id_of(k.as_str())).collect();
    names.sort();
    for n in names {
        let local = mem.get_cluster_by_name(&cname(n), p.limit).map(|c| vcluster_s(&c));
        match get_json::<ClusterPayload>(s, &format!("/clusters/meta/{}", cname(n))).await {
            Ok(ClusterPayload { cluster }) => {
                if cluster.as_ref().map(vcluster_s) != local {
                    fails.push(format!("SVC:served cluster view c{} differs from the store's view at limit {}", n, p.limit));
                }
            }
            Err(e) => fails.push(format!("SVC:{}", e)),
        }
    }
    let mut pa: Vec<u64> = mem.all_proxies.keys().map(|k| id_of(k)).collect();
    pa.sort();
    if std::env::var("UM_NO_PROXY_VIEWS").is_ok() {
        pa.clear();
    }
    for a in pa {
        let local = mem.get_proxy_by_address(&paddr(a), p.limit).map(|x| vproxy_s(&x));
        match get_json::<ProxyPayload>(s, &format!("/proxies/meta/{}", paddr(a))).await {
            Ok(ProxyPayload { proxy }) => {
                if proxy.as_ref().map(vproxy_s) != local {
                    fails.push(format!("SVC:served proxy view p{} differs from the store's view at limit {}", a, p.limit));
                }
            }
            Err(e) => fails.push(format!("SVC:{}", e)),
        }
    }
    match get_json::<FailedProxiesPayload>(s, "/proxies/failed/addresses").await {
        Ok(FailedProxiesPayload { addresses }) => {
            let mut l: Vec<String> = addresses;
            l.sort();
            let mut m: Vec<String> = mem.failed_proxies.iter().cloned().collect();
            m.sort();
            if l != m {
                fails.push("SVC:served failed-proxy list differs from the store".to_string());
            }
        }
        Err(e) => fails.push(format!("SVC:{}", e)),
    }
    match get_json::<u64>(s, "/epoch").await {
        Ok(e) if e == mem.global_epoch => (),
        Ok(e) => fails.push(format!("SVC:served epoch {} differs from the store's {}", e, mem.global_epoch)),
        Err(e) => fails.push(format!("SVC:{}", e)),
    }
}

fn join_mon(base: String, mut fails: Vec<String>) -> String {
    if fails.is_empty() {
        return base;
    }
    fails.truncate(4);
    let f = fails.join("|").replace(' ', "_").replace(';', ",");
    if base == "m=ok" {
        format!("m={}", f)
    } else {
        format!("{}|{}", base, f)
    }
}

pub fn run_case(rt: &tokio::runtime::Runtime, line: &str) -> String {
    rt.block_on(run_case_async(line))
}

async fn run_case_async(line: &str) -> String {
    let mut segs = line.split(';').map(|s| s.trim());
    let hd: Vec<&str> = segs.next().expect("header").split_whitespace().collect();
    assert!(hd[0] == "H");
    let ops: Vec<Vec<&str>> = segs.filter(|s| !s.is_empty()).map(|s| s.split_whitespace().collect()).collect();
    // ---- what the service fixes per process (see the header comment), and ops that have no HTTP API
    let mut ttl: Option<u64> = None;
    let mut quorum: Option<u64> = None;
    let mut limit: Option<u64> = None;
    let mut scan: Option<u64> = None;
    for t in ops.iter() {
        if !SUPPORTED.contains(&t[0]) {
            return format!("SKIP unsupported-op:{}", t[0]);
        }
        match t[0] {
            "addfail" if t[3] != "0" => return "SKIP addfail-with-age".to_string(),
            "svcrecover" if t[1] != "0" => return "SKIP svcrecover-with-proxy-epoch".to_string(),
            "getfail" => {
                let v: i64 = t[1].parse().expect("ttl");
                if v < 0 {
                    return "SKIP negative-ttl".to_string();
                }
                ttl = ttl.or(Some(v as u64));
                quorum = quorum.or(Some(t[2].parse().expect("quorum")));
            }
            "replace" => limit = limit.or(Some(t[2].parse().expect("lim"))),
            "replacelast" => limit = limit.or(Some(t[1].parse().expect("lim"))),
            "replacemember" => limit = limit.or(Some(t[3].parse().expect("lim"))),
            "addcluster" => scan = scan.or(Some(t[3].parse().expect("scan"))),
            _ => (),
        }
    }
    let case_no = CASE_NO.fetch_add(1, Ordering::SeqCst);
    let dir = std::env::var("UM_BROKERSVC_DIR").unwrap_or_else(|_| "/verif/work/brokersvc".to_string());
    std::fs::create_dir_all(&dir).expect("work dir");
    let file = format!("{}/meta-{}-{}.json", dir, std::process::id(), case_no);
    let _ = std::fs::remove_file(&file);
    let p = Params {
        ordered: hd[1] == "1",
        ttl: ttl.unwrap_or(60),
        quorum: quorum.unwrap_or(1),
        limit: limit.unwrap_or(1),
        scan: scan.unwrap_or_else(|| ClusterConfig::default().migration_config.scan_count),
        file: file.clone(),
    };
    let verbose = std::env::var("UM_VERBOSE").map(|v| v == "1").unwrap_or(false);
    let r0 = chrono::Utc::now().timestamp();
    let mut srv_slot: Option<Srv> = match start(&p, false).await {
        Ok(s) => Some(s),
        Err(e) => return format!("SKIP server-start-failed:{}", e),
    };
    let mut cur: MetaStore = match get_json::<MetaStore>(srv_slot.as_ref().expect("srv"), "/metadata").await {
        Ok(s) => s,
        Err(e) => return format!("SKIP first-fetch-failed:{}", e.replace(' ', "_")),
    };
    let mut cx = Ctx {
        last_repl: 0,
        snaps: vec![cur.clone()],
    };
    let mut resolved = vec![format!("H {}", hd[1])];
    let mut outs: Vec<String> = vec![];
    let mut prev: Option<crate::mon::Prev> = None;
    let mut failed_truth: HashSet<u64> = HashSet::new();
    // addresses registered (again) since their last report / failover: they must stay clear of reports and of the failed mark
    let mut cleared: HashSet<u64> = HashSet::new();
    for toks in ops.iter() {
        let before = cur.clone();
        let mut fails: Vec<String> = vec![];
        let (rop, res) = if toks[0] == "svcrestart" {
            if let Some(old) = srv_slot.take() {
                stop(old).await;
            }
            srv_slot = match start(&p, true).await {
                Ok(s) => Some(s),
                Err(e) => {
                    resolved.push("svcrestart".to_string());
                    outs.push(format!("restart-failed:{} - - m=SVC:broker_does_not_restart_from_its_meta_file", e.replace(' ', "_")));
                    break;
                }
            };
            ("svcrestart".to_string(), "restarted".to_string())
        } else {
            match apply_http(srv_slot.as_ref().expect("srv"), &p, &cur, &mut cx, toks).await {
                Ok(x) => x,
                Err(e) => (toks.join(" ").replace('?', "-"), format!("harness:{}", e.replace(' ', "_"))),
            }
        };
        resolved.push(rop.clone());
        if res == "panic" {
            outs.push("panic - - m=ANY:request_broke_(handler_panicked_or_connection_lost)".to_string());
            break;
        }
        let srv = srv_slot.as_ref().expect("srv");
        let mem = match get_json::<MetaStore>(srv, "/metadata").await {
            Ok(s) => s,
            Err(e) => {
                outs.push(format!("{} - - m=SVC:{}", res, e.replace(' ', "_")));
                break;
            }
        };
        let onfile = match file_store(&p).await {
            Ok(s) => s,
            Err(e) => {
                fails.push(format!("SVC:meta file unreadable after {}: {}", toks[0], e));
                MetaStore::new(p.ordered)
            }
        };
        // ---- service contract 1: the meta file is current after every API call (exact text, raw timestamps)
        // label SVCEPOCH = the two differ in the global epoch number only (first token of the canonical text), label SVC = in content
        let mem_exact = state_s(&world(&mem, r0));
        let file_exact = state_s(&world(&onfile, r0));
        let sans_epoch = |t: &str| -> String { t.split_once(' ').map(|x| x.1.to_string()).unwrap_or_default() };
        if mem_exact != file_exact {
            let lab = if sans_epoch(&mem_exact) == sans_epoch(&file_exact) { "SVCEPOCH" } else { "SVC" };
            fails.push(format!("{}:meta file differs from the in-memory store after {} ({})", lab, toks[0], res));
        }
        // ---- service contract 2: a restart from the meta file changes nothing
        let before_exact = state_s(&world(&before, r0));
        if toks[0] == "svcrestart" && mem_exact != before_exact {
            let lab = if sans_epoch(&mem_exact) == sans_epoch(&before_exact) { "SVCEPOCH" } else { "SVC" };
            fails.push(format!("{}:store after restart differs from the store before the restart", lab));
        }
        // two separately deserialised stores iterate their HashSet in different orders; mon.rs compares serialised stores, so give the
        // new store the old one's set (order) wherever the members are the same
        let mem = {
            let mut m = mem;
            let mut fp = before.failed_proxies.clone();
            fp.retain(|a| m.failed_proxies.contains(a));
            for a in m.failed_proxies.iter() {
                fp.insert(a.clone());
            }
            m.failed_proxies = fp;
            m
        };
        // ---- C18 across restarts: a (re-)registered proxy has no reports and no failed mark until a new report / failover names it
        let rtoks: Vec<&str> = rop.split_whitespace().collect();
        match rtoks[0] {
            "addproxy" if res != "err:MISSING_SERVER_PROXY_INDEX" && !res.starts_with("http:") => {
                cleared.insert(rtoks[1].parse().unwrap_or(u64::MAX));
            }
            "addfail" | "replace" => {
                cleared.remove(&rtoks[1].parse().unwrap_or(u64::MAX));
            }
            "restore" => cleared.clear(),
            _ => (),
        }
        let mut cl: Vec<&u64> = cleared.iter().collect();
        cl.sort();
        for a in cl {
            if mem.failures.contains_key(&paddr(*a)) || mem.failed_proxies.contains(&paddr(*a)) {
                fails.push(format!("C18:proxy {} was re-registered and not reported since, yet it is reported or marked failed after {}", a, rtoks[0]));
            }
        }
        served_check(srv, &p, &mem, &mut fails).await;
        if toks[0] != "svcrestart" {
            cx.snaps.push(mem.clone());
        }
        let cmem = canon(&mem, r0);
        let w = world(&cmem, r0);
        let st = state_s(&w);
        let vs = views(&w);
        let base = crate::mon::monitors_with_truth(&before, &mem, &rtoks, &res, &vs.clusters, &vs.proxies, &mut prev, &failed_truth);
        crate::mon::update_failed_truth(&mut failed_truth, &rtoks, &res, &mem);
        let mon = join_mon(base, fails);
        let fst = state_s(&world(&canon(&onfile, r0), r0));
        if verbose {
            outs.push(format!("{}\n  STATE {}\n  FILE  {}\n  VIEWS\n{}  MON {}", res, st, fst, vs.text, mon));
        } else {
            outs.push(format!("{} {} {} {} f={}", res, fnv(&st), fnv(&vs.text), mon, fnv(&fst)));
        }
        cur = mem;
    }
    if let Some(old) = srv_slot.take() {
        stop(old).await;
    }
    if std::env::var("UM_KEEP_META").is_err() {
        let _ = std::fs::remove_file(&file);
    }
    format!("R {} ## O {}", resolved.join(" ; "), outs.join(" ; "))
}
