// Group `compress` (C20): commands through a real proxy (SharedForwardHandler) with a storing stand-in for Redis.
//
//   run <d|s|a> <npre> (<key> <raw>)*npre <ncmd> (<n> <elem>*n)*ncmd [D ...]
//        one proxy; cluster config compression_strategy = disabled | set_get_only | allow_all delivered by UMCTL SETCLUSTER;
//        <npre> raw values put into the stand-in directly (values that did not go through the compressor);
//        then the commands, in order, through handle_cmd_ctx.  The optional D table is for the model driver only.
//        -> "run <reply> ; <reply> ... | <key>=<stored> ..."   stored: with strategy d r:<stored bytes>; otherwise c:<v> when the
//           stored bytes are a zstd frame (magic checked) of v, else r:<bytes> when they equal an argument verbatim, else x
//   cc <d|s|a> <n> <elem>*n        CmdCompressor::try_compressing_cmd_ctx alone -> "cc fwd <= | c:hex>* " | "cc invalid" | ...
//   dr <d|s|a> <cmdname> <resp> [D ...]  CmdReplyDecompressor::decompress + the nil fallback of DecompressCommitHandler
//   type <name>                    DataCmdType of the name, folded to the classes the model distinguishes
//   strat <text>                   CompressionStrategy::from_str
//   zrt <value>                    zstd::decode_all(zstd::encode_all(value, 1)) == value, frame magic present
//   zenc <value> / zdec <bytes>    the real library calls (used by the check to build cases with real frames)
use crate::util::*;
use arc_swap::ArcSwap;
use futures::channel::mpsc;
use futures::{Future, SinkExt, StreamExt, TryStreamExt};
use parking_lot::Mutex;
use std::collections::{BTreeMap, HashMap, HashSet};
use std::convert::TryFrom;
use std::net::SocketAddr;
use std::num::NonZeroUsize;
use std::pin::Pin;
use std::str::FromStr;
use std::sync::atomic::{AtomicBool, AtomicI64, AtomicU64};
use std::sync::Arc;
use std::time::Duration;
use undermoon::common::batch::BatchStrategy;
use undermoon::common::cluster::{ClusterName, Range, RangeList, SlotRange, SlotRangeTag};
use undermoon::common::config::{ClusterConfig, CompressionStrategy};
use undermoon::common::proto::{ClusterMapFlags, ProxyClusterMeta};
use undermoon::common::track::TrackedFutureRegistry;
use undermoon::protocol::{
    Array, BinSafeStr, BulkStr, OptionalMulti, RedisClient, RedisClientError, RedisClientFactory,
    Resp, RespPacket, RespVec,
};
use undermoon::proxy::backend::{BackendError, ConnFactory, ConnSink, ConnStream, CreateConnResult};
use undermoon::proxy::command::{new_command_pair, Command, DataCmdType};
use undermoon::proxy::verif_compress::{
    CmdCompressor, CmdReplyDecompressor, CompressionError, CompressionStrategyConfig,
};
use undermoon::proxy::executor::SharedForwardHandler;
use undermoon::proxy::manager::MetaMap;
use undermoon::proxy::service::{ClusterNodesVersion, ServerProxyConfig};
use undermoon::proxy::session::{CmdCtx, CmdCtxHandler};
use undermoon::proxy::slowlog::SlowRequestLogger;

type Store = Arc<Mutex<BTreeMap<Vec<u8>, Vec<u8>>>>;

const ZSTD_MAGIC: [u8; 4] = [0x28, 0xb5, 0x2f, 0xfd];

fn upper(b: &[u8]) -> Vec<u8> {
    b.iter().map(|x| x.to_ascii_uppercase()).collect()
}

fn err(s: &str) -> RespVec {
    Resp::Error(s.as_bytes().to_vec())
}

const ARITY: &str = "ERR wrong number of arguments";
const UNKNOWN: &str = "ERR unknown command";

fn bulk_or_nil(v: Option<&Vec<u8>>) -> RespVec {
    match v {
        Some(v) => Resp::Bulk(BulkStr::Str(v.clone())),
        None => Resp::Bulk(BulkStr::Nil),
    }
}

// the storing stand-in for Redis; must equal Compress.backend of the model
fn backend(store: &mut BTreeMap<Vec<u8>, Vec<u8>>, cmd: &[Vec<u8>]) -> RespVec {
    if cmd.is_empty() {
        return err(UNKNOWN);
    }
    if cmd[0].len() > 64 {
        return err(UNKNOWN);
    }
    let name = upper(&cmd[0]);
    let args = &cmd[1..];
    let ok = || Resp::Simple(b"OK".to_vec());
    let pairs = |args: &[Vec<u8>]| -> Option<Vec<(Vec<u8>, Vec<u8>)>> {
        if args.is_empty() || args.len() % 2 != 0 {
            None
        } else {
            Some(args.chunks(2).map(|c| (c[0].clone(), c[1].clone())).collect())
        }
    };
    match name.as_slice() {
        b"GET" => {
            if args.len() == 1 {
                bulk_or_nil(store.get(&args[0]))
            } else {
                err(ARITY)
            }
        }
        b"SET" => {
            if args.len() >= 2 {
                store.insert(args[0].clone(), args[1].clone());
                ok()
            } else {
                err(ARITY)
            }
        }
        b"SETNX" => {
            if args.len() == 2 {
                if store.contains_key(&args[0]) {
                    Resp::Integer(b"0".to_vec())
                } else {
                    store.insert(args[0].clone(), args[1].clone());
                    Resp::Integer(b"1".to_vec())
                }
            } else {
                err(ARITY)
            }
        }
        b"SETEX" | b"PSETEX" => {
            if args.len() == 3 {
                store.insert(args[0].clone(), args[2].clone());
                ok()
            } else {
                err(ARITY)
            }
        }
        b"GETSET" => {
            if args.len() == 2 {
                let old = bulk_or_nil(store.get(&args[0]));
                store.insert(args[0].clone(), args[1].clone());
                old
            } else {
                err(ARITY)
            }
        }
        b"MSET" => match pairs(args) {
            Some(ps) => {
                for (k, v) in ps {
                    store.insert(k, v);
                }
                ok()
            }
            None => err(ARITY),
        },
        b"MSETNX" => match pairs(args) {
            Some(ps) => {
                if ps.iter().any(|(k, _)| store.contains_key(k)) {
                    Resp::Integer(b"0".to_vec())
                } else {
                    for (k, v) in ps {
                        store.insert(k, v);
                    }
                    Resp::Integer(b"1".to_vec())
                }
            }
            None => err(ARITY),
        },
        b"MGET" => {
            if args.is_empty() {
                err(ARITY)
            } else {
                Resp::Arr(Array::Arr(args.iter().map(|k| bulk_or_nil(store.get(k))).collect()))
            }
        }
        b"STRLEN" => {
            if args.len() == 1 {
                let n = store.get(&args[0]).map(|v| v.len()).unwrap_or(0);
                Resp::Integer(n.to_string().into_bytes())
            } else {
                err(ARITY)
            }
        }
        b"APPEND" => {
            if args.len() == 2 {
                let mut nv = store.get(&args[0]).cloned().unwrap_or_default();
                nv.extend_from_slice(&args[1]);
                let n = nv.len();
                store.insert(args[0].clone(), nv);
                Resp::Integer(n.to_string().into_bytes())
            } else {
                err(ARITY)
            }
        }
        _ => err(UNKNOWN),
    }
}

struct StoringConnFactory {
    store: Store,
}

impl ConnFactory for StoringConnFactory {
    type Pkt = RespPacket;
    fn create_conn(
        &self,
        _addr: SocketAddr,
    ) -> Pin<Box<dyn Future<Output = CreateConnResult<Self::Pkt>> + Send>> {
        let (sender, receiver) = mpsc::unbounded();
        let store = self.store.clone();
        let receiver = receiver.map(move |packet: RespPacket| {
            let cmd: Vec<Vec<u8>> = match packet.to_resp_vec() {
                Resp::Arr(Array::Arr(resps)) => resps
                    .iter()
                    .map(|r| match r {
                        Resp::Bulk(BulkStr::Str(s)) => s.clone(),
                        _ => vec![],
                    })
                    .collect(),
                _ => vec![],
            };
            let resp = backend(&mut store.lock(), &cmd);
            Ok::<_, ()>(RespPacket::Data(resp))
        });
        let sink: ConnSink<RespPacket> = Box::pin(sender.sink_map_err(|_| BackendError::Canceled));
        let stream: ConnStream<RespPacket> = Box::pin(receiver.map_err(|_| BackendError::Canceled));
        Box::pin(async { Ok((sink, stream)) })
    }
}

struct OkClient;
impl RedisClient for OkClient {
    fn execute<'s>(
        &'s mut self,
        command: OptionalMulti<Vec<BinSafeStr>>,
    ) -> Pin<Box<dyn Future<Output = Result<OptionalMulti<RespVec>, RedisClientError>> + Send + 's>>
    {
        let ok = || Resp::Simple(b"OK".to_vec());
        let res = match command {
            OptionalMulti::Single(_) => OptionalMulti::Single(ok()),
            OptionalMulti::Multi(cs) => OptionalMulti::Multi(cs.iter().map(|_| ok()).collect()),
        };
        Box::pin(async move { Ok(res) })
    }
}
struct OkClientFactory;
impl RedisClientFactory for OkClientFactory {
    type Client = OkClient;
    fn create_client<'s>(
        &'s self,
        _address: String,
    ) -> Pin<Box<dyn Future<Output = Result<Self::Client, RedisClientError>> + Send + 's>> {
        Box::pin(async move { Ok(OkClient) })
    }
}

type Handler = SharedForwardHandler<OkClientFactory, StoringConnFactory>;

fn new_proxy(store: Store) -> Handler {
    let self_addr = "127.0.0.1:5299".to_string();
    let config = Arc::new(ServerProxyConfig {
        address: self_addr.clone(),
        announce_address: self_addr,
        announce_host: "127.0.0.1".to_string(),
        slowlog_len: NonZeroUsize::new(16).unwrap(),
        slowlog_log_slower_than: AtomicI64::new(-1),
        slowlog_sample_rate: AtomicU64::new(1),
        thread_number: NonZeroUsize::new(2).unwrap(),
        backend_conn_num: NonZeroUsize::new(1).unwrap(),
        active_redirection: false,
        max_redirections: None,
        default_redirection_address: None,
        backend_batch_strategy: BatchStrategy::Disabled,
        backend_flush_size: NonZeroUsize::new(1024).unwrap(),
        backend_low_flush_interval: Duration::from_nanos(200_000),
        backend_high_flush_interval: Duration::from_nanos(800_000),
        session_timeout: None,
        backend_timeout: Duration::from_secs(3),
        password: None,
        command_cluster_nodes_version: ClusterNodesVersion::V2,
    });
    let conn_factory = Arc::new(StoringConnFactory { store });
    let meta_map = Arc::new(ArcSwap::new(Arc::new(MetaMap::empty())));
    let (stopped, rx) = mpsc::unbounded();
    std::mem::forget(rx);
    SharedForwardHandler::new(
        config.clone(),
        Arc::new(OkClientFactory),
        Arc::new(SlowRequestLogger::new(config)),
        meta_map,
        conn_factory,
        Arc::new(TrackedFutureRegistry::default()),
        stopped,
    )
}

async fn send_cmd(handler: &Handler, elems: Vec<Vec<u8>>) -> Option<RespVec> {
    let resp = Resp::Arr(Array::Arr(
        elems.into_iter().map(|b| Resp::Bulk(BulkStr::Str(b))).collect(),
    ));
    let cmd = Command::new(Box::new(RespPacket::Data(resp)));
    let (s, r) = new_command_pair(&cmd);
    let ctx = CmdCtx::new(cmd, s, 0, false);
    let auth = AtomicBool::new(false);
    match handler.handle_cmd_ctx(ctx, r, &auth).await {
        Ok(reply) => Some(reply.into_resp_vec()),
        Err(_) => None,
    }
}

fn strategy_of(tok: &str) -> CompressionStrategy {
    match tok {
        "d" => CompressionStrategy::Disabled,
        "s" => CompressionStrategy::SetGetOnly,
        "a" => CompressionStrategy::AllowAll,
        other => panic!("bad strategy {}", other),
    }
}

fn parse_cmd<'a, I: Iterator<Item = &'a str>>(it: &mut I) -> Vec<Vec<u8>> {
    let n: usize = it.next().expect("n").parse().expect("n");
    (0..n).map(|_| unhex(it.next().expect("elem"))).collect()
}

// the classes of DataCmdType the model distinguishes
fn class_of(t: DataCmdType) -> &'static str {
    match t {
        DataCmdType::Get => "get",
        DataCmdType::Getset => "getset",
        DataCmdType::Set => "set",
        DataCmdType::Setnx => "setnx",
        DataCmdType::Setex => "setex",
        DataCmdType::Psetex => "psetex",
        DataCmdType::Mset => "mset",
        DataCmdType::Msetnx => "msetnx",
        DataCmdType::Mget => "mget",
        DataCmdType::Append
        | DataCmdType::Bitcount
        | DataCmdType::Bitfield
        | DataCmdType::Bitop
        | DataCmdType::Bitpos
        | DataCmdType::Decr
        | DataCmdType::Decrby
        | DataCmdType::Getbit
        | DataCmdType::Getrange
        | DataCmdType::Incr
        | DataCmdType::Incrby
        | DataCmdType::Incrbyfloat
        | DataCmdType::Setbit
        | DataCmdType::Setrange
        | DataCmdType::Strlen => "strother",
        _ => "other",
    }
}

fn ctx_of(elems: &[Vec<u8>]) -> CmdCtx {
    let resp = Resp::Arr(Array::Arr(
        elems.iter().map(|b| Resp::Bulk(BulkStr::Str(b.clone()))).collect(),
    ));
    let cmd = Command::new(Box::new(RespPacket::Data(resp)));
    let (s, _r) = new_command_pair(&cmd);
    CmdCtx::new(cmd, s, 0, false)
}

struct FixedStrategy(CompressionStrategy);
impl CompressionStrategyConfig for FixedStrategy {
    fn get_config(&self) -> CompressionStrategy {
        self.0
    }
}

// with compression disabled the stored bytes themselves; otherwise "c:<v>" when they are a zstd frame (magic checked) of v,
// else "r:<bytes>" when they equal an argument of the case verbatim, else "x"
fn stored_token(b: &[u8], verbatim: &HashSet<Vec<u8>>, disabled: bool) -> String {
    if disabled {
        return format!("r:{}", hex(b));
    }
    match zstd::decode_all(b) {
        Ok(v) if b.len() >= 4 && b[..4] == ZSTD_MAGIC => format!("c:{}", hex(&v)),
        _ => {
            if verbatim.contains(b) {
                format!("r:{}", hex(b))
            } else {
                "x".to_string()
            }
        }
    }
}

pub fn run_case(rt: &tokio::runtime::Runtime, line: &str) -> String {
    let mut it = line.split_whitespace();
    let kind = it.next().expect("kind");
    match kind {
        "run" => {
            let stok = it.next().expect("strategy");
            let strategy = strategy_of(stok);
            let npre: usize = it.next().expect("npre").parse().expect("npre");
            let store: Store = Arc::new(Mutex::new(BTreeMap::new()));
            let mut verbatim: HashSet<Vec<u8>> = HashSet::new();
            for _ in 0..npre {
                let k = unhex(it.next().expect("key"));
                let v = unhex(it.next().expect("raw"));
                verbatim.insert(v.clone());
                store.lock().insert(k, v);
            }
            let ncmd: usize = it.next().expect("ncmd").parse().expect("ncmd");
            let cmds: Vec<Vec<Vec<u8>>> = (0..ncmd).map(|_| parse_cmd(&mut it)).collect();
            for c in cmds.iter() {
                for e in c.iter() {
                    verbatim.insert(e.clone());
                }
            }
            let store2 = store.clone();
            rt.block_on(async move {
                let handler = new_proxy(store2.clone());
                let mut local = HashMap::new();
                local.insert(
                    "127.0.0.1:7001".to_string(),
                    vec![SlotRange {
                        range_list: RangeList::new(vec![Range(0, 16383)]),
                        tag: SlotRangeTag::None,
                    }],
                );
                let mut cfg = ClusterConfig::default();
                cfg.compression_strategy = strategy;
                let meta = ProxyClusterMeta::new(
                    1,
                    ClusterMapFlags {
                        force: false,
                        compress: false,
                    },
                    ClusterName::try_from("cz").expect("name"),
                    local,
                    HashMap::new(),
                    cfg,
                );
                let mut elems = vec![b"UMCTL".to_vec(), b"SETCLUSTER".to_vec()];
                elems.extend(meta.to_args().into_iter().map(|a| a.into_bytes()));
                match send_cmd(&handler, elems).await {
                    Some(Resp::Simple(ref b)) if b == b"OK" => {}
                    other => return format!("setcluster-failed {:?}", other.map(|r| resp_to_string(&r))),
                }
                let mut outs = vec![];
                for c in cmds.iter() {
                    let class = class_of(ctx_of(c).get_data_cmd_type());
                    let r = send_cmd(&handler, c.clone()).await;
                    let tok = match r {
                        // the length of a compressed value is not comparable with the abstract model
                        Some(Resp::Integer(_)) if class == "strother" && stok != "d" => "I *".to_string(),
                        Some(r) => resp_to_string(&r),
                        None => "canceled".to_string(),
                    };
                    outs.push(tok);
                }
                // FIFO barrier on the single backend connection: sub-commands whose replies were dropped are done
                let _ = send_cmd(&handler, vec![b"GET".to_vec(), b"{t}--barrier--".to_vec()]).await;
                let dump: Vec<String> = store2
                    .lock()
                    .iter()
                    .map(|(k, v)| format!("{}={}", hex(k), stored_token(v, &verbatim, stok == "d")))
                    .collect();
                format!("run {} | {}", outs.join(" ; "), dump.join(" "))
            })
        }
        "cc" => {
            let strategy = strategy_of(it.next().expect("strategy"));
            let elems = parse_cmd(&mut it);
            let mut ctx = ctx_of(&elems);
            let compressor = CmdCompressor::new(FixedStrategy(strategy));
            match compressor.try_compressing_cmd_ctx(&mut ctx) {
                Ok(()) | Err(CompressionError::Disabled) | Err(CompressionError::UnsupportedCmdType) => {
                    let mut out = vec!["cc".to_string(), "fwd".to_string()];
                    let mut i = 0;
                    while let Some(e) = ctx.get_cmd().get_command_element(i) {
                        if i < elems.len() && e == elems[i].as_slice() {
                            out.push("=".into());
                        } else {
                            match zstd::decode_all(e) {
                                Ok(v) if e.len() >= 4 && e[..4] == ZSTD_MAGIC => out.push(format!("c:{}", hex(&v))),
                                _ => out.push(format!("x:{}", hex(e))),
                            }
                        }
                        i += 1;
                    }
                    out.join(" ")
                }
                Err(CompressionError::InvalidRequest) | Err(CompressionError::InvalidResp) => "cc invalid".into(),
                Err(CompressionError::RestrictedCmd) => "cc restricted".into(),
                Err(CompressionError::Io(_)) => "cc io".into(),
            }
        }
        "dr" => {
            let strategy = strategy_of(it.next().expect("strategy"));
            let name = unhex(it.next().expect("name"));
            let reply = parse_resp_tokens(&mut it);
            let ctx = ctx_of(&[name, b"k".to_vec()]);
            let mut packet = RespPacket::Data(reply);
            let d = CmdReplyDecompressor::new(FixedStrategy(strategy));
            match d.decompress(&ctx, &mut packet) {
                Ok(()) | Err(CompressionError::UnsupportedCmdType) | Err(CompressionError::Disabled) => {
                    format!("dr {}", resp_to_string(&packet.to_resp_vec()))
                }
                Err(_) => "dr BN".to_string(),
            }
        }
        "type" => {
            let name = unhex(it.next().expect("name"));
            let ctx = ctx_of(&[name, b"k".to_vec(), b"v".to_vec()]);
            format!("type {}", class_of(ctx.get_data_cmd_type()))
        }
        "strat" => {
            let text = unhex(it.next().expect("text"));
            let s = match String::from_utf8(text) {
                Ok(s) => s,
                Err(_) => return "strat none".into(),
            };
            match CompressionStrategy::from_str(&s) {
                Ok(CompressionStrategy::Disabled) => "strat d".into(),
                Ok(CompressionStrategy::SetGetOnly) => "strat s".into(),
                Ok(CompressionStrategy::AllowAll) => "strat a".into(),
                Err(_) => "strat none".into(),
            }
        }
        "zrt" => {
            let v = unhex(it.next().expect("value"));
            let c = zstd::encode_all(v.as_slice(), 1).expect("encode");
            let magic = c.len() >= 4 && c[..4] == ZSTD_MAGIC;
            match zstd::decode_all(c.as_slice()) {
                Ok(d) if d == v && magic => "zrt ok".into(),
                Ok(d) => format!("zrt mismatch len {} magic {}", d.len(), magic),
                Err(e) => format!("zrt error {}", e),
            }
        }
        "zenc" => {
            let v = unhex(it.next().expect("value"));
            format!("zenc {}", hex(&zstd::encode_all(v.as_slice(), 1).expect("encode")))
        }
        "zdec" => {
            let v = unhex(it.next().expect("bytes"));
            match zstd::decode_all(v.as_slice()) {
                Ok(d) => format!("zdec ok {}", hex(&d)),
                Err(_) => "zdec err".into(),
            }
        }
        other => format!("unknown-kind {}", other),
    }
}
