// Group `route` (C02): a scripted broker history on a real MetaStore, one real proxy per cluster proxy, metadata delivered by
// the coordinator's real ProxyMetaRespSender (plain or compressed), migration phases pinned by gating the handshake, then a GET
// for one key of every slot at every proxy.
//
// Case  : "<enc> <lim> <pin> | H <ordered> ; op ; op ..."      enc = plain|comp   lim = migration limit of the views
//         pin = pc | pb | psh | psd | scan | fsh | fsd | sc   (see `set_gates`; xsplit | xpp = replay-only pins, see expected_states)
// Output: "R <resolved history> ## V <hash of the cluster view> ## PH <phases> ## OBS <per proxy runs> ## MON <monitor>"
use crate::net::*;
use crate::store::*;
use std::collections::{BTreeMap, HashMap};
use std::sync::atomic::{AtomicUsize, Ordering};
use std::sync::Arc;
use std::time::Duration;
use undermoon::broker::verif::*;
use undermoon::common::cluster::{Cluster, Role, SlotRangeTag};
use undermoon::common::utils::generate_slot;
use undermoon::coordinator::verif::{ProxyMetaRespSender, ProxyMetaSender};
use undermoon::protocol::{Array, BulkStr, Resp, RespVec};

const SLOTS: usize = 16384;

// Counters fed by the scheduling hook of proxy/blocking.rs (cfg undermoon_verif, common::verif_sched): "enqueue" is hit immediately
// before TaskBlockingQueue::send parks a command in the blocking queue, "handoff" immediately before it hands a command to the
// backend sender, "redispatch" for every command release_all takes out of the queue again.  They are the POSITIVE evidence for
// "this command sits in a blocking queue"; no classification depends on a wall-clock wait.
static ENQUEUED: AtomicUsize = AtomicUsize::new(0);
static REDISPATCHED: AtomicUsize = AtomicUsize::new(0);
static HANDED_OFF: AtomicUsize = AtomicUsize::new(0);
static TRY_RECV: AtomicUsize = AtomicUsize::new(0);
// commands issued by the harness in the current case (probes of every proxy, sentinels) that have not been answered yet;
// each of them is parked in a blocking queue or in flight, so OUTSTANDING >= parked_now(), with equality exactly when nothing is in flight
static OUTSTANDING: AtomicUsize = AtomicUsize::new(0);
// ENQUEUED - REDISPATCHED when the current case started (its own runtime: nothing of an earlier case is still running)
static PARKED_BASE: AtomicUsize = AtomicUsize::new(0);

// commands of the current case that sit in some blocking queue right now
fn parked_now() -> usize {
    let out = REDISPATCHED.load(Ordering::SeqCst); // first: a command is counted out only after it was counted in
    let inn = ENQUEUED.load(Ordering::SeqCst);
    inn.saturating_sub(out).saturating_sub(PARKED_BASE.load(Ordering::SeqCst))
}

fn install_hook() {
    use std::sync::OnceLock;
    static DONE: OnceLock<()> = OnceLock::new();
    DONE.get_or_init(|| {
        undermoon::common::verif_sched::set_callback(Some(Arc::new(|label: &'static str| match label {
            "enqueue" => {
                ENQUEUED.fetch_add(1, Ordering::SeqCst);
            }
            "redispatch" => {
                REDISPATCHED.fetch_add(1, Ordering::SeqCst);
            }
            "handoff" => {
                HANDED_OFF.fetch_add(1, Ordering::SeqCst);
            }
            "try_recv" => {
                TRY_RECV.fetch_add(1, Ordering::SeqCst);
            }
            _ => {}
        })));
    });
}

fn stuck_limit() -> Duration {
    Duration::from_millis(std::env::var("UM_ROUTE_STUCK_MS").ok().and_then(|v| v.parse().ok()).unwrap_or(180_000))
}

fn slot_tags() -> &'static Vec<String> {
    use std::sync::OnceLock;
    static TAGS: OnceLock<Vec<String>> = OnceLock::new();
    TAGS.get_or_init(|| {
        let mut tags: Vec<Option<String>> = vec![None; SLOTS];
        let mut left = SLOTS;
        let mut i = 0u64;
        while left > 0 {
            let t = format!("k{}", i);
            let s = generate_slot(t.as_bytes());
            if tags[s].is_none() {
                tags[s] = Some(t);
                left -= 1;
            }
            i += 1;
        }
        tags.into_iter().map(|t| t.expect("tag")).collect()
    })
}

fn probe_key(slot: usize, proxy: u64) -> Vec<u8> {
    format!("{{{}}}:{}", slot_tags()[slot], proxy).into_bytes()
}

// ---------- observed phases ----------
// migration identity: (ranges, src node, dst node); value: (state at the source proxy, state at the destination proxy)
type Phases = BTreeMap<(String, u64, u64), (String, String)>;

fn bulk_lines(r: &RespVec) -> Vec<String> {
    match r {
        Resp::Arr(Array::Arr(v)) => v
            .iter()
            .filter_map(|e| match e {
                Resp::Bulk(BulkStr::Str(s)) => Some(String::from_utf8_lossy(s).to_string()),
                _ => None,
            })
            .collect(),
        _ => vec![],
    }
}

async fn read_phases(proxies: &BTreeMap<u64, Handler>) -> Phases {
    let mut ph: Phases = BTreeMap::new();
    for (pid, h) in proxies.iter() {
        let info = send_cmd(h, vec![b"UMCTL".to_vec(), b"INFO".to_vec()]).await;
        let mgr = match info {
            Some(Resp::Arr(Array::Arr(v))) if v.len() >= 6 => v[5].clone(),
            _ => continue,
        };
        for line in bulk_lines(&mgr) {
            if line.starts_with("name:") {
                continue;
            }
            // "<n> a-b c-d <src node> -> <dst node> <STATE>"
            let t: Vec<&str> = line.split_whitespace().collect();
            if t.len() < 6 {
                continue;
            }
            let state = t[t.len() - 1].to_string();
            let dst = id_of(t[t.len() - 2]);
            let src = id_of(t[t.len() - 4]);
            let ranges = t[1..t.len() - 4].join(",");
            let e = ph.entry((ranges, src, dst)).or_insert(("?".to_string(), "?".to_string()));
            if src / 2 == *pid {
                e.0 = state;
            } else {
                e.1 = state;
            }
        }
    }
    ph
}

// waits (load-independent: up to stuck_limit()) until every task reports the expected pair of states
async fn wait_states(proxies: &BTreeMap<u64, Handler>, want: (&str, &str), cap: Duration) -> Phases {
    let t = std::time::Instant::now();
    let mut ph = read_phases(proxies).await;
    while !ph.values().all(|(a, b)| a == want.0 && b == want.1) && t.elapsed() < cap {
        tokio::time::sleep(Duration::from_millis(4)).await;
        ph = read_phases(proxies).await;
    }
    ph
}

fn phases_s(ph: &Phases) -> String {
    if ph.is_empty() {
        return "-".to_string();
    }
    ph.iter()
        .map(|((r, s, d), (a, b))| format!("{}:{}>{}={}/{}", r, s, d, a, b))
        .collect::<Vec<_>>()
        .join(" ")
}

// ---------- pins ----------
fn expected_states(pin: &str) -> (&'static str, &'static str) {
    match pin {
        "pc" => ("PRE_CHECK", "PRE_CHECK"),
        "pb" => ("PRE_BLOCKING", "PRE_CHECK"),
        "psh" => ("PRE_SWITCH", "PRE_CHECK"),
        "psd" => ("PRE_SWITCH", "PRE_SWITCH"),
        "scan" => ("SCANNING", "PRE_SWITCH"),
        "fsh" => ("FINAL_SWITCH", "PRE_SWITCH"),
        "fsd" => ("FINAL_SWITCH", "SWITCH_COMMITTED"),
        "sc" => ("SWITCH_COMMITTED", "SWITCH_COMMITTED"),
        // replay-only pins for the pairs OUTSIDE the consistent list; they need UM_ROUTE_MAX_BLOCKING_MS=300 UM_ROUTE_SETTLE_MS=1200
        "xsplit" => ("PRE_SWITCH", "PRE_SWITCH"),
        "xpp" => ("FINAL_SWITCH", "PRE_CHECK"),
        other => panic!("unknown pin {}", other),
    }
}

fn set_gates(net: &Net, pin: &str) {
    let (pc, ps, scan, fs) = match pin {
        "pc" | "pb" => (GATE_HOLD, GATE_HOLD, true, GATE_HOLD),
        "psh" => (GATE_PASS, GATE_HOLD, true, GATE_HOLD),
        "psd" => (GATE_PASS, GATE_DROP, true, GATE_HOLD),
        "scan" => (GATE_PASS, GATE_PASS, true, GATE_HOLD),
        "fsh" => (GATE_PASS, GATE_PASS, false, GATE_HOLD),
        "fsd" => (GATE_PASS, GATE_PASS, false, GATE_DROP),
        "sc" => (GATE_PASS, GATE_PASS, false, GATE_PASS),
        "xsplit" => (GATE_PASS, GATE_DROP, true, GATE_HOLD),
        "xpp" => (GATE_PASS, GATE_HOLD, false, GATE_HOLD),
        other => panic!("unknown pin {}", other),
    };
    net.gate_precheck.store(pc, Ordering::SeqCst);
    net.gate_preswitch.store(ps, Ordering::SeqCst);
    net.hold_scan.store(scan, Ordering::SeqCst);
    net.gate_finalswitch.store(fs, Ordering::SeqCst);
}

// ---------- probing ----------
#[derive(Clone, PartialEq, Eq, Debug)]
enum Obs {
    Exec(Vec<u64>),
    Moved(u64),
    Queued,
    Error(String),
}

fn obs_tok(o: &Obs) -> String {
    match o {
        Obs::Exec(v) => format!("X{}", v.iter().map(|n| n.to_string()).collect::<Vec<_>>().join("+")),
        Obs::Moved(p) => format!("M{}", p),
        Obs::Queued => "Q".to_string(),
        Obs::Error(e) => format!("E{}", e),
    }
}

fn err_word(s: &str) -> String {
    s.chars()
        .map(|c| if c.is_ascii_alphanumeric() { c } else { '_' })
        .take(40)
        .collect()
}

// one GET per slot at proxy pid; a probe without reply when the others have been quiet for `idle` is parked in a blocking queue
// one GET per slot at proxy pid.  Every probe ends up answered or parked in a blocking queue; the loop runs until the number of
// unanswered commands equals the number of commands the hook counted into (and not out of) the blocking queues,
// so a probe is reported as parked (Q) only when it demonstrably sits in a blocking queue, however slow the machine is.
// If neither a reply, nor a command reaching a fake node, nor a counter moved for stuck_limit() the unanswered probes are
// reported as harness errors (never as Q).
async fn probe_proxy(net: &Arc<Net>, pid: u64, h: &Handler, max_stall: &mut Duration) -> Vec<Obs> {
    let table: Arc<parking_lot::Mutex<Vec<Option<RespVec>>>> = Arc::new(parking_lot::Mutex::new(vec![None; SLOTS]));
    OUTSTANDING.fetch_add(SLOTS, Ordering::SeqCst);
    for s in 0..SLOTS {
        let key = probe_key(s, pid);
        let h = h.clone();
        let table = table.clone();
        tokio::spawn(async move {
            let r = send_cmd(&h, vec![b"GET".to_vec(), key]).await;
            let r = r.unwrap_or_else(|| Resp::Error(b"harness: canceled".to_vec()));
            {
                let mut t = table.lock();
                t[s] = Some(r);
            }
            OUTSTANDING.fetch_sub(1, Ordering::SeqCst);
        });
    }
    let tick = Duration::from_millis(10);
    let limit = stuck_limit();
    let mut quiet = Duration::from_millis(0);
    let snapshot = |net: &Arc<Net>| {
        (net.log.lock().len(), OUTSTANDING.load(Ordering::SeqCst), ENQUEUED.load(Ordering::SeqCst), REDISPATCHED.load(Ordering::SeqCst))
    };
    let mut last = snapshot(net);
    let mut stuck = false;
    let counters = || {
        (OUTSTANDING.load(Ordering::SeqCst), ENQUEUED.load(Ordering::SeqCst), REDISPATCHED.load(Ordering::SeqCst), TRY_RECV.load(Ordering::SeqCst))
    };
    let mut settled_at: Option<(usize, usize, usize, usize)> = None;
    loop {
        // settled = every unanswered command is counted into a queue, at two readings a tick apart between which no queue was touched
        // (a release_all in progress shows as a moving try_recv / redispatch counter)
        let c = counters();
        if c.0 == parked_now() && counters() == c {
            if settled_at == Some(c) {
                break;
            }
            settled_at = Some(c);
        } else {
            settled_at = None;
        }
        tokio::time::sleep(tick).await;
        let now = snapshot(net);
        if now != last {
            last = now;
            if quiet > *max_stall {
                *max_stall = quiet;
            }
            quiet = Duration::from_millis(0);
        } else {
            quiet += tick;
            if quiet >= limit {
                stuck = true;
                break;
            }
        }
    }
    // unanswered probes are parked exactly when the counters account for every unanswered command of the case
    let all_parked = !stuck;
    let replies: Vec<Option<RespVec>> = table.lock().clone();
    if std::env::var("UM_ROUTE_DEBUG").is_ok() {
        eprintln!("probe p{}: answered={} outstanding={} parked={} stuck={}", pid, replies.iter().filter(|r| r.is_some()).count(),
                  OUTSTANDING.load(Ordering::SeqCst), parked_now(), stuck);
    }
    // which node saw the GET of each probe key
    let mut seen: HashMap<Vec<u8>, Vec<u64>> = HashMap::new();
    {
        let log = net.log.lock();
        for (node, name, key) in log.iter() {
            if name == "GET" {
                let e = seen.entry(key.clone()).or_insert_with(Vec::new);
                if !e.contains(node) {
                    e.push(*node);
                }
            }
        }
    }
    let mut out = Vec::with_capacity(SLOTS);
    for s in 0..SLOTS {
        let key = probe_key(s, pid);
        let mut nodes = seen.get(&key).cloned().unwrap_or_default();
        nodes.sort();
        let o = match &replies[s] {
            None => {
                if !all_parked {
                    Obs::Error("harness_probe_neither_answered_nor_parked".to_string())
                } else if nodes.is_empty() {
                    Obs::Queued
                } else {
                    Obs::Error(format!("no_reply_but_executed_on_{:?}", nodes))
                }
            }
            Some(Resp::Bulk(BulkStr::Nil)) => {
                if nodes.is_empty() {
                    Obs::Error("reply_without_execution".to_string())
                } else {
                    Obs::Exec(nodes)
                }
            }
            Some(Resp::Error(e)) => {
                let txt = String::from_utf8_lossy(e).to_string();
                let t: Vec<&str> = txt.split_whitespace().collect();
                if t.len() == 3 && t[0] == "MOVED" && t[1] == s.to_string() && nodes.is_empty() {
                    Obs::Moved(id_of(t[2]))
                } else {
                    Obs::Error(err_word(&txt))
                }
            }
            Some(other) => Obs::Error(err_word(&format!("{:?}", other))),
        };
        out.push(o);
    }
    out
}

fn runs_s(obs: &[Obs]) -> String {
    let mut out = vec![];
    let mut i = 0;
    while i < obs.len() {
        let mut j = i;
        while j + 1 < obs.len() && obs[j + 1] == obs[i] {
            j += 1;
        }
        out.push(format!("{}-{}:{}", i, j, obs_tok(&obs[i])));
        i = j + 1;
    }
    out.join(",")
}

// ---------- monitor: the property on what the real proxies answered, from the real cluster view only ----------
struct Truth {
    one_slot_ranges: usize,                  // ranges (any tag) of master nodes that consist of exactly one slot
    short_ranges: usize,                     // ... of fewer than 4 slots
    owner: Vec<Option<u64>>,                 // stable / migrating owner node per slot
    mig: Vec<Option<(String, u64, u64)>>,    // migration of the slot, if any
    dup: usize,                              // slots with more or fewer than one owner
}

fn truth_of(c: &Cluster) -> Truth {
    let mut owner = vec![None; SLOTS];
    let mut cnt = vec![0usize; SLOTS];
    let mut mig = vec![None; SLOTS];
    let mut one_slot_ranges = 0usize;
    let mut short_ranges = 0usize;
    for n in c.get_nodes() {
        if n.get_role() != Role::Master {
            continue;
        }
        for sr in n.get_slots() {
            for r in sr.range_list.get_ranges() {
                if r.end() >= r.start() {
                    let len = r.end() - r.start() + 1;
                    if len == 1 {
                        one_slot_ranges += 1;
                    }
                    if len < 4 {
                        short_ranges += 1;
                    }
                }
            }
            let m = match &sr.tag {
                SlotRangeTag::Importing(_) => continue,
                SlotRangeTag::Migrating(m) => Some((
                    ranges_s(&sr.range_list),
                    id_of(&m.src_node_address),
                    id_of(&m.dst_node_address),
                )),
                SlotRangeTag::None => None,
            };
            for r in sr.range_list.get_ranges() {
                for s in r.start()..=r.end() {
                    if s < SLOTS {
                        cnt[s] += 1;
                        owner[s] = Some(id_of(n.get_address()));
                        mig[s] = m.clone();
                    }
                }
            }
        }
    }
    let dup = cnt.iter().filter(|c| **c != 1).count();
    Truth { one_slot_ranges, short_ranges, owner, mig, dup }
}

fn monitor(truth: &Truth, ph: &Phases, obs: &BTreeMap<u64, Vec<Obs>>) -> String {
    let mut fails: Vec<String> = vec![];
    let mut chases = 0usize;
    let mut max_redir = [0usize; 2];
    let mut ended_q = 0usize;
    let mut q_node_barrier = 0usize;
    if truth.dup > 0 {
        fails.push(format!("view_not_a_partition:{}_slots", truth.dup));
    }
    // nodes whose blocking queue can be raised: source nodes of migrations whose source is in PRE_BLOCKING / PRE_SWITCH / SCANNING
    let barrier_nodes: Vec<u64> = ph
        .iter()
        .filter(|(_, (a, _))| a == "PRE_BLOCKING" || a == "PRE_SWITCH" || a == "SCANNING")
        .map(|((_, s, _), _)| *s)
        .collect();
    let mut push_fail = |f: String| {
        if fails.len() < 8 {
            fails.push(f);
        }
    };
    for (start, _) in obs.iter() {
        for s in 0..SLOTS {
            let owner = match truth.owner[s] {
                Some(o) => o,
                None => continue,
            };
            let (designated, allowed, bound, src_state) = match &truth.mig[s] {
                None => (owner, vec![owner], 1usize, None),
                Some(k) => {
                    let (a, b) = ph.get(k).cloned().unwrap_or(("?".to_string(), "?".to_string()));
                    let d = if b == "PRE_CHECK" { k.1 } else { k.2 };
                    (d, vec![owner, k.1, k.2], 3usize, Some(a))
                }
            };
            chases += 1;
            let mut cur = *start;
            let mut redir = 0usize;
            loop {
                let o = match obs.get(&cur) {
                    Some(v) => &v[s],
                    None => {
                        push_fail(format!("moved_to_non_cluster_proxy:start={}:slot={}:proxy={}", start, s, cur));
                        break;
                    }
                };
                match o {
                    Obs::Moved(q) => {
                        redir += 1;
                        if redir > bound {
                            push_fail(format!("too_many_redirections:start={}:slot={}:{}>{}", start, s, redir, bound));
                            break;
                        }
                        cur = *q;
                    }
                    Obs::Exec(nodes) => {
                        if nodes.iter().any(|n| !allowed.contains(n)) {
                            push_fail(format!("stray_exec:start={}:slot={}:at={}:nodes={:?}", start, s, cur, nodes));
                        }
                        if nodes != &vec![designated] {
                            push_fail(format!(
                                "wrong_node:start={}:slot={}:at={}:got={:?}:designated={}",
                                start, s, cur, nodes, designated
                            ));
                        }
                        break;
                    }
                    Obs::Queued => {
                        ended_q += 1;
                        let own_barrier = matches!(src_state.as_deref(), Some("PRE_BLOCKING") | Some("PRE_SWITCH"));
                        if !own_barrier {
                            // parked although the slot itself is not behind its own barrier: fine only when the node that would
                            // execute is the source node of some migration whose barrier can be up
                            if barrier_nodes.contains(&owner) && cur == owner / 2 {
                                q_node_barrier += 1;
                            } else {
                                push_fail(format!("queued_without_barrier:start={}:slot={}:at={}", start, s, cur));
                            }
                        } else if cur != owner / 2 {
                            push_fail(format!("queued_not_at_source:start={}:slot={}:at={}", start, s, cur));
                        }
                        break;
                    }
                    Obs::Error(e) => {
                        push_fail(format!("error_reply:start={}:slot={}:at={}:{}", start, s, cur, e));
                        break;
                    }
                }
            }
            let k = if truth.mig[s].is_some() { 1 } else { 0 };
            if redir > max_redir[k] {
                max_redir[k] = redir;
            }
        }
    }
    let head = if fails.is_empty() { "ok".to_string() } else { fails.join("|") };
    format!(
        "{} chases={} maxredir_stable={} maxredir_migrating={} ended_queued={} queued_node_barrier={} one_slot_ranges={} short_ranges={}",
        head, chases, max_redir[0], max_redir[1], ended_q, q_node_barrier, truth.one_slot_ranges, truth.short_ranges
    )
}

// The barrier flag is not part of the task state: PRE_BLOCKING is set just before start_blocking, SCANNING just before the
// BlockingHandle is dropped (PRE_SWITCH implies a raised barrier, FINAL_SWITCH and later a dropped handle).  For the source node of
// every PRE_BLOCKING task wait until a sentinel command is counted INTO its blocking queue, for the source node of SCANNING tasks
// (that is not also the source of an earlier-phase task) until a sentinel for one of its stable slots is handed to the node.
async fn establish_barriers(proxies: &BTreeMap<u64, Handler>, ph: &Phases, truth: &Truth, note: &mut String) {
    let blocked_nodes: Vec<u64> = ph.iter().filter(|(_, (a, _))| a == "PRE_BLOCKING" || a == "PRE_SWITCH").map(|((_, s, _), _)| *s).collect();
    let mut done: Vec<u64> = vec![];
    for ((ranges, src, _), (state, _)) in ph.iter() {
        let want_blocked = match state.as_str() {
            "PRE_BLOCKING" => true,
            "SCANNING" if !blocked_nodes.contains(src) => false,
            _ => continue,
        };
        if done.contains(src) {
            continue;
        }
        done.push(*src);
        let slot: Option<usize> = if want_blocked {
            ranges.split(|c| c == '-' || c == ',').next().and_then(|x| x.parse().ok())
        } else {
            (0..SLOTS).find(|s| truth.owner[*s] == Some(*src) && truth.mig[*s].is_none())
        };
        let slot = match slot {
            Some(s) => s,
            None => continue,
        };
        let h = match proxies.get(&(*src / 2)) {
            Some(h) => h.clone(),
            None => continue,
        };
        let t = std::time::Instant::now();
        let mut k = 0u64;
        loop {
            let (e0, h0) = (ENQUEUED.load(Ordering::SeqCst), HANDED_OFF.load(Ordering::SeqCst));
            let key = format!("sent{}x{}{{{}}}", t.elapsed().as_nanos(), k, slot_tags()[slot]).into_bytes();
            k += 1;
            let hh = h.clone();
            OUTSTANDING.fetch_add(1, Ordering::SeqCst);
            let counted = Arc::new(std::sync::atomic::AtomicBool::new(true));
            let counted2 = counted.clone();
            tokio::spawn(async move {
                let _ = send_cmd(&hh, vec![b"GET".to_vec(), key]).await;
                if counted2.swap(false, Ordering::SeqCst) {
                    OUTSTANDING.fetch_sub(1, Ordering::SeqCst);
                }
            });
            while ENQUEUED.load(Ordering::SeqCst) == e0 && HANDED_OFF.load(Ordering::SeqCst) == h0 && t.elapsed() < stuck_limit() {
                tokio::time::sleep(Duration::from_millis(1)).await;
            }
            let was_parked = ENQUEUED.load(Ordering::SeqCst) != e0;
            if !was_parked && want_blocked && counted.swap(false, Ordering::SeqCst) {
                // handed to the node, where it may wait behind the plug like the plug itself: executing, not in flight inside the proxy
                OUTSTANDING.fetch_sub(1, Ordering::SeqCst);
            }
            if was_parked == want_blocked {
                break;
            }
            if t.elapsed() >= stuck_limit() {
                note.push_str(&format!("barrier_of_node_{}_not_{};", src, if want_blocked { "raised" } else { "lowered" }));
                break;
            }
            tokio::time::sleep(Duration::from_millis(2)).await;
        }
    }
}

// ---------- the case ----------
pub fn run_case(rt: &tokio::runtime::Runtime, line: &str) -> String {
    let t_case = std::time::Instant::now();
    let (head, hist) = line.split_once('|').expect("case: <enc> <lim> <pin> | <history>");
    let hd: Vec<&str> = head.split_whitespace().collect();
    assert!(hd.len() == 3, "case head");
    let compress = match hd[0] {
        "plain" => false,
        "comp" => true,
        other => panic!("bad encoding {}", other),
    };
    let lim: u64 = hd[1].parse().expect("lim");
    let pin = hd[2].to_string();

    // 1. the broker state.  The pseudo-op `sync` marks a point where the coordinator already delivered the views of that moment;
    //    the views of the final state are then delivered on top of them (higher epoch, possibly the same running tasks).
    install_hook();
    let mut segs = hist.split(';').map(|s| s.trim());
    let h0: Vec<&str> = segs.next().expect("header").split_whitespace().collect();
    assert!(h0[0] == "H");
    let mut store = MetaStore::new(h0[1] == "1");
    let mut resolved = vec![format!("H {}", h0[1])];
    let mut store_at_sync: Option<MetaStore> = None;
    for seg in segs {
        if seg.is_empty() {
            continue;
        }
        if seg == "sync" {
            store_at_sync = Some(store.clone());
            resolved.push("sync".to_string());
            continue;
        }
        let toks: Vec<&str> = seg.split_whitespace().collect();
        let (rop, _res) = apply(&mut store, &toks);
        resolved.push(rop);
    }
    let cluster = store.get_cluster_by_name(&cname(1), lim).expect("cluster c1");
    let view_text = vcluster_s(&cluster);
    let truth = truth_of(&cluster);
    let pids_of = |c: &Cluster| -> Vec<u64> {
        let mut v: Vec<u64> = c.get_nodes().iter().map(|n| id_of(n.get_proxy_address())).collect();
        v.sort();
        v.dedup();
        v
    };
    let pids = pids_of(&cluster);
    let pids_sync: Vec<u64> = match &store_at_sync {
        Some(st) => st.get_cluster_by_name(&cname(1), lim).map(|c| pids_of(&c)).unwrap_or_default(),
        None => vec![],
    };

    // a runtime of its own for the case: when it is shut down nothing of the case (retry loops of pinned handshakes, parked
    // commands) survives into the next case or disturbs the hook counters
    let _ = rt;
    let case_rt = tokio::runtime::Builder::new_multi_thread().worker_threads(2).enable_all().build().expect("runtime");
    OUTSTANDING.store(0, Ordering::SeqCst);
    PARKED_BASE.store(0, Ordering::SeqCst);
    let base = parked_now();
    PARKED_BASE.store(base, Ordering::SeqCst);
    let (ph, obs, note, max_stall) = case_rt.block_on(async {
        // 2. real proxies
        let net = Net::new();
        let mut all: BTreeMap<u64, Handler> = BTreeMap::new();
        for p in pids.iter().chain(pids_sync.iter()) {
            if !all.contains_key(p) {
                let h = new_proxy(&net, &host_of_proxy(*p), &paddr(*p));
                net.handlers.lock().insert(paddr(*p), h.clone());
                all.insert(*p, h);
            }
        }
        let proxies: BTreeMap<u64, Handler> = all.iter().filter(|(p, _)| pids.contains(p)).map(|(p, h)| (*p, h.clone())).collect();
        // 3. metadata through the coordinator's sender, with the handshake gated
        set_gates(&net, if pin == "pb" { "pc" } else { &pin });
        let sender = ProxyMetaRespSender::new(Arc::new(NetClientFactory { net: net.clone() }), compress);
        let mut note = String::new();
        let first_store = store_at_sync.as_ref().unwrap_or(&store);
        let first_pids = if store_at_sync.is_some() { &pids_sync } else { &pids };
        for p in first_pids.iter() {
            let view = first_store.get_proxy_by_address(&paddr(*p), lim).expect("proxy view");
            if let Err(e) = sender.send_meta(view).await {
                note.push_str(&format!("send_meta_failed:{}:{:?};", p, e));
            }
        }
        // 4. pin the phases
        let pinned: BTreeMap<u64, Handler> = all.iter().filter(|(p, _)| first_pids.contains(p)).map(|(p, h)| (*p, h.clone())).collect();
        if pin == "pb" {
            // keep one command running on every migration source node, then let PRECHECK through: the migrating tasks
            // raise their barrier and wait in PreBlocking for that command
            let ph0 = read_phases(&pinned).await;
            net.hold_plug.store(true, Ordering::SeqCst);
            let mut plugged = vec![];
            for ((ranges, src, _), _) in ph0.iter() {
                if plugged.contains(src) {
                    continue;
                }
                plugged.push(*src);
                let first: usize = ranges.split(|c| c == '-' || c == ',').next().and_then(|x| x.parse().ok()).expect("range");
                let key = format!("plug{{{}}}", slot_tags()[first]).into_bytes();
                let h = pinned.get(&(*src / 2)).expect("src proxy").clone();
                tokio::spawn(async move {
                    let _ = send_cmd(&h, vec![b"GET".to_vec(), key]).await;
                });
            }
            // wait until the plugs reached the nodes
            let t = std::time::Instant::now();
            while t.elapsed() < stuck_limit() {
                let n = net.log.lock().iter().filter(|(_, _, k)| k.starts_with(b"plug")).count();
                if n >= plugged.len() {
                    break;
                }
                tokio::time::sleep(Duration::from_millis(2)).await;
            }
            net.gate_precheck.store(GATE_PASS, Ordering::SeqCst);
        }
        let want = expected_states(&pin);
        let mut ph = wait_states(&pinned, want, stuck_limit()).await;
        // The barrier flag is not part of the task state: PRE_BLOCKING is set just before start_blocking, SCANNING just before the
        // BlockingHandle is dropped.  Establish it with a sentinel command per source node and the hook counters.
        establish_barriers(&pinned, &ph, &truth, &mut note).await;
        if store_at_sync.is_some() {
            // the coordinator's next round: the views of the final state on top of the installed ones
            for p in pids.iter() {
                let view = store.get_proxy_by_address(&paddr(*p), lim).expect("proxy view");
                if let Err(e) = sender.send_meta(view).await {
                    note.push_str(&format!("send_meta_failed:{}:{:?};", p, e));
                }
            }
            // tasks (re)created by this delivery start under the already opened gates and need not reach the pinned pair: the states
            // that are read back are what the model is given, and a later change is reported (phases_changed_during_probing)
            ph = wait_states(&proxies, want, Duration::from_secs(5)).await;
            establish_barriers(&proxies, &ph, &truth, &mut note).await;
            // a fake node answers in order: a plug that still holds the connection of a node that is no longer the source of any
            // running migration (its barrier is gone) would keep every later command of that node waiting forever
            let still: Vec<u64> = ph.keys().map(|(_, src, _)| *src).collect();
            let mut un = net.unplugged.lock();
            for n in 0..512u64 {
                if !still.contains(&n) {
                    un.push(n);
                }
            }
        }
        // 5. probes
        let mut obs: BTreeMap<u64, Vec<Obs>> = BTreeMap::new();
        let mut max_stall = Duration::from_millis(0);
        for (p, h) in proxies.iter() {
            obs.insert(*p, probe_proxy(&net, *p, h, &mut max_stall).await);
        }
        let ph_after = read_phases(&proxies).await;
        if ph_after != ph {
            note.push_str(&format!("phases_changed_during_probing:{};", phases_s(&ph_after)));
        }
        // release everything so that the proxies' tasks can finish and be dropped
        net.hold_plug.store(false, Ordering::SeqCst);
        net.handlers.lock().clear();
        (ph, obs, note, max_stall)
    });
    case_rt.shutdown_timeout(Duration::from_secs(20));

    let obs_s = obs
        .iter()
        .map(|(p, v)| format!("p{}={}", p, runs_s(v)))
        .collect::<Vec<_>>()
        .join(";");
    let mon = monitor(&truth, &ph, &obs);
    format!(
        "R {} ## V {} ## PH {} ## OBS {} ## MON {} ms={} stall_ms={}{}",
        resolved.join(" ; "),
        fnv(&view_text),
        phases_s(&ph),
        obs_s,
        mon,
        t_case.elapsed().as_millis(),
        max_stall.as_millis(),
        if note.is_empty() { String::new() } else { format!(" note={}", note) }
    )
}
