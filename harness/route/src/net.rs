// In-process network: real proxies (SharedForwardHandler) + fake Redis nodes + a gate on the migration handshake.
use crate::store::{id_of, is_proxy_addr};
use arc_swap::ArcSwap;
use futures::channel::mpsc;
use futures::{Future, SinkExt, StreamExt, TryStreamExt};
use parking_lot::Mutex;
use std::collections::HashMap;
use std::net::SocketAddr;
use std::num::NonZeroUsize;
use std::pin::Pin;
use std::sync::atomic::{AtomicBool, AtomicI64, AtomicU64, AtomicU8, Ordering};
use std::sync::Arc;
use std::time::Duration;
use undermoon::common::batch::BatchStrategy;
use undermoon::common::track::TrackedFutureRegistry;
use undermoon::protocol::{
    Array, BinSafeStr, BulkStr, OptionalMulti, RedisClient, RedisClientError, RedisClientFactory,
    Resp, RespPacket, RespVec,
};
use undermoon::proxy::backend::{BackendError, ConnFactory, ConnSink, ConnStream, CreateConnResult};
use undermoon::proxy::command::{new_command_pair, Command};
use undermoon::proxy::executor::SharedForwardHandler;
use undermoon::proxy::manager::MetaMap;
use undermoon::proxy::service::{ClusterNodesVersion, ServerProxyConfig};
use undermoon::proxy::session::{CmdCtx, CmdCtxHandler};
use undermoon::proxy::slowlog::SlowRequestLogger;

pub type Handler = SharedForwardHandler<NetClientFactory, NetConnFactory>;

pub const GATE_PASS: u8 = 0; // deliver, return the real reply
pub const GATE_HOLD: u8 = 1; // do not deliver, answer an error
pub const GATE_DROP: u8 = 2; // deliver, but answer an error (the reply is lost)

pub struct Net {
    pub handlers: Mutex<HashMap<String, Handler>>,
    pub gate_precheck: AtomicU8,
    pub gate_preswitch: AtomicU8,
    pub gate_finalswitch: AtomicU8,
    pub hold_scan: AtomicBool,
    pub hold_plug: AtomicBool,
    // nodes whose plug command is let go although hold_plug is still set (their migration ended)
    pub unplugged: Mutex<Vec<u64>>,
    // (node id, command name, key) of every command that reached a fake Redis node over a data connection
    pub log: Mutex<Vec<(u64, String, Vec<u8>)>>,
}

impl Net {
    pub fn new() -> Arc<Self> {
        Arc::new(Self {
            handlers: Mutex::new(HashMap::new()),
            gate_precheck: AtomicU8::new(GATE_PASS),
            gate_preswitch: AtomicU8::new(GATE_PASS),
            gate_finalswitch: AtomicU8::new(GATE_PASS),
            hold_scan: AtomicBool::new(false),
            hold_plug: AtomicBool::new(false),
            unplugged: Mutex::new(vec![]),
            log: Mutex::new(vec![]),
        })
    }

    fn handler_of(&self, addr: &str) -> Option<Handler> {
        let g = self.handlers.lock();
        g.get(addr).cloned()
    }
}

pub fn bulk(b: &[u8]) -> RespVec {
    Resp::Bulk(BulkStr::Str(b.to_vec()))
}

pub async fn send_cmd(handler: &Handler, elems: Vec<Vec<u8>>) -> Option<RespVec> {
    let resp = Resp::Arr(Array::Arr(elems.into_iter().map(|b| Resp::Bulk(BulkStr::Str(b))).collect()));
    let cmd = Command::new(Box::new(RespPacket::Data(resp)));
    let (s, r) = new_command_pair(&cmd);
    let ctx = CmdCtx::new(cmd, s, 0, false);
    let auth = AtomicBool::new(false);
    match handler.handle_cmd_ctx(ctx, r, &auth).await {
        Ok(reply) => Some(reply.into_resp_vec()),
        Err(_) => None,
    }
}

fn upper(b: &[u8]) -> String {
    String::from_utf8_lossy(b).to_uppercase()
}

// what a Redis node answers on a control connection (replicators, the scan of the migrating task)
fn redis_control_reply(net: &Net, cmd: &[Vec<u8>]) -> RespVec {
    let name = cmd.get(0).map(|c| upper(c)).unwrap_or_default();
    match name.as_str() {
        "SCAN" => {
            let cursor: &[u8] = if net.hold_scan.load(Ordering::SeqCst) { b"7" } else { b"0" };
            Resp::Arr(Array::Arr(vec![bulk(cursor), Resp::Arr(Array::Arr(vec![]))]))
        }
        "PTTL" => Resp::Integer(b"-2".to_vec()),
        "DUMP" | "GET" => Resp::Bulk(BulkStr::Nil),
        "EXISTS" | "DEL" => Resp::Integer(b"0".to_vec()),
        "PING" => Resp::Simple(b"PONG".to_vec()),
        _ => Resp::Simple(b"OK".to_vec()),
    }
}

// what a Redis node answers on a data connection
fn redis_data_reply(cmd: &[Vec<u8>]) -> RespVec {
    let name = cmd.get(0).map(|c| upper(c)).unwrap_or_default();
    match name.as_str() {
        "GET" | "DUMP" => Resp::Bulk(BulkStr::Nil),
        "EXISTS" | "DEL" => Resp::Integer(b"0".to_vec()),
        "PTTL" => Resp::Integer(b"-2".to_vec()),
        _ => Resp::Simple(b"OK".to_vec()),
    }
}

pub struct NetClient {
    net: Arc<Net>,
    address: String,
}

impl NetClient {
    async fn one(&self, cmd: Vec<BinSafeStr>) -> Result<RespVec, RedisClientError> {
        if is_proxy_addr(&self.address) {
            let handler = match self.net.handler_of(&self.address) {
                Some(h) => h,
                None => return Err(RedisClientError::Closed),
            };
            let gate = if cmd.len() >= 2 && upper(&cmd[0]) == "UMCTL" {
                match upper(&cmd[1]).as_str() {
                    "PRECHECK" => self.net.gate_precheck.load(Ordering::SeqCst),
                    "PRESWITCH" => self.net.gate_preswitch.load(Ordering::SeqCst),
                    "FINALSWITCH" => self.net.gate_finalswitch.load(Ordering::SeqCst),
                    _ => GATE_PASS,
                }
            } else {
                GATE_PASS
            };
            if gate == GATE_HOLD {
                tokio::time::sleep(Duration::from_millis(5)).await;
                return Ok(Resp::Error(b"harness: request held".to_vec()));
            }
            let reply = send_cmd(&handler, cmd).await;
            if gate == GATE_DROP {
                tokio::time::sleep(Duration::from_millis(5)).await;
                return Ok(Resp::Error(b"harness: reply dropped".to_vec()));
            }
            reply.ok_or(RedisClientError::Closed)
        } else {
            if self.net.hold_scan.load(Ordering::SeqCst) && cmd.get(0).map(|c| upper(c)) == Some("SCAN".to_string()) {
                tokio::time::sleep(Duration::from_millis(5)).await;
            }
            Ok(redis_control_reply(&self.net, &cmd))
        }
    }
}

impl RedisClient for NetClient {
    fn execute<'s>(
        &'s mut self,
        command: OptionalMulti<Vec<BinSafeStr>>,
    ) -> Pin<Box<dyn Future<Output = Result<OptionalMulti<RespVec>, RedisClientError>> + Send + 's>>
    {
        Box::pin(async move {
            match command {
                OptionalMulti::Single(c) => Ok(OptionalMulti::Single(self.one(c).await?)),
                OptionalMulti::Multi(cs) => {
                    let mut out = vec![];
                    for c in cs {
                        out.push(self.one(c).await?);
                    }
                    Ok(OptionalMulti::Multi(out))
                }
            }
        })
    }
}

pub struct NetClientFactory {
    pub net: Arc<Net>,
}

impl RedisClientFactory for NetClientFactory {
    type Client = NetClient;
    fn create_client<'s>(
        &'s self,
        address: String,
    ) -> Pin<Box<dyn Future<Output = Result<Self::Client, RedisClientError>> + Send + 's>> {
        let net = self.net.clone();
        Box::pin(async move { Ok(NetClient { net, address }) })
    }
}

pub struct NetConnFactory {
    pub net: Arc<Net>,
}

fn packet_cmd(packet: &RespPacket) -> Vec<Vec<u8>> {
    match packet.to_resp_vec() {
        Resp::Arr(Array::Arr(resps)) => resps
            .iter()
            .map(|r| match r {
                Resp::Bulk(BulkStr::Str(s)) => s.clone(),
                _ => vec![],
            })
            .collect(),
        _ => vec![],
    }
}

impl ConnFactory for NetConnFactory {
    type Pkt = RespPacket;
    fn create_conn(
        &self,
        addr: SocketAddr,
    ) -> Pin<Box<dyn Future<Output = CreateConnResult<Self::Pkt>> + Send>> {
        let (sender, receiver) = mpsc::unbounded();
        let net = self.net.clone();
        let addr_s = addr.to_string();
        let receiver = receiver.then(move |packet: RespPacket| {
            let net = net.clone();
            let addr_s = addr_s.clone();
            async move {
                let cmd = packet_cmd(&packet);
                if is_proxy_addr(&addr_s) {
                    // UMSYNC from an importing proxy, UMFORWARD: handled by the real proxy at that address
                    let reply = match net.handler_of(&addr_s) {
                        Some(h) => send_cmd(&h, cmd).await,
                        None => None,
                    };
                    let r = reply.unwrap_or_else(|| Resp::Error(b"harness: no such proxy".to_vec()));
                    return Ok::<_, ()>(RespPacket::Data(r));
                }
                let name = cmd.get(0).map(|c| upper(c)).unwrap_or_default();
                let key = cmd.get(1).cloned().unwrap_or_default();
                net.log.lock().push((id_of(&addr_s), name, key.clone()));
                if key.starts_with(b"plug") {
                    let node = id_of(&addr_s);
                    while net.hold_plug.load(Ordering::SeqCst) && !net.unplugged.lock().contains(&node) {
                        tokio::time::sleep(Duration::from_millis(2)).await;
                    }
                }
                Ok::<_, ()>(RespPacket::Data(redis_data_reply(&cmd)))
            }
        });
        let sink: ConnSink<RespPacket> = Box::pin(sender.sink_map_err(|_| BackendError::Canceled));
        let stream: ConnStream<RespPacket> = Box::pin(receiver.map_err(|_| BackendError::Canceled));
        Box::pin(async { Ok((sink, stream)) })
    }
}

pub fn new_proxy(net: &Arc<Net>, host: &str, address: &str) -> Handler {
    let config = Arc::new(ServerProxyConfig {
        address: address.to_string(),
        announce_address: address.to_string(),
        announce_host: host.to_string(),
        slowlog_len: NonZeroUsize::new(16).unwrap(),
        slowlog_log_slower_than: AtomicI64::new(-1),
        slowlog_sample_rate: AtomicU64::new(1),
        thread_number: NonZeroUsize::new(2).unwrap(),
        backend_conn_num: NonZeroUsize::new(1).unwrap(),
        active_redirection: false,
        max_redirections: None,
        default_redirection_address: None,
        backend_batch_strategy: BatchStrategy::Disabled,
        backend_flush_size: NonZeroUsize::new(1024).unwrap(),
        backend_low_flush_interval: Duration::from_nanos(200_000),
        backend_high_flush_interval: Duration::from_nanos(800_000),
        session_timeout: None,
        backend_timeout: Duration::from_secs(600),
        password: None,
        command_cluster_nodes_version: ClusterNodesVersion::V2,
    });
    let meta_map = Arc::new(ArcSwap::new(Arc::new(MetaMap::empty())));
    let (stopped, rx) = mpsc::unbounded();
    std::mem::forget(rx);
    SharedForwardHandler::new(
        config.clone(),
        Arc::new(NetClientFactory { net: net.clone() }),
        Arc::new(SlowRequestLogger::new(config)),
        meta_map,
        Arc::new(NetConnFactory { net: net.clone() }),
        Arc::new(TrackedFutureRegistry::default()),
        stopped,
    )
}
