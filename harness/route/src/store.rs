// Scripted broker histories on a real MetaStore (hook H1).  The op syntax and the canonical view text are the ones of
// harness/broker/src/dom.rs (needed parts copied; only the address scheme differs because real proxies need addresses
// that resolve and whose host part equals the proxy's announce_host):
//   proxy a  -> 127.0.<a>.1:6000        nodes 2a, 2a+1 -> 127.0.<a>.1:7000 / 127.0.<a>.1:7001        host j -> h<j>
use std::convert::TryFrom;
use undermoon::broker::verif::*;
use undermoon::broker::MetaStoreError;
use undermoon::common::cluster::{
    Cluster, ClusterName, MigrationMeta, MigrationTaskMeta, Node, Range, RangeList, Role, SlotRange,
    SlotRangeTag,
};
use undermoon::common::config::ClusterConfig;

pub const MAX_BLOCKING_MS: u64 = 600_000;

pub fn paddr(a: u64) -> String {
    assert!(a < 256, "proxy id too large for the address scheme");
    format!("127.0.{}.1:6000", a)
}
pub fn naddr(n: u64) -> String {
    assert!(n < 512, "node id too large for the address scheme");
    format!("127.0.{}.1:{}", n / 2, 7000 + n % 2)
}
pub fn cname(n: u64) -> String {
    format!("c{}", n)
}
pub fn host_of_proxy(a: u64) -> String {
    format!("127.0.{}.1", a)
}

// "127.0.12.1:6000" -> 12 ; "127.0.3.1:7001" -> 7 ; "h3" -> 3 ; "127.0.5.1" (derived host) -> 1000005 ; "c2" -> 2
pub fn id_of(s: &str) -> u64 {
    if let Some(rest) = s.strip_prefix("127.0.") {
        let mut it = rest.split(|c| c == '.' || c == ':');
        let a: u64 = it.next().and_then(|x| x.parse().ok()).unwrap_or(999_999);
        let _one = it.next();
        return match it.next() {
            None => 1_000_000 + a,
            Some(port) => {
                let p: u64 = port.parse().unwrap_or(0);
                if p >= 7000 {
                    2 * a + (p - 7000)
                } else {
                    a
                }
            }
        };
    }
    let (_, num) = s.split_at(1);
    num.parse().unwrap_or(999_999_999)
}

pub fn is_proxy_addr(s: &str) -> bool {
    s.starts_with("127.0.") && s.ends_with(":6000")
}

pub fn ranges_s(rl: &RangeList) -> String {
    if rl.get_ranges().is_empty() {
        return "E".to_string();
    }
    rl.get_ranges()
        .iter()
        .map(|r| format!("{}-{}", r.start(), r.end()))
        .collect::<Vec<_>>()
        .join(",")
}

pub fn cfg_id(c: &ClusterConfig) -> String {
    let d = ClusterConfig::default();
    let mut probe = c.clone();
    probe.migration_config.scan_count = d.migration_config.scan_count;
    probe.migration_config.max_blocking_time = d.migration_config.max_blocking_time;
    if probe != d {
        return format!("nondefault:{:?}", c);
    }
    c.migration_config.scan_count.to_string()
}

fn vmeta_s(m: &MigrationMeta) -> String {
    format!(
        "{}:{}:{}:{}:{}",
        m.epoch,
        id_of(&m.src_proxy_address),
        id_of(&m.src_node_address),
        id_of(&m.dst_proxy_address),
        id_of(&m.dst_node_address)
    )
}
fn vslot_s(s: &SlotRange) -> String {
    let t = match &s.tag {
        SlotRangeTag::None => "-".to_string(),
        SlotRangeTag::Migrating(m) => format!("M:{}", vmeta_s(m)),
        SlotRangeTag::Importing(m) => format!("I:{}", vmeta_s(m)),
    };
    format!("{}/{}", ranges_s(&s.range_list), t)
}
fn vslots_s(l: &[SlotRange]) -> String {
    format!("[{}]", l.iter().map(vslot_s).collect::<Vec<_>>().join(" "))
}
fn vnode_s(n: &Node) -> String {
    let peers = n.get_repl_meta().get_peers();
    let peer = if peers.is_empty() {
        "-".to_string()
    } else {
        peers
            .iter()
            .map(|p| format!("{}@{}", id_of(&p.node_address), id_of(&p.proxy_address)))
            .collect::<Vec<_>>()
            .join("+")
    };
    format!(
        "({},{},{},{},{})",
        id_of(n.get_address()),
        id_of(n.get_proxy_address()),
        if n.get_role() == Role::Master { "M" } else { "R" },
        vslots_s(n.get_slots()),
        peer
    )
}
pub fn vcluster_s(c: &Cluster) -> String {
    format!(
        "e{} c{} {}",
        c.get_epoch(),
        cfg_id(&c.get_config()),
        c.get_nodes().iter().map(vnode_s).collect::<String>()
    )
}

pub fn fnv(s: &str) -> String {
    let mut h: u64 = 0xcbf29ce484222325;
    for b in s.as_bytes() {
        h ^= *b as u64;
        h = h.wrapping_mul(0x100000001b3);
    }
    format!("{:016x}", h)
}

fn err_s(e: &MetaStoreError) -> String {
    format!("err:{}", e.to_code())
}
fn unit_res(r: Result<(), MetaStoreError>) -> String {
    match r {
        Ok(()) => "ok".to_string(),
        Err(e) => err_s(&e),
    }
}

fn pairs_between(before: &[ChunkStore], after: &[ChunkStore]) -> String {
    let old: Vec<(String, String)> = before
        .iter()
        .map(|c| (c.proxy_addresses[0].clone(), c.proxy_addresses[1].clone()))
        .collect();
    let v: Vec<String> = after
        .iter()
        .filter(|c| !old.contains(&(c.proxy_addresses[0].clone(), c.proxy_addresses[1].clone())))
        .map(|c| format!("{}:{}", id_of(&c.proxy_addresses[0]), id_of(&c.proxy_addresses[1])))
        .collect();
    if v.is_empty() {
        "-".to_string()
    } else {
        v.join(",")
    }
}

pub fn chunks_of(s: &MetaStore, n: u64) -> Vec<ChunkStore> {
    ClusterName::try_from(cname(n).as_str())
        .ok()
        .and_then(|k| s.clusters.get(&k).map(|c| c.chunks.clone()))
        .unwrap_or_default()
}

fn parse_ranges(s: &str) -> Vec<Range> {
    if s == "-" || s == "E" {
        return vec![];
    }
    s.split(',')
        .map(|p| {
            let mut it = p.split('-');
            Range(
                it.next().expect("start").parse().expect("start"),
                it.next().expect("end").parse().expect("end"),
            )
        })
        .collect()
}

fn dummy_meta(epoch: u64) -> MigrationMeta {
    MigrationMeta {
        epoch,
        src_proxy_address: "x".into(),
        src_node_address: "x".into(),
        dst_proxy_address: "x".into(),
        dst_node_address: "x".into(),
    }
}

// applies one op; returns (resolved op text, result text)
pub fn apply(st: &mut MetaStore, toks: &[&str]) -> (String, String) {
    let u = |s: &str| -> u64 { s.parse().expect("num") };
    let same = toks.join(" ");
    match toks[0] {
        "addproxy" => {
            let a = u(toks[1]);
            let host = if toks[2] == "-" { None } else { Some(format!("h{}", toks[2])) };
            let index = if toks[3] == "-" { None } else { Some(u(toks[3]) as usize) };
            let r = st.add_proxy(paddr(a), [naddr(2 * a), naddr(2 * a + 1)], host, index);
            (same, unit_res(r))
        }
        "rmproxy" => (same, unit_res(st.remove_proxy(paddr(u(toks[1]))))),
        "addcluster" => {
            let n = u(toks[1]);
            let mut cfg = ClusterConfig::default();
            cfg.migration_config.scan_count = u(toks[3]);
            cfg.migration_config.max_blocking_time = std::env::var("UM_ROUTE_MAX_BLOCKING_MS")
                .ok()
                .and_then(|v| v.parse().ok())
                .unwrap_or(MAX_BLOCKING_MS);
            let before = chunks_of(st, n);
            let r = st.add_cluster(cname(n), u(toks[2]) as usize, cfg);
            let pairs = if r.is_ok() { pairs_between(&before, &chunks_of(st, n)) } else { "-".to_string() };
            (format!("addcluster {} {} {} {}", toks[1], toks[2], toks[3], pairs), unit_res(r))
        }
        "rmcluster" => (same, unit_res(st.remove_cluster(cname(u(toks[1]))))),
        "addnodes" | "scaleup" => {
            let n = u(toks[1]);
            let before = chunks_of(st, n);
            let r = if toks[0] == "addnodes" {
                st.auto_add_nodes(cname(n), u(toks[2]) as usize).map(|_| ())
            } else {
                st.auto_scale_up_nodes(cname(n), u(toks[2]) as usize).map(|_| ())
            };
            let pairs = if r.is_ok() { pairs_between(&before, &chunks_of(st, n)) } else { "-".to_string() };
            (format!("{} {} {} {}", toks[0], toks[1], toks[2], pairs), unit_res(r))
        }
        "delfree" => (same, unit_res(st.auto_delete_free_nodes(cname(u(toks[1]))))),
        "migrate" => (same, unit_res(st.migrate_slots(cname(u(toks[1]))))),
        "scaledown" => (same, unit_res(st.migrate_slots_to_scale_down(cname(u(toks[1])), u(toks[2]) as usize))),
        "commit" | "commitnth" => {
            let n = u(toks[1]);
            let (epoch, tag, clr, ranges) = if toks[0] == "commit" {
                (u(toks[2]), toks[3].to_string(), toks[4] == "1", parse_ranges(toks[5]))
            } else {
                let mut outs = vec![];
                for c in chunks_of(st, n).iter() {
                    for part in c.migrating_slots.iter() {
                        for m in part.iter() {
                            if m.is_migrating {
                                outs.push((m.meta.epoch, m.range_list.get_ranges().to_vec()));
                            }
                        }
                    }
                }
                if outs.is_empty() {
                    (0, "m".to_string(), toks[3] == "1", vec![])
                } else {
                    let (e, r) = outs[(u(toks[2]) as usize) % outs.len()].clone();
                    (e, "m".to_string(), toks[3] == "1", r)
                }
            };
            let name = match ClusterName::try_from(cname(n).as_str()) {
                Ok(n) => n,
                Err(_) => return (same, "err:INVALID_CLUSTER_NAME".to_string()),
            };
            let range_list = RangeList::new(ranges);
            let tagv = match tag.as_str() {
                "m" => SlotRangeTag::Migrating(dummy_meta(epoch)),
                "i" => SlotRangeTag::Importing(dummy_meta(epoch)),
                _ => SlotRangeTag::None,
            };
            let task = MigrationTaskMeta {
                cluster_name: name,
                slot_range: SlotRange {
                    range_list,
                    tag: tagv,
                },
            };
            (same, unit_res(st.commit_migration(task, clr)))
        }
        "autochange" => {
            let n = u(toks[1]);
            let before = chunks_of(st, n);
            let r = st.auto_change_node_number(cname(n), u(toks[2]) as usize);
            let pairs = match &r {
                Ok((ScaleOp::ScaleOut, _, _)) => {
                    let retained = before
                        .iter()
                        .filter(|c| {
                            c.stable_slots.iter().any(|s| s.is_some())
                                || c.migrating_slots.iter().any(|m| !m.is_empty())
                        })
                        .count();
                    let after = chunks_of(st, n);
                    let v: Vec<String> = after
                        .iter()
                        .skip(retained)
                        .map(|c| format!("{}:{}", id_of(&c.proxy_addresses[0]), id_of(&c.proxy_addresses[1])))
                        .collect();
                    if v.is_empty() {
                        "-".to_string()
                    } else {
                        v.join(",")
                    }
                }
                _ => "-".to_string(),
            };
            let res = match r {
                Ok((ScaleOp::NoOp, _, _)) => "scale:noop".to_string(),
                Ok((ScaleOp::ScaleOut, _, _)) => "scale:out".to_string(),
                Ok((ScaleOp::ScaleDown, _, _)) => "scale:down".to_string(),
                Err(e) => err_s(&e),
            };
            (format!("autochange {} {} {}", toks[1], toks[2], pairs), res)
        }
        "autoscaleout" => (same, unit_res(st.auto_scale_out_node_number(cname(u(toks[1])), u(toks[2]) as usize))),
        "replace" => {
            let a = u(toks[1]);
            let r = st.replace_failed_proxy(paddr(a), u(toks[2]));
            let (ch, res) = match r {
                Ok(Some(p)) => {
                    let id = id_of(p.get_address());
                    (id.to_string(), format!("repl:{}", id))
                }
                Ok(None) => ("-".to_string(), "repl:-".to_string()),
                Err(e) => ("-".to_string(), err_s(&e)),
            };
            (format!("replace {} {} {}", toks[1], toks[2], ch), res)
        }
        "balance" => (same, unit_res(st.balance_masters(cname(u(toks[1]))))),
        other => (same, format!("unknown-op:{}", other)),
    }
}
