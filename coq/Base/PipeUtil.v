(* List helpers for the pipe model under their own names: the extracted code must not contain a module called List
   (it would shadow OCaml's). Each helper is provably the standard-library function. *)
From Coq Require Import List.
Import ListNotations.

Fixpoint pmap {A B : Type} (f : A -> B) (l : list A) : list B :=
  match l with [] => [] | x :: r => f x :: pmap f r end.

Fixpoint pcombine {A B : Type} (l : list A) (l' : list B) : list (A * B) :=
  match l, l' with x :: tl, y :: tl' => (x, y) :: pcombine tl tl' | _, _ => [] end.

Fixpoint pnth_error {A : Type} (l : list A) (n : nat) : option A :=
  match n, l with
  | O, x :: _ => Some x
  | S n', _ :: r => pnth_error r n'
  | _, [] => None
  end.

Lemma pmap_map : forall (A B : Type) (f : A -> B) l, pmap f l = map f l.
Proof. induction l; simpl; congruence. Qed.

Lemma pcombine_combine : forall (A B : Type) (l : list A) (l' : list B), pcombine l l' = combine l l'.
Proof. induction l; destruct l'; simpl; try congruence. Qed.

Lemma pnth_error_nth_error : forall (A : Type) (l : list A) n, pnth_error l n = nth_error l n.
Proof. induction l; destruct n; simpl; auto. Qed.
