(* Shared datatypes: bytes are N (0..255 by convention; well-formedness is stated where needed). *)
From Coq Require Export List NArith ZArith Bool Lia.
Export ListNotations.
Global Open Scope N_scope.

Global Arguments N.add : simpl never.
Global Arguments N.sub : simpl never.
Global Arguments N.mul : simpl never.
Global Arguments N.div : simpl never.
Global Arguments N.modulo : simpl never.
Global Arguments N.eqb : simpl never.
Global Arguments N.ltb : simpl never.
Global Arguments N.leb : simpl never.
Global Arguments Z.add : simpl never.
Global Arguments Z.sub : simpl never.
Global Arguments Z.mul : simpl never.
Global Arguments Z.eqb : simpl never.
Global Arguments Z.ltb : simpl never.
Global Arguments Z.leb : simpl never.

Definition byte := N.
Definition bytes := list N.

Definition is_byte (b : N) : bool := N.ltb b 256.
Definition all_bytes (l : bytes) : bool := forallb is_byte l.

Fixpoint bytes_eqb (a b : bytes) : bool :=
  match a, b with
  | [], [] => true
  | x :: a', y :: b' => N.eqb x y && bytes_eqb a' b'
  | _, _ => false
  end.

(* ASCII codes used across the models *)
Definition c_CR : N := 13.
Definition c_LF : N := 10.
Definition c_SP : N := 32.
Definition c_plus : N := 43.
Definition c_minus : N := 45.
Definition c_0 : N := 48.
Definition c_9 : N := 57.
Definition c_colon : N := 58.
Definition c_dollar : N := 36.
Definition c_star : N := 42.

Fixpoint list_eqb {A} (eqb : A -> A -> bool) (a b : list A) : bool :=
  match a, b with
  | [], [] => true
  | x :: a', y :: b' => eqb x y && list_eqb eqb a' b'
  | _, _ => false
  end.
