(* The RESP value type shared by the protocol, migration and proxy models.
   Mirrors protocol/resp.rs: Resp<T> = Error | Simple | Bulk(BulkStr) | Integer | Arr(Array);
   Integer carries the raw decimal bytes exactly as the Rust type does. *)
From UM Require Import Base.BytesDef.

Inductive resp : Type :=
| Simple (b : bytes)
| Error (b : bytes)
| Integer (b : bytes)
| Bulk (b : bytes)
| BulkNil
| Arr (l : list resp)
| ArrNil.
