(* Decimal printing (Rust `to_string` on integers) and the btoi / str::parse integer parsers,
   with the round-trip lemmas every codec model uses. *)
From UM Require Import Base.BytesDef.
From Coq Require Import ZifyBool ZifyNat ZifyN.
Ltac Zify.zify_post_hook ::= Z.div_mod_to_equations.

Definition digit_of (c : N) : option N :=
  if (N.leb 48 c) && (N.leb c 57) then Some (c - 48) else None.

Definition is_digit (c : N) : bool := (N.leb 48 c) && (N.leb c 57).

(* btoi::btou_radix::<I>(bytes, 10) for an unsigned-or-signed type with largest value maxv:
   checked_mul then checked_add per digit. *)
Fixpoint btou_acc (maxv acc : N) (l : bytes) : option N :=
  match l with
  | [] => Some acc
  | c :: l' =>
    match digit_of c with
    | None => None
    | Some d =>
      if N.leb (acc * 10) maxv then
        if N.leb (acc * 10 + d) maxv then btou_acc maxv (acc * 10 + d) l' else None
      else None
    end
  end.

Definition btou (maxv : N) (l : bytes) : option N :=
  match l with
  | [] => None
  | _ => btou_acc maxv 0 l
  end.

(* negative branch of btoi_radix: checked_mul, checked_sub; minv is the magnitude of the minimum *)
Fixpoint bton_acc (minmag acc : N) (l : bytes) : option N :=
  match l with
  | [] => Some acc
  | c :: l' =>
    match digit_of c with
    | None => None
    | Some d =>
      if N.leb (acc * 10) minmag then
        if N.leb (acc * 10 + d) minmag then bton_acc minmag (acc * 10 + d) l' else None
      else None
    end
  end.

Definition i64_max : N := 9223372036854775807.
Definition i64_minmag : N := 9223372036854775808.
Definition u64_max : N := 18446744073709551615.

(* btoi::btoi::<i64> *)
Definition btoi_i64 (l : bytes) : option Z :=
  match l with
  | [] => None
  | c :: r =>
    if N.eqb c 43 then option_map Z.of_N (btou i64_max r)
    else if N.eqb c 45 then
      match r with
      | [] => None
      | _ => option_map (fun m => Z.opp (Z.of_N m)) (bton_acc i64_minmag 0 r)
      end
    else option_map Z.of_N (btou i64_max l)
  end.

(* Rust integer Display *)
Fixpoint to_dec_fuel (fuel : nat) (n : N) (acc : bytes) : bytes :=
  match fuel with
  | O => acc
  | S f =>
    let acc' := (48 + n mod 10) :: acc in
    if N.ltb n 10 then acc' else to_dec_fuel f (n / 10) acc'
  end.

Definition to_dec (n : N) : bytes := to_dec_fuel (S (N.to_nat (N.log2 n))) n [].

Definition Z_to_dec (z : Z) : bytes :=
  if Z.ltb z 0 then 45 :: to_dec (Z.to_N (Z.opp z)) else to_dec (Z.to_N z).

(* value of a digit string, no overflow check *)
Fixpoint dval_acc (acc : N) (l : bytes) : N :=
  match l with
  | [] => acc
  | c :: l' => dval_acc (acc * 10 + (c - 48)) l'
  end.
Definition dval (l : bytes) : N := dval_acc 0 l.

(* ---------- lemmas ---------- *)

Lemma to_dec_fuel_app : forall fuel n acc,
  to_dec_fuel fuel n acc = to_dec_fuel fuel n [] ++ acc.
Proof.
  induction fuel as [|f IH]; intros n acc; cbn [to_dec_fuel].
  - reflexivity.
  - destruct (N.ltb n 10).
    + reflexivity.
    + rewrite (IH (n / 10) (_ :: acc)), (IH (n / 10) [_]).
      rewrite <- app_assoc. reflexivity.
Qed.

Lemma dval_acc_app : forall l1 l2 acc, dval_acc acc (l1 ++ l2) = dval_acc (dval_acc acc l1) l2.
Proof. induction l1 as [|c l1 IH]; intros; cbn [app dval_acc]; auto. Qed.

Lemma forallb_app' {A} (f : A -> bool) l1 l2 :
  forallb f (l1 ++ l2) = forallb f l1 && forallb f l2.
Proof. apply forallb_app. Qed.

Lemma log2_fuel : forall n, n < 2 ^ N.of_nat (S (N.to_nat (N.log2 n))).
Proof.
  intros n. destruct (N.eq_dec n 0) as [->|Hn].
  - cbn. lia.
  - replace (N.of_nat (S (N.to_nat (N.log2 n)))) with (N.succ (N.log2 n)) by lia.
    apply N.log2_spec. lia.
Qed.

Lemma to_dec_fuel_spec : forall fuel n,
  n < 2 ^ N.of_nat (S fuel) ->
  let l := to_dec_fuel (S fuel) n [] in
  forallb is_digit l = true /\ dval l = n /\ l <> [] /\ (n <> 0 -> hd 0 l <> 48) /\ (n = 0 -> l = [48]).
Proof.
  induction fuel as [|f IH]; intros n Hlt.
  - assert (n < 10) by (cbn in Hlt; lia).
    cbn [to_dec_fuel]. destruct (N.ltb n 10) eqn:E; [|lia]. cbn zeta.
    assert (Hd : is_digit (48 + n mod 10) = true) by (unfold is_digit; lia).
    unfold dval; cbn [forallb dval_acc hd]. rewrite Hd.
    repeat split; try discriminate; try lia. intros ->. reflexivity.
  - remember (S f) as f1. cbn [to_dec_fuel]. destruct (N.ltb n 10) eqn:E.
    + cbn zeta. assert (Hd : is_digit (48 + n mod 10) = true) by (unfold is_digit; lia).
      unfold dval; cbn [forallb dval_acc hd]. rewrite Hd.
      repeat split; try discriminate; try lia. intros ->. reflexivity.
    + cbn zeta. rewrite to_dec_fuel_app. subst f1.
      assert (Hlt' : n / 10 < 2 ^ N.of_nat (S f)).
      { replace (N.of_nat (S (S f))) with (N.succ (N.of_nat (S f))) in Hlt by lia.
        rewrite N.pow_succ_r' in Hlt. lia. }
      specialize (IH (n / 10) Hlt'). cbn zeta in IH.
      destruct IH as (Hdig & Hval & Hne & Hhd & _).
      assert (Hd : is_digit (48 + n mod 10) = true) by (unfold is_digit; lia).
      repeat split.
      * rewrite forallb_app. rewrite Hdig. cbn [forallb]. rewrite Hd. reflexivity.
      * unfold dval in *. rewrite dval_acc_app, Hval. cbn [dval_acc]. lia.
      * destruct (to_dec_fuel (S f) (n / 10) []); [congruence|discriminate].
      * intros _. assert (Hq : n / 10 <> 0) by lia. specialize (Hhd Hq).
        destruct (to_dec_fuel (S f) (n / 10) []); [congruence|exact Hhd].
      * intros ->. discriminate.
Qed.

Lemma to_dec_spec : forall n,
  forallb is_digit (to_dec n) = true /\ dval (to_dec n) = n /\ to_dec n <> [] /\
  (n <> 0 -> hd 0 (to_dec n) <> 48) /\ (n = 0 -> to_dec n = [48]).
Proof. intros n. apply (to_dec_fuel_spec _ n (log2_fuel n)). Qed.

Lemma dval_acc_mono : forall l acc, acc <= dval_acc acc l.
Proof.
  induction l as [|c l IH]; intros acc; cbn [dval_acc]; [lia|].
  specialize (IH (acc * 10 + (c - 48))). lia.
Qed.

Lemma btou_acc_digits : forall maxv l acc,
  forallb is_digit l = true -> dval_acc acc l <= maxv ->
  btou_acc maxv acc l = Some (dval_acc acc l).
Proof.
  induction l as [|c l IH]; intros acc Hd Hle; cbn [btou_acc dval_acc] in *.
  - reflexivity.
  - apply andb_true_iff in Hd. destruct Hd as [Hc Hl].
    unfold digit_of. unfold is_digit in Hc. rewrite Hc.
    pose proof (dval_acc_mono l (acc * 10 + (c - 48))) as Hm.
    destruct (N.leb (acc * 10) maxv) eqn:E1; [|lia].
    destruct (N.leb (acc * 10 + (c - 48)) maxv) eqn:E2; [|lia].
    apply IH; assumption.
Qed.

(* converse: whatever btou accepts is an all-digit string whose value it returns *)
Lemma btou_acc_sound : forall maxv l acc v,
  btou_acc maxv acc l = Some v ->
  forallb is_digit l = true /\ v = dval_acc acc l /\ v <= maxv \/ (l = [] /\ v = acc).
Proof.
  induction l as [|c l IH]; intros acc v H; cbn [btou_acc] in H.
  - right. inversion H. auto.
  - left. unfold digit_of in H. destruct (N.leb 48 c && N.leb c 57) eqn:Hc; [|discriminate].
    destruct (N.leb (acc * 10) maxv) eqn:E1; [|discriminate].
    destruct (N.leb (acc * 10 + (c - 48)) maxv) eqn:E2; [|discriminate].
    cbn [forallb dval_acc]. unfold is_digit at 1. rewrite Hc.
    destruct (IH _ _ H) as [(Hd & Hv & Hm)|(-> & ->)].
    + auto.
    + cbn. repeat split; auto. lia.
Qed.

Lemma btou_to_dec : forall maxv n, n <= maxv -> btou maxv (to_dec n) = Some n.
Proof.
  intros maxv n Hle. destruct (to_dec_spec n) as (Hd & Hv & Hne & _).
  unfold btou. destruct (to_dec n) eqn:E; [congruence|]. rewrite <- E in *.
  unfold dval in Hv. rewrite (btou_acc_digits maxv (to_dec n) 0 Hd); rewrite Hv; auto.
Qed.

Lemma bton_acc_eq_btou_acc : forall m l acc, bton_acc m acc l = btou_acc m acc l.
Proof.
  induction l as [|c l IH]; intros acc; cbn [bton_acc btou_acc]; [reflexivity|].
  destruct (digit_of c); [|reflexivity].
  destruct (N.leb (acc * 10) m); [|reflexivity].
  destruct (N.leb (acc * 10 + n) m); [apply IH|reflexivity].
Qed.

Lemma hd_digit_not_sign : forall l, forallb is_digit l = true -> l <> [] ->
  exists c r, l = c :: r /\ N.eqb c 43 = false /\ N.eqb c 45 = false.
Proof.
  intros [|c r] Hd Hne; [congruence|]. exists c, r. cbn [forallb] in Hd.
  apply andb_true_iff in Hd. destruct Hd as [Hc _]. unfold is_digit in Hc. repeat split; lia.
Qed.

Lemma btoi_i64_Z_to_dec : forall z, (- 9223372036854775808 <= z < 9223372036854775808)%Z ->
  btoi_i64 (Z_to_dec z) = Some z.
Proof.
  intros z Hz. unfold Z_to_dec. destruct (Z.ltb z 0) eqn:E.
  - unfold btoi_i64. cbn [N.eqb].
    replace (N.eqb 45 43) with false by reflexivity. replace (N.eqb 45 45) with true by reflexivity.
    destruct (to_dec_spec (Z.to_N (- z))) as (Hd & Hv & Hne & _).
    destruct (to_dec (Z.to_N (- z))) eqn:E2; [congruence|]. rewrite <- E2 in *.
    rewrite bton_acc_eq_btou_acc. unfold dval in Hv.
    rewrite (btou_acc_digits _ _ 0 Hd); rewrite Hv.
    + cbn [option_map]. f_equal. lia.
    + unfold i64_minmag. lia.
  - destruct (to_dec_spec (Z.to_N z)) as (Hd & Hv & Hne & _).
    destruct (hd_digit_not_sign _ Hd Hne) as (c & r & El & H43 & H45).
    unfold btoi_i64. rewrite El, H43, H45. rewrite <- El.
    rewrite btou_to_dec; [|unfold i64_max; lia]. cbn [option_map]. f_equal. lia.
Qed.
