(* Model of the backend request/reply pipeline of a proxy (property C08).
   Mirrors (src/proxy/backend.rs unless said otherwise):
     BackendNode::send                         -> step .. (Submit t)          (conn_failed flag, closed channel)
     sender.rs RecoverableBackendNode::send    -> ORefused completion of a task BackendNode::send hands back
     sender.rs ReqAdaptorSender::send (Multi)  -> step .. (SubmitMulti ts)    (sub-tasks sent one by one; after the first
                                                  refusal the remaining ones get ERR_MULTI_KEY_PARTIAL_ERROR)
     handle_backend                            -> ConnOk / ConnFail / WaitDone / Arrive in the failed window / SenderClosed
     handle_conn (the poll_fn closure)         -> Poll / Arrive / WriteOk / WriteErr / Reply / ReadErr / Closed / Timeout
     handle_conn_err                           -> handle_conn_err
     ReqTask::set_result                       -> req_set_result
     reply.rs ReplyCommitHandler::handle_task  -> ORep r / OTaskErr e completions
     command.rs CmdReplySender (send once, Drop => CommandError::Dropped) -> ODropped, and sess_done (first result wins)
     session.rs handle_session (reply_receiver_list FIFO)                 -> sess_step
   POLL GRANULARITY: the event Poll is the start of one execution of the poll_fn closure of handle_conn.  The closure
   recomputes `retry_times_opt` from `retry_state_opt.take()` at that point; the parameter `hoisted` selects between
     hoisted = false : the code as found (31ece96): retry_times_opt is a closure-local `let`, so it is None in every poll
                       but the first one of a connection;
     hoisted = true  : the repaired code (work/fix_C08.diff): retry_times_opt lives outside the closure, is set when the
                       retry state is taken and cleared when every pending task has been answered.
   Ghost fields (connection number, per-connection write log and read count, global write/read logs, failure bag) do not
   influence the behaviour; the theorems are stated with them.
   Executable definitions only. *)
From UM Require Import Base.BytesDef Base.PipeUtil.

Definition tid := N.          (* unique id carried by a request *)
Definition reply := N.        (* payload of a backend reply *)

Definition MAX_BACKEND_RETRY : nat := 3.

(* BackendError *)
Inductive berr := EIo | ECanceled | EInvalidState | ETimeout | EInvalidProtocol.

(* what a task's reply channel receives (CmdTask::set_result / set_resp_result / Drop) *)
Inductive outcome :=
| ORep (r : reply)        (* handler.handle_task(task, Ok(pkt)) *)
| OTaskErr (e : berr)     (* handler.handle_task(task, Err(e)): Resp::Error "backend failed to handle task: e" *)
| OCmdIo                  (* handle_conn_err, retries exhausted, BackendError::Io => CommandError::Io *)
| OCmdBackend             (* handle_conn_err, retries exhausted, other errors  => CommandError::BackendError *)
| OCanceled               (* handle_backend: connect failed, tasks of the retry state get CommandError::Canceled *)
| OConnectFailed          (* handle_backend: task received during the 1 s failed window: Resp::Error "failed to connect to .." *)
| ORefused                (* RecoverableBackendNode::send: BackendNode::send returned the task: Resp::Error ERR_BACKEND_CONNECTION *)
| OMultiPartial           (* ReqAdaptorSender::send: Resp::Error ERR_MULTI_KEY_PARTIAL_ERROR *)
| ODropped.               (* task dropped with its CmdReplySender: CommandError::Dropped *)

Definition is_error (o : outcome) : bool := match o with ORep _ => false | _ => true end.

Inductive event :=
| Submit (t : tid)                 (* a caller invokes RecoverableBackendNode::send *)
| SubmitMulti (ts : list tid)      (* a caller invokes ReqAdaptorSender::send(ReqTask::Multi ts) *)
| ConnOk                           (* conn_factory.create_conn(..) = Ok *)
| ConnFail                         (* conn_factory.create_conn(..) = Err *)
| WaitDone                         (* the 1 s sleep of the failed window elapsed *)
| Poll                             (* one execution of the poll_fn closure of handle_conn starts *)
| Arrive (t : tid)                 (* task_receiver yields Some(task) *)
| WriteOk (t : tid)                (* packets.pop_front() = request of t, writer.start_send = Ok *)
| WriteErr (e : berr)              (* writer.poll_ready / start_send / poll_flush = Err e *)
| Reply (r : reply)                (* reader yields Some(Ok(pkt)) *)
| ReadErr (e : berr)               (* reader yields Some(Err(e)) *)
| Closed                           (* reader yields None *)
| Timeout                          (* timeout_interval ticked with tasks pending and no response since the last tick *)
| SenderClosed.                    (* task_receiver yields None *)

Definition retry_state := option (nat * list tid).

Definition cmd_err_of (e : berr) : outcome := match e with EIo => OCmdIo | _ => OCmdBackend end.

(* handle_conn_err: (new retry state, completions) *)
Definition handle_conn_err (rt : option nat) (ts : list tid) (e : berr) : retry_state * list (tid * outcome) :=
  let n := match rt with Some n => n | None => O end in
  if Nat.leb MAX_BACKEND_RETRY n then (None, pmap (fun t => (t, cmd_err_of e)) ts)
  else (Some (S n, ts), []).

(* locals of handle_conn + ghost write log / read count of the connection *)
Record conn := mkConn {
  c_retry_in : retry_state;      (* retry_state_opt *)
  c_rt : option nat;             (* retry_times_opt *)
  c_tasks : list tid;            (* tasks (front first) *)
  c_packets : list tid;          (* packets not yet handed to the writer *)
  c_written : list tid;          (* ghost: requests handed to the writer on this connection, in order *)
  c_nread : nat                  (* ghost: items obtained from the reader on this connection *)
}.

Record ghost := mkGhost {
  g_connno : nat;                          (* number of the current connection (1, 2, ..) *)
  g_wlog : list (nat * nat * tid);         (* (connection, position, id) of every request written *)
  g_rlog : list (nat * nat * reply);       (* (connection, position, payload) of every reply read *)
  g_fails : list tid;                      (* bag: one occurrence of t per failed connection that had t pending *)
  g_invalid : bool                         (* one of the three "InvalidState" branches of handle_conn was taken *)
}.

Inductive mode := MConnecting | MConnected | MFailedWait | MExited.

Record state := mkState {
  s_mode : mode;
  s_conn_failed : bool;                    (* BackendNode.conn_failed *)
  s_chan : list tid;                       (* the unbounded channel BackendNode.tx -> task_receiver *)
  s_retry : retry_state;                   (* handle_backend: retry_state *)
  s_conn : conn;
  s_done : list (tid * outcome);           (* completions, newest first *)
  s_ghost : ghost
}.

Definition empty_conn : conn := mkConn None None [] [] [] O.
Definition init : state := mkState MConnecting false [] None empty_conn [] (mkGhost O [] [] [] false).

Definition set_conn (s : state) (c : conn) : state :=
  mkState (s_mode s) (s_conn_failed s) (s_chan s) (s_retry s) c (s_done s) (s_ghost s).
Definition add_done (s : state) (l : list (tid * outcome)) : state :=
  mkState (s_mode s) (s_conn_failed s) (s_chan s) (s_retry s) (s_conn s) (l ++ s_done s) (s_ghost s).
Definition set_chan (s : state) (ch : list tid) : state :=
  mkState (s_mode s) (s_conn_failed s) ch (s_retry s) (s_conn s) (s_done s) (s_ghost s).
Definition set_ghost (s : state) (g : ghost) : state :=
  mkState (s_mode s) (s_conn_failed s) (s_chan s) (s_retry s) (s_conn s) (s_done s) g.

Definition retry_tasks (r : retry_state) : list tid := match r with Some (_, ts) => ts | None => [] end.

(* the connection ends with error e: tasks.drain(..), handle_conn_err, back to the connect loop of handle_backend *)
Definition conn_fail (s : state) (rt : option nat) (e : berr) (internal : bool) : state :=
  let c := s_conn s in
  let failed := c_tasks c in
  let '(rs, outs) := handle_conn_err rt failed e in
  let g := s_ghost s in
  mkState MConnecting (s_conn_failed s) (s_chan s) rs
          (mkConn None None [] [] (c_written c) (c_nread c))
          (outs ++ s_done s)
          (mkGhost (g_connno g) (g_wlog g) (g_rlog g) (failed ++ g_fails g) (g_invalid g || internal)).

Definition refusing (s : state) : bool :=
  s_conn_failed s || match s_mode s with MExited => true | _ => false end.

Definition tid_eqb (a b : tid) : bool := N.eqb a b.

Definition is_none {A} (o : option A) : bool := match o with None => true | Some _ => false end.

(* one event; None = the event is not possible in this state (the acceptor rejects the trace) *)
Definition step (hoisted : bool) (s : state) (e : event) : option state :=
  let c := s_conn s in
  let g := s_ghost s in
  match e with
  | Submit t =>
      if refusing s then Some (add_done s [(t, ORefused)])
      else Some (set_chan s (s_chan s ++ [t]))
  | SubmitMulti ts =>
      if refusing s then
        match ts with
        | [] => Some s
        | t :: rest => Some (add_done s ((t, ORefused) :: pmap (fun x => (x, OMultiPartial)) rest))
        end
      else Some (set_chan s (s_chan s ++ ts))
  | ConnOk =>
      match s_mode s with
      | MConnecting =>
          Some (mkState MConnected false (s_chan s) None
                        (mkConn (s_retry s) None [] [] [] O)
                        (s_done s)
                        (mkGhost (S (g_connno g)) (g_wlog g) (g_rlog g) (g_fails g) (g_invalid g)))
      | _ => None
      end
  | ConnFail =>
      match s_mode s with
      | MConnecting =>
          Some (mkState MFailedWait true (s_chan s) None (s_conn s)
                        (pmap (fun t => (t, OCanceled)) (retry_tasks (s_retry s)) ++ s_done s)
                        (s_ghost s))
      | _ => None
      end
  | WaitDone =>
      match s_mode s with
      | MFailedWait => Some (mkState MConnecting (s_conn_failed s) (s_chan s) (s_retry s) (s_conn s) (s_done s) (s_ghost s))
      | _ => None
      end
  | Poll =>
      match s_mode s with
      | MConnected =>
          match c_retry_in c with
          | Some (n, ts) =>
              Some (set_conn s (mkConn None (Some n) (c_tasks c ++ ts) (c_packets c ++ ts) (c_written c) (c_nread c)))
          | None =>
              Some (set_conn s (mkConn None (if hoisted then c_rt c else None)
                                       (c_tasks c) (c_packets c) (c_written c) (c_nread c)))
          end
      | _ => None
      end
  | Arrive t =>
      match s_mode s, s_chan s with
      | MConnected, t' :: ch =>
          if tid_eqb t t' && is_none (c_retry_in c) then
            Some (set_chan (set_conn s (mkConn None (c_rt c) (c_tasks c ++ [t]) (c_packets c ++ [t]) (c_written c) (c_nread c))) ch)
          else None
      | MFailedWait, t' :: ch =>
          if tid_eqb t t' then Some (add_done (set_chan s ch) [(t, OConnectFailed)]) else None
      | _, _ => None
      end
  | WriteOk t =>
      match s_mode s, c_packets c with
      | MConnected, t' :: ps =>
          if tid_eqb t t' && is_none (c_retry_in c) then
            let s1 := set_ghost
                        (set_conn s (mkConn None (c_rt c) (c_tasks c) ps (c_written c ++ [t]) (c_nread c)))
                        (mkGhost (g_connno g) ((g_connno g, length (c_written c), t) :: g_wlog g) (g_rlog g) (g_fails g) (g_invalid g)) in
            (* task_index_opt = tasks.len().checked_sub(packets.len() + 1); tasks.get_mut(index) *)
            if Nat.leb (S (length ps)) (length (c_tasks c)) then Some s1
            else Some (conn_fail s1 (c_rt c) EInvalidState true)
          else None
      | _, _ => None
      end
  | WriteErr e =>
      match s_mode s with
      | MConnected => if is_none (c_retry_in c) then Some (conn_fail s (c_rt c) e false) else None
      | _ => None
      end
  | Reply r =>
      match s_mode s with
      | MConnected =>
          if is_none (c_retry_in c) then
            let g1 := mkGhost (g_connno g) (g_wlog g) ((g_connno g, c_nread c, r) :: g_rlog g) (g_fails g) (g_invalid g) in
            match c_tasks c with
            | t :: ts =>
                (* hoisted variant: the counter is cleared once every pending task has been answered *)
                let rt1 := if hoisted then (match ts with [] => None | _ => c_rt c end) else c_rt c in
                Some (add_done (set_ghost (set_conn s (mkConn None rt1 ts (c_packets c) (c_written c) (S (c_nread c)))) g1)
                               [(t, ORep r)])
            | [] =>
                Some (conn_fail (set_ghost (set_conn s (mkConn None (c_rt c) [] (c_packets c) (c_written c) (S (c_nread c)))) g1)
                                (c_rt c) EInvalidState true)
            end
          else None
      | _ => None
      end
  | ReadErr e =>
      match s_mode s with
      | MConnected =>
          if is_none (c_retry_in c) then
            match c_tasks c with
            | t :: ts =>
                let rt1 := if hoisted then (match ts with [] => None | _ => c_rt c end) else c_rt c in
                Some (add_done (set_conn s (mkConn None rt1 ts (c_packets c) (c_written c) (S (c_nread c))))
                               [(t, OTaskErr e)])
            | [] =>
                Some (conn_fail (set_conn s (mkConn None (c_rt c) [] (c_packets c) (c_written c) (S (c_nread c))))
                                (c_rt c) EInvalidState true)
            end
          else None
      | _ => None
      end
  | Closed =>
      match s_mode s with
      | MConnected => if is_none (c_retry_in c) then Some (conn_fail s (c_rt c) ECanceled false) else None
      | _ => None
      end
  | Timeout =>
      match s_mode s with
      | MConnected => if is_none (c_retry_in c) then Some (conn_fail s (Some MAX_BACKEND_RETRY) ETimeout false) else None
      | _ => None
      end
  | SenderClosed =>
      match s_mode s, s_chan s with
      | MConnected, [] =>
          if is_none (c_retry_in c) then
            Some (mkState MExited (s_conn_failed s) [] (s_retry s)
                          (mkConn None None [] [] (c_written c) (c_nread c))
                          (pmap (fun t => (t, ODropped)) (c_tasks c) ++ s_done s) (s_ghost s))
          else None
      | MFailedWait, [] =>
          Some (mkState MExited (s_conn_failed s) [] (s_retry s) (s_conn s) (s_done s) (s_ghost s))
      | _, _ => None
      end
  end.

Fixpoint run (hoisted : bool) (s : state) (evs : list event) : option state :=
  match evs with
  | [] => Some s
  | e :: rest => match step hoisted s e with Some s' => run hoisted s' rest | None => None end
  end.

(* index of the first event that is not enabled, for the acceptor's diagnostics *)
Fixpoint run_diag (hoisted : bool) (s : state) (evs : list event) (i : nat) : state * option nat :=
  match evs with
  | [] => (s, None)
  | e :: rest => match step hoisted s e with Some s' => run_diag hoisted s' rest (S i) | None => (s, Some i) end
  end.

(* ids handed to the senders by a trace *)
Fixpoint submitted (evs : list event) : list tid :=
  match evs with
  | [] => []
  | Submit t :: rest => t :: submitted rest
  | SubmitMulti ts :: rest => ts ++ submitted rest
  | _ :: rest => submitted rest
  end.

(* tasks the backend pipeline still owes an answer *)
Definition pending (s : state) : list tid :=
  s_chan s ++ c_tasks (s_conn s) ++ retry_tasks (c_retry_in (s_conn s)) ++ retry_tasks (s_retry s).

Definition quiescent (s : state) : bool :=
  match pending s with [] => true | _ => false end.

(* The backend hypothesis, as a check along a run: every reply read on a connection answers a request already written on
   that connection (at most one reply per request), and the k-th reply is the answer to the k-th request written. *)
Definition reply_ok (answer : tid -> reply) (s : state) (e : event) : bool :=
  match e with
  | Reply r =>
      match pnth_error (c_written (s_conn s)) (c_nread (s_conn s)) with
      | Some t => N.eqb r (answer t)
      | None => false
      end
  | ReadErr _ => Nat.ltb (c_nread (s_conn s)) (length (c_written (s_conn s)))
  | _ => true
  end.

Fixpoint backend_ok (answer : tid -> reply) (hoisted : bool) (s : state) (evs : list event) : bool :=
  match evs with
  | [] => true
  | e :: rest =>
      reply_ok answer s e &&
      match step hoisted s e with Some s' => backend_ok answer hoisted s' rest | None => true end
  end.

Fixpoint count_tid (t : tid) (l : list tid) : nat :=
  match l with [] => O | x :: r => (if tid_eqb t x then 1 else 0) + count_tid t r end.

(* order of the calls inside one execution of the closure: receive*, write*, read*, timeout?  (a separate check of the
   acceptor; the theorems do not depend on it and hold for every order) *)
Definition phase_of (e : event) : option nat :=
  match e with
  | Arrive _ | SenderClosed => Some 1%nat
  | WriteOk _ | WriteErr _ => Some 2%nat
  | Reply _ | ReadErr _ | Closed => Some 3%nat
  | Timeout => Some 4%nat
  | _ => None
  end.

Fixpoint phases_ok (cur : nat) (evs : list event) : bool :=
  match evs with
  | [] => true
  | Poll :: rest => phases_ok 1 rest
  | ConnOk :: rest => phases_ok 0 rest
  | ConnFail :: rest => phases_ok 1 rest
  | e :: rest =>
      match phase_of e with
      | Some p => Nat.leb cur p && Nat.leb 1 cur && phases_ok p rest
      | None => phases_ok cur rest
      end
  end.

(* ---------------------------------------------------------------------------------------------------------------- *)
(* ReqTask::set_result on a Multi task: one result per sub-task *)
Inductive multi_result :=
| MRErr (o : outcome)              (* Err(err): every sub-task gets err.clone() *)
| MRSingle (r : reply)             (* Ok(Single _) for a Multi task *)
| MRMulti (rs : list reply).       (* Ok(Multi results) *)

Inductive sub_outcome := SubRep (r : reply) | SubErr (o : outcome) | SubInnerError.

Definition req_set_result (v : list tid) (res : multi_result) : list (tid * sub_outcome) :=
  match res with
  | MRErr o => pmap (fun t => (t, SubErr o)) v
  | MRSingle _ => pmap (fun t => (t, SubInnerError)) v
  | MRMulti rs =>
      if Nat.eqb (length v) (length rs) then pmap (fun p => (fst p, SubRep (snd p))) (pcombine v rs)
      else pmap (fun t => (t, SubInnerError)) v
  end.

(* ---------------------------------------------------------------------------------------------------------------- *)
(* handle_session: the reply_receiver_list FIFO.  A request's future resolves at any time (SDone, first result wins: the
   oneshot sender is consumed by the first send); the poll loop pops futures from the front only while they are ready. *)
Inductive sev :=
| SReq (q : tid)                       (* reader yields a request; handler.handle_cmd(cmd) pushed to the back *)
| SDone (q : tid) (o : outcome)        (* the reply future of q becomes ready *)
| SPoll.                               (* the loop over reply_receiver_list.front_mut() *)

Record sess := mkSess {
  ss_list : list tid;                  (* reply_receiver_list, front first *)
  ss_ready : list (tid * outcome);     (* resolved futures not yet popped *)
  ss_out : list (tid * outcome)        (* replies handed to the client writer, oldest first *)
}.

Definition sess_init : sess := mkSess [] [] [].

Fixpoint lookup_tid (q : tid) (l : list (tid * outcome)) : option outcome :=
  match l with
  | [] => None
  | (x, o) :: r => if tid_eqb q x then Some o else lookup_tid q r
  end.

Fixpoint sess_drain (ready : list (tid * outcome)) (l : list tid) (out : list (tid * outcome))
  : list tid * list (tid * outcome) :=
  match l with
  | [] => ([], out)
  | q :: l' =>
      match lookup_tid q ready with
      | Some o => sess_drain ready l' (out ++ [(q, o)])
      | None => (l, out)
      end
  end.

Definition sess_step (s : sess) (e : sev) : sess :=
  match e with
  | SReq q => mkSess (ss_list s ++ [q]) (ss_ready s) (ss_out s)
  | SDone q o =>
      match lookup_tid q (ss_ready s) with
      | Some _ => s                                          (* second send: ignored ("unexpected send again") *)
      | None => mkSess (ss_list s) (ss_ready s ++ [(q, o)]) (ss_out s)
      end
  | SPoll => let '(l, out) := sess_drain (ss_ready s) (ss_list s) (ss_out s) in mkSess l (ss_ready s) out
  end.

Fixpoint sess_run (s : sess) (evs : list sev) : sess :=
  match evs with [] => s | e :: r => sess_run (sess_step s e) r end.

Fixpoint sess_reqs (evs : list sev) : list tid :=
  match evs with
  | [] => []
  | SReq q :: r => q :: sess_reqs r
  | _ :: r => sess_reqs r
  end.
