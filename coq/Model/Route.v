(* Model of slot routing across the proxies of one cluster while migrations are in any phase (property C02).
   Works at the level of SLOTS (key -> slot hashing is Model/Slot.v, property C09).  Executable definitions only.
   Mirrors, branch by branch:
     coordinator/sync.rs     ProxyMetaRespSender::send_meta_impl: filter_proxy_masters (only Role::Master nodes are encoded),
                             generate_proxy_meta_cmd_args (node_map / peer_node_map built with HashMap::insert: a later entry
                             with the same key replaces the earlier one)
     common/proto.rs         ProxyClusterMeta {local, peer}: what UMCTL SETCLUSTER carries in the plain and in the compressed
                             form (both decode to the same two HashMaps; the plain form additionally loses nodes that have
                             no slot range at all - such nodes never match a slot, see `install`)
     proxy/manager.rs        MetaManager::set_meta (MetaMap = ClusterBackendMap + MigrationMap), loop_send_cmd_ctx (3 tries),
                             send_cmd_ctx: migration_map.send first, then cluster_map.send (local, then peers)
     proxy/cluster.rs        ClusterBackendMap::send, LocalCluster::send, RemoteCluster::send_remote (MOVED / "slot not covered"),
                             SenderMap::from_slot_map; NOTE: SlotMap::from_ranges takes EVERY range of a node, whatever its
                             tag (should_ignore_slots is only used by CLUSTER NODES / SLOTS), so Migrating and Importing
                             ranges are part of the local and of the peer slot tables
     proxy/slot.rs           SlotMapData::new / get: iteration over a HashMap, a later address overwrites an earlier one:
                             when several addresses cover a slot the winner depends on the hash order => the model returns
                             the SET of possible answers
     migration/manager.rs    MigrationMap::update_from_old_task_map (one task per Migrating / Importing local range),
                             MigrationMap::send / send_helper (first task in HashMap order whose RangeMap contains the slot)
     common/cluster.rs       RangeMap::from(&RangeList) (min = first start, max = last end, `max - min + 1` on usize),
                             RangeMap::contains_slot
     migration/scan_task.rs  RedisScanMigratingTask::send (PreCheck: fall through; PreBlocking / PreSwitch: fall through with
                             a Blocking or NotBlockingInMigration hint; later phases: MOVED to the destination proxy),
                             RedisScanImportingTask::send (PreCheck: MOVED to the source proxy; later: executed through the
                             RestoreDataCmdTaskHandler on meta.dst_node_address), handle_redirection (active_redirection = false)
     proxy/blocking.rs       TaskBlockingQueue::send: the queue of a NODE ADDRESS is shared by the local sender of that node
                             and by every migrating task whose source node it is; while its blocking count is raised EVERY
                             command for that node is parked, whatever its slot
   Assumed configuration: active_redirection = false, default_redirection_address = None (the defaults).
   Identifiers (proxy and node addresses) are N as in Model/Broker.v. *)
From UM Require Import Base.BytesDef Model.Ranges Model.Broker.

(* ---------- migration phases ---------- *)
Inductive sphase := SPreCheck | SPreBlocking | SPreSwitch | SScanning | SFinalSwitch | SSwitchCommitted.
Inductive dphase := DPreCheck | DPreSwitch | DSwitchCommitted.

(* state of one migration: state of the migrating task, whether its BlockingHandle is alive, state of the importing task *)
Record mphase := mkPhase { mp_src : sphase; mp_blk : bool; mp_dst : dphase }.

(* a migration is identified by (range list, meta) exactly like MigrationTaskMeta modulo the tag direction *)
Definition phases := rangelist -> vmeta -> mphase.

(* ---------- installed metadata ---------- *)
(* HashMap built by successive inserts: canonical association list, a later insert replaces *)
Definition hm_of {V} (l : list (N * V)) : list (N * V) := fold_left (fun acc kv => ainsert (fst kv) (snd kv) acc) l [].

Record pmeta := mkPMeta {
  pm_named : bool;                          (* cluster name not empty *)
  pm_local : list (N * list vslot);         (* node address -> slot ranges *)
  pm_peers : list (N * list vslot) }.       (* peer proxy address -> slot ranges *)

(* what a proxy holds after the coordinator sent it the broker's view v of that proxy *)
Definition install (v : vproxy) : pmeta :=
  mkPMeta (match vp_cluster v with Some _ => true | None => false end)
          (hm_of (map (fun n => (vn_addr n, vn_slots n)) (filter vn_master (vp_nodes v))))
          (hm_of (vp_peers v)).

(* the view of proxy a cut out of the node list of its cluster (query.rs get_proxy_by_address) *)
Definition proxy_view_of (ns : list vnode) (a : N) : vproxy :=
  mkVProxy (Some 0) 0 (filter (fun n => N.eqb (vn_proxy n) a) ns)
           (group_peers (filter (fun n => vn_master n && negb (N.eqb (vn_proxy n) a)) ns) []) None.

Definition install_ns (ns : list vnode) (a : N) : pmeta := install (proxy_view_of ns a).

(* ---------- SlotMapData ---------- *)
Definition slot_in (s : N) (sl : vslot) : bool := in_rangelist s (fst sl).

(* addresses whose ranges cover s; SlotMapData::get answers one of them (the last in hash order), None when empty *)
Definition slot_cands (m : list (N * list vslot)) (s : N) : list N :=
  if N.leb SLOT_NUM s then []
  else map fst (filter (fun kv => existsb (slot_in s) (snd kv)) m).

(* ---------- RangeMap ---------- *)
Definition rm_bounds (rl : rangelist) : option (N * N) :=
  match rl with
  | [] => None
  | r0 :: _ =>
    let rz := last rl r0 in
    if N.leb SLOT_NUM (fst r0) || N.leb SLOT_NUM (snd rz) then None else Some (fst r0, snd rz)
  end.

(* false = `max_slot - min_slot + 1` underflows (panic in the dev profile) while the task is being created *)
Definition rm_ok (rl : rangelist) : bool :=
  match rm_bounds rl with
  | Some (mn, mx) => N.leb mn mx
  | None => true
  end.

Definition rm_contains (rl : rangelist) (s : N) : bool :=
  match rm_bounds rl with
  | None => false
  | Some (mn, mx) =>
    N.leb mn s && N.leb s mx && existsb (fun r => N.leb (fst r) s && N.leb s (N.min (snd r) (SLOT_NUM - 1))) rl
  end.

(* ---------- migration tasks of a proxy ---------- *)
Record task := mkTask { t_node : N; t_ranges : rangelist; t_out : bool; t_meta : vmeta }.

Definition tasks_of_entry (kv : N * list vslot) : list task :=
  flat_map (fun sl => match snd sl with
                      | VNone => []
                      | VMigrating m => [mkTask (fst kv) (fst sl) true m]
                      | VImporting m => [mkTask (fst kv) (fst sl) false m]
                      end) (snd kv).

Definition local_tasks (pm : pmeta) : list task := flat_map tasks_of_entry (pm_local pm).

(* blocking count of the queue of node address n: raised by the migrating tasks created with src_node_address = n *)
Definition node_blocked (ph : phases) (pm : pmeta) (n : N) : bool :=
  existsb (fun t => t_out t && N.eqb (vm_src_node (t_meta t)) n && mp_blk (ph (t_ranges t) (t_meta t))) (local_tasks pm).

(* ---------- one routing decision ---------- *)
Inductive rerr :=
| ENotCovered          (* "slot not covered" *)
| ERetryLimit          (* "cmd exceeds retry limit" *)
| EClusterNotFound     (* ERR_CLUSTER_NOT_FOUND *)
| EInstallPanic.       (* RangeMap::from underflow while SETCLUSTER created the tasks: this metadata is never installed *)

Inductive outcome :=
| Exec (node : N)      (* forwarded to this Redis node *)
| Moved (proxy : N)    (* -MOVED slot proxy *)
| Queued (node : N)    (* parked in the blocking queue of this node *)
| Err (e : rerr).

Inductive hint := HNotBlocking | HNotBlockingInMigration | HBlocking.

(* TaskBlockingQueue::send on the queue of node n; the term carried by NotBlockingInMigration is the current one
   because the phases do not change inside one decision *)
Definition queue_send (blocked : bool) (h : hint) (n : N) : outcome :=
  if blocked then Queued n
  else match h with
       | HBlocking => Err ERetryLimit            (* Retry three times with the same state *)
       | _ => Exec n
       end.

(* cluster_map.send after the migration map answered SlotNotFound *)
Definition fallthrough (ph : phases) (pm : pmeta) (s : N) (h : hint) : list outcome :=
  if negb (pm_named pm) then [Err EClusterNotFound]
  else match slot_cands (pm_local pm) s with
       | (_ :: _) as l => map (fun n => queue_send (node_blocked ph pm n) h n) l
       | [] =>
         match slot_cands (pm_peers pm) s with
         | (_ :: _) as l => map Moved l
         | [] => [Err ENotCovered]
         end
       end.

(* MigratingTask::send / ImportingTask::send of one task that contains the slot *)
Definition task_send (ph : phases) (pm : pmeta) (s : N) (t : task) : list outcome :=
  let p := ph (t_ranges t) (t_meta t) in
  if t_out t then
    match mp_src p with
    | SPreCheck => fallthrough ph pm s HNotBlockingInMigration
    | SPreBlocking | SPreSwitch =>
      fallthrough ph pm s (if node_blocked ph pm (vm_src_node (t_meta t)) then HBlocking else HNotBlockingInMigration)
    | _ => [Moved (vm_dst_proxy (t_meta t))]
    end
  else
    match mp_dst p with
    | DPreCheck => [Moved (vm_src_proxy (t_meta t))]
    | _ => [Exec (vm_dst_node (t_meta t))]
    end.

(* the set of answers a GET-like single-key command for slot s can get at a proxy holding pm *)
Definition route_step (ph : phases) (pm : pmeta) (s : N) : list outcome :=
  if negb (forallb (fun t => rm_ok (t_ranges t)) (local_tasks pm)) then [Err EInstallPanic]
  else match filter (fun t => rm_contains (t_ranges t) s) (local_tasks pm) with
       | [] => fallthrough ph pm s HNotBlocking
       | ts => flat_map (task_send ph pm s) ts
       end.

(* ---------- chasing MOVED ---------- *)
Definition step := (N * outcome)%type.          (* (proxy asked, its answer) *)

Definition is_moved (o : outcome) : bool := match o with Moved _ => true | _ => false end.

(* all traces of at most `fuel` decisions that start at proxy p: every decision but the last is a MOVED that was followed.
   A trace whose last decision is still a MOVED ran out of fuel. *)
Fixpoint chase_all (fuel : nat) (ph : phases) (metas : N -> pmeta) (s : N) (p : N) : list (list step) :=
  match fuel with
  | O => []
  | S f =>
    flat_map (fun o => match o with
                       | Moved q => match f with
                                    | O => [[(p, o)]]
                                    | _ => map (cons (p, o)) (chase_all f ph metas s q)
                                    end
                       | _ => [[(p, o)]]
                       end) (route_step ph (metas p) s)
  end.

Definition redirections (tr : list step) : nat := length (filter (fun st => is_moved (snd st)) tr).

(* ---------- the broker's designation ---------- *)
(* master entries (node, range list, tag) that own slot s: Stable and Migrating ones *)
Definition owner_entries (ns : list vnode) (s : N) : list (vnode * vslot) :=
  flat_map (fun n => if vn_master n
                     then map (pair n) (filter (fun sl => negb (match snd sl with VImporting _ => true | _ => false end) && slot_in s sl) (vn_slots n))
                     else []) ns.

Definition designated_of (ph : phases) (e : vnode * vslot) : N :=
  match snd (snd e) with
  | VMigrating m => match mp_dst (ph (fst (snd e)) m) with
                    | DPreCheck => vm_src_node m
                    | _ => vm_dst_node m
                    end
  | _ => vn_addr (fst e)
  end.

Definition designated (ph : phases) (ns : list vnode) (s : N) : option N :=
  match owner_entries ns s with
  | [e] => Some (designated_of ph e)
  | _ => None
  end.

Definition migrating_slot (ns : list vnode) (s : N) : bool :=
  existsb (fun e => match snd (snd e) with VMigrating _ => true | _ => false end) (owner_entries ns s).

(* nodes allowed to see the command: the stable owner, or source and destination of the slot's migration *)
Definition allowed_nodes (ns : list vnode) (s : N) : list N :=
  flat_map (fun e => match snd (snd e) with
                     | VMigrating m => [vn_addr (fst e); vm_src_node m; vm_dst_node m]
                     | _ => [vn_addr (fst e)]
                     end) (owner_entries ns s).

(* ---------- consistent phases ---------- *)
(* the pairs the handshake of scan_task.rs passes through, in order *)
Definition phase_index (p : mphase) : option nat :=
  match mp_src p, mp_dst p with
  | SPreCheck, DPreCheck => Some 0%nat
  | SPreBlocking, DPreCheck => Some 1%nat
  | SPreSwitch, DPreCheck => Some 2%nat
  | SPreSwitch, DPreSwitch => Some 3%nat
  | SScanning, DPreSwitch => Some 4%nat
  | SFinalSwitch, DPreSwitch => Some 5%nat
  | SFinalSwitch, DSwitchCommitted => Some 6%nat
  | SSwitchCommitted, DSwitchCommitted => Some 7%nat
  | _, _ => None
  end.

(* the BlockingHandle lives from start_blocking (in PreBlocking) until the PRESWITCH reply arrived (Scanning); it can only be
   gone earlier when max_blocking_time expired, which the pair (PreSwitch, PreSwitch) excludes here *)
Definition phase_ok (p : mphase) : bool :=
  match phase_index p with
  | None => false
  | Some i =>
    (if mp_blk p then (Nat.leb 1 i && Nat.leb i 4) else true)
    && (if Nat.eqb i 3 then mp_blk p else true)
  end.

Definition migrations (ns : list vnode) : list (rangelist * vmeta) :=
  flat_map (fun n => flat_map (fun sl => match snd sl with VMigrating m => [(fst sl, m)] | _ => [] end) (vn_slots n)) ns.

Definition phases_ok (ph : phases) (ns : list vnode) : bool :=
  forallb (fun x => phase_ok (ph (fst x) (snd x))) (migrations ns).

(* ---------- well-formedness of a cluster node list that the routing tables rely on ---------- *)
Fixpoint nodupb (l : list N) : bool :=
  match l with
  | [] => true
  | x :: l' => negb (existsb (N.eqb x) l') && nodupb l'
  end.

(* ranges well-formed, below SLOT_NUM, strictly ascending and not touching (what RangeList::new / compact produce) *)
Fixpoint rl_okb (rl : rangelist) : bool :=
  match rl with
  | [] => true
  | r :: rest =>
    N.leb (fst r) (snd r) && N.ltb (snd r) SLOT_NUM
    && match rest with
       | [] => true
       | r' :: _ => N.ltb (snd r) (fst r')
       end
    && rl_okb rest
  end.

Definition tagged_ranges (ns : list vnode) : list rangelist :=
  flat_map (fun n => flat_map (fun sl => match snd sl with VNone => [] | _ => [fst sl] end) (vn_slots n)) ns.

Definition proxies_of (ns : list vnode) : list N := map vn_proxy ns.

Definition view_wfb (ns : list vnode) : bool :=
  (* W1 *) forallb rl_okb (tagged_ranges ns)
  (* W2 *) && nodupb (map vn_addr (filter vn_master ns))
  (* W3 *) && forallb (fun a => nodupb (map fst (vp_peers (proxy_view_of ns a)))) (proxies_of ns)
  (* W4 *) && forallb (fun x => negb (N.eqb (vm_src_proxy (snd x)) (vm_dst_proxy (snd x)))) (migrations ns).

(* ---------- boolean form of the property for one (state, phases, slot, start), used as a model-side monitor ---------- *)
Definition last_step (tr : list step) : option step := match rev tr with [] => None | x :: _ => Some x end.

Definition trace_ok (ph : phases) (ns : list vnode) (s : N) (tr : list step) : bool :=
  Nat.leb (redirections tr) (if migrating_slot ns s then 2 else 1)
  && forallb (fun st => match snd st with
                        | Exec n | Queued n => existsb (N.eqb n) (allowed_nodes ns s)
                        | Moved _ => true
                        | Err _ => false
                        end) tr
  && match last_step tr with
     | Some (_, Exec n) => match designated ph ns s with Some d => N.eqb n d | None => false end
     | Some (p, Queued n) => node_blocked ph (install_ns ns p) n
     | _ => false
     end.

Definition chase_okb (ph : phases) (ns : list vnode) (s : N) (start : N) : bool :=
  match chase_all 4 ph (install_ns ns) s start with
  | [] => false
  | trs => forallb (trace_ok ph ns s) trs
  end.
