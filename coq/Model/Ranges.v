(* Model of common/cluster.rs: Range, RangeList::{new, from_single_range, merge_another, compact, get_slots_num}.
   A range is (start, end), inclusive. Executable definitions only. *)
From UM Require Import Base.BytesDef.

Definition range := (N * N)%type.
Definition rangelist := list range.

Definition SLOT_NUM : N := 16384.

Definition norm_range (r : range) : range :=
  if N.ltb (snd r) (fst r) then (snd r, fst r) else r.

(* stable insertion sort by start: Vec::sort_by_key is stable *)
Fixpoint insert_range (r : range) (l : rangelist) : rangelist :=
  match l with
  | [] => [r]
  | x :: l' => if N.ltb (fst r) (fst x) then r :: l else x :: insert_range r l'
  end.

Fixpoint sort_ranges (l : rangelist) : rangelist :=
  match l with
  | [] => []
  | r :: l' => insert_range r (sort_ranges l')
  end.

(* the a/b loop of compact over a sorted list: cur is self.0[a] *)
Fixpoint merge_sorted (cur : range) (rest : rangelist) : rangelist :=
  match rest with
  | [] => [cur]
  | e :: rest' =>
    if N.leb (fst e) (snd cur + 1)
    then merge_sorted (fst cur, N.max (snd cur) (snd e)) rest'
    else cur :: merge_sorted e rest'
  end.

(* note: insertion from the right keeps equal keys in original order only if we insert in reverse;
   sort_ranges processes the tail first and inserts the head before equal keys?  insert_range puts r after
   elements with start <= r.start, so to be stable we fold from the left instead. *)
Fixpoint sort_ranges_stable_acc (acc : rangelist) (l : rangelist) : rangelist :=
  match l with
  | [] => acc
  | r :: l' => sort_ranges_stable_acc (insert_range r acc) l'
  end.

Definition compact (l : rangelist) : rangelist :=
  match sort_ranges_stable_acc [] (map norm_range l) with
  | [] => []
  | c :: r => merge_sorted c r
  end.

Definition rl_new (l : rangelist) : rangelist := compact l.
Definition rl_from_single (r : range) : rangelist := [norm_range r].
Definition rl_merge_another (a b : rangelist) : rangelist := compact (a ++ b).

(* end - start + 1 on usize: None = subtraction underflow (a panic in the dev profile) *)
Definition range_len (r : range) : option N :=
  if N.ltb (snd r) (fst r) then None else Some (snd r - fst r + 1).

Fixpoint slots_num (l : rangelist) : option N :=
  match l with
  | [] => Some 0
  | r :: l' =>
    match range_len r, slots_num l' with
    | Some a, Some b => Some (a + b)
    | _, _ => None
    end
  end.

Definition in_range (s : N) (r : range) : bool := N.leb (fst r) s && N.leb s (snd r).
Definition in_rangelist (s : N) (l : rangelist) : bool := existsb (in_range s) l.

Definition range_eqb (a b : range) : bool := N.eqb (fst a) (fst b) && N.eqb (snd a) (snd b).
Definition rangelist_eqb (a b : rangelist) : bool := list_eqb range_eqb a b.
