(* Model of the expiry handling of the three migration transfer paths (property C19).
   Mirrors: migration/scan_migration.rs  pttl_to_restore_expire_time, pttl_need_to_be_no_expire,
            ScanMigrationTask::produce_entries (per key), forward_entries (per entry)   [scan + push paths]
            proxy/migration_backend.rs  get_data_entry, gen_restore_resp                 [pull path]
   Executable definitions only. *)
From UM Require Import Base.BytesDef Base.Dec Base.RespT.

Definition PTTL_NO_EXPIRE : bytes := [45; 49].       (* "-1" *)
Definition PTTL_KEY_NOT_FOUND : bytes := [45; 50].   (* "-2" *)
Definition RESTORE_NO_EXPIRE : bytes := [48].        (* "0"  *)
Definition RESTORE_MIN_EXPIRE : bytes := [49].       (* "1"  *)

Definition pttl_need_to_be_no_expire (buf : bytes) : bool :=
  if bytes_eqb buf PTTL_NO_EXPIRE then true
  else match btoi_i64 buf with
       | None => true
       | Some n => Z.ltb n 0
       end.

Definition pttl_is_zero (buf : bytes) : bool :=
  match btoi_i64 buf with
  | Some n => Z.eqb n 0
  | None => false
  end.

Definition ttl_restore (pttl : bytes) : bytes :=
  if pttl_need_to_be_no_expire pttl then RESTORE_NO_EXPIRE
  else if pttl_is_zero pttl then RESTORE_MIN_EXPIRE
  else pttl.

(* outcome of reading one key's (PTTL, DUMP) replies *)
Inductive entry_result :=
| Entry (pttl raw : bytes)
| Skip
| InvalidReply.

(* produce_entries, one key: PTTL reply first, DUMP reply second *)
Definition scan_entry (pttl_reply dump_reply : resp) : entry_result :=
  match pttl_reply with
  | Integer p =>
    let pttl_opt := if bytes_eqb p PTTL_KEY_NOT_FOUND then None else Some p in
    match dump_reply, pttl_opt with
    | Bulk raw, Some p' => Entry p' raw
    | BulkNil, _ => Skip
    | _, None => Skip
    | _, _ => InvalidReply
    end
  | _ => InvalidReply
  end.

(* get_data_entry: DUMP reply first, PTTL reply second *)
Definition pull_entry (dump_reply pttl_reply : resp) : entry_result :=
  let dump_result : option (option bytes) :=
    match dump_reply with
    | Bulk raw => Some (Some raw)
    | BulkNil => Some None
    | _ => None
    end in
  let pttl_result : option (option bytes) :=
    match pttl_reply with
    | Integer p => if bytes_eqb p PTTL_KEY_NOT_FOUND then Some None else Some (Some p)
    | _ => None
    end in
  match dump_result, pttl_result with
  | Some (Some raw), Some (Some p) => Entry p raw
  | Some None, _ => Skip
  | _, Some None => Skip
  | None, _ => InvalidReply
  | _, None => InvalidReply
  end.

Definition RESTORE : bytes := [82; 69; 83; 84; 79; 82; 69].

(* the RESTORE command each path sends for an entry: [RESTORE, key, ttl, raw] *)
Definition restore_cmd (key : bytes) (e : entry_result) : option (list bytes) :=
  match e with
  | Entry p raw => Some [RESTORE; key; ttl_restore p; raw]
  | _ => None
  end.

(* produce_entries + forward_entries over a whole batch (keys of one SCAN reply, or queued UMSYNC keys): the replies are consumed
   pairwise per key, in order; the first invalid reply fails the whole batch (nothing is forwarded); otherwise one RESTORE per
   key that has an entry, in key order *)
Definition is_invalid (e : entry_result) : bool := match e with InvalidReply => true | _ => false end.

Definition batch_cmds (l : list (bytes * resp * resp)) : option (list (list bytes)) :=
  let es := map (fun x => (fst (fst x), scan_entry (snd (fst x)) (snd x))) l in
  if existsb (fun ke => is_invalid (snd ke)) es then None
  else Some (flat_map (fun ke => match restore_cmd (fst ke) (snd ke) with Some c => [c] | None => [] end) es).
