(* Model of the control-plane wire encodings (property C17).  Executable definitions only.

   Mirrors (tokens are the `String`s of the argument vectors; every token is a byte string):
     common/utils.rs         has_flags, bytes_ascii_case_insensitive_eq
     common/cluster.rs       RangeList::{parse, parse_slot_range, to_strings, new, compact},
                             MigrationMeta::{into_strings, from_strings}, SlotRange::{into_strings, from_strings},
                             ClusterName::try_from, MigrationTaskMeta::{into_strings, from_strings}
     common/config.rs        ClusterConfig::{set_field, to_str_map}, MigrationConfig::set_field, CompressionStrategy::{from_str,to_str}
     common/proto.rs         ClusterMapFlags::{to_arg, from_arg}, NodeMap::{to_args, parse, parse_node},
                             ClusterConfigData::{parse, to_args}, ProxyClusterMeta::{parse, to_args, to_compressed_args}
     replication/replicator.rs  encode_repl_meta, parse_repl_meta
     migration/task.rs       SwitchArg::{into_strings, from_strings}
     proxy/executor.rs       handle_umctl_info_migration           (task.into_strings().join(" "))
     coordinator/migration.rs   parse_migration_task_meta          (split(' ') + MigrationTaskMeta::from_strings)
     coordinator/sync.rs     filter_proxy_masters, generate_repl_meta_cmd_args, generate_proxy_meta_cmd_args   (coord_repl, coord_pcm)

   Conventions.
   * `usize` is 64 bit.  `str::parse::<u64>/<usize>`: optional leading '+', then at least one ASCII digit, digits only,
     overflow is an error (`parse_u64`).
   * `String::to_uppercase/to_lowercase` are modelled on ASCII letters only; the correspondence drives ASCII tokens.
   * Iterator parsers take the remaining tokens and return the value with the tokens left over.
   * `Option`-returning Rust functions fail with `Err ENone`; `Panic` is the arithmetic-overflow panic of
     `s.end() + 1` in RangeList::compact (overflow checks are on in the unoptimised build, the only one that compiles
     here; without them the addition wraps).  The loop of compact is given twice: on lists (`compact`, used by the
     parsers) and index by index with its two `expect`s as explicit panics (`compact_idx`); the two are proved equal.
   * HashMaps are association lists; iteration order is the list order, so a statement over all lists covers every
     hash order.  `HashMap::entry(k).or_insert_with(Vec::new).push(v)` is `nm_push`.
   * Loops that call sub-parsers use fuel; running out of fuel is the distinct error `EFuel`. *)
From UM Require Import Base.BytesDef Base.Dec.

Definition tok := bytes.

Inductive perr := ENone | EInvalidArgs | EInvalidVersion | EInvalidClusterName | EInvalidEpoch | EInvalidRole | EFuel.
Inductive res (A : Type) := Ok (a : A) | Err (e : perr) | Panic.
Arguments Ok {A} a.
Arguments Err {A} e.
Arguments Panic {A}.

Definition usize_max : N := u64_max.

(* ---------- keywords ---------- *)
Definition kw_PEER : tok := [80; 69; 69; 82].
Definition kw_CONFIG : tok := [67; 79; 78; 70; 73; 71].
Definition kw_MIGRATING : tok := [77; 73; 71; 82; 65; 84; 73; 78; 71].
Definition kw_IMPORTING : tok := [73; 77; 80; 79; 82; 84; 73; 78; 71].
Definition kw_FORCE : tok := [70; 79; 82; 67; 69].
Definition kw_COMPRESS : tok := [67; 79; 77; 80; 82; 69; 83; 83].
Definition kw_NOFLAG : tok := [78; 79; 70; 76; 65; 71].
Definition kw_FORCE_COMPRESS : tok := [70; 79; 82; 67; 69; 44; 67; 79; 77; 80; 82; 69; 83; 83].
Definition kw_v2 : tok := [118; 50].
Definition kw_master : tok := [109; 97; 115; 116; 101; 114].
Definition kw_replica : tok := [114; 101; 112; 108; 105; 99; 97].
Definition kw_MASTER : tok := [77; 65; 83; 84; 69; 82].
Definition kw_REPLICA : tok := [82; 69; 80; 76; 73; 67; 65].
Definition kw_compression_strategy : tok := [99; 111; 109; 112; 114; 101; 115; 115; 105; 111; 110; 95; 115; 116; 114; 97; 116; 101; 103; 121].
Definition kw_migration_ : tok := [109; 105; 103; 114; 97; 116; 105; 111; 110; 95].
Definition kw_max_migration_time : tok := [109; 97; 120; 95; 109; 105; 103; 114; 97; 116; 105; 111; 110; 95; 116; 105; 109; 101].
Definition kw_max_blocking_time : tok := [109; 97; 120; 95; 98; 108; 111; 99; 107; 105; 110; 103; 95; 116; 105; 109; 101].
Definition kw_scan_interval : tok := [115; 99; 97; 110; 95; 105; 110; 116; 101; 114; 118; 97; 108].
Definition kw_scan_count : tok := [115; 99; 97; 110; 95; 99; 111; 117; 110; 116].
Definition kw_disabled : tok := [100; 105; 115; 97; 98; 108; 101; 100].
Definition kw_set_get_only : tok := [115; 101; 116; 95; 103; 101; 116; 95; 111; 110; 108; 121].
Definition kw_allow_all : tok := [97; 108; 108; 111; 119; 95; 97; 108; 108].

(* ---------- characters, case ---------- *)
Definition upper_byte (b : N) : N := if (97 <=? b) && (b <=? 122) then b - 32 else b.
Definition lower_byte (b : N) : N := if (65 <=? b) && (b <=? 90) then b + 32 else b.
Definition to_upper (l : bytes) : bytes := map upper_byte l.
Definition to_lower (l : bytes) : bytes := map lower_byte l.

(* common/utils.rs bytes_ascii_case_insensitive_eq *)
Fixpoint ci_eq (a b : bytes) : bool :=
  match a, b with
  | [], [] => true
  | x :: a', y :: b' =>
    ((x =? y) || ((97 <=? x) && (x <=? 122) && (x =? y + 32)) || ((65 <=? x) && (x <=? 90) && (x + 32 =? y)))
    && ci_eq a' b'
  | _, _ => false
  end.

(* str::split(c): always at least one piece *)
Fixpoint split_on (d : N) (l : bytes) : list bytes :=
  match l with
  | [] => [[]]
  | c :: l' =>
    if c =? d then [] :: split_on d l'
    else match split_on d l' with
         | [] => [[c]]
         | p :: ps => (c :: p) :: ps
         end
  end.

(* [String]::join(" ") *)
Fixpoint join_sp (l : list bytes) : bytes :=
  match l with
  | [] => []
  | [t] => t
  | t :: l' => t ++ c_SP :: join_sp l'
  end.

(* common/utils.rs has_flags(s, ',', flag) *)
Definition has_flag (s flag : bytes) : bool := existsb (fun p => ci_eq p flag) (split_on 44 s).

(* str::parse::<u64>() / ::<usize>() *)
Definition parse_u64 (l : bytes) : option N :=
  match l with
  | [] => None
  | c :: r => if c =? 43 then btou u64_max r else btou u64_max l
  end.

(* ---------- ClusterMapFlags ---------- *)
Record flags := MkFlags { f_force : bool; f_compress : bool }.

Definition flags_to_arg (f : flags) : tok :=
  match f_force f, f_compress f with
  | true, true => kw_FORCE_COMPRESS
  | true, false => kw_FORCE
  | false, true => kw_COMPRESS
  | false, false => kw_NOFLAG
  end.

Definition flags_from_arg (s : tok) : flags := MkFlags (has_flag s kw_FORCE) (has_flag s kw_COMPRESS).

(* ---------- Range, RangeList ---------- *)
Definition range := (N * N)%type.

Definition norm_range (r : range) : range := if snd r <? fst r then (snd r, fst r) else r.

(* sort_by_key(start) is a stable sort: insertion keeps an earlier element before later ones with the same key *)
Fixpoint insert_range (r : range) (l : list range) : list range :=
  match l with
  | [] => [r]
  | x :: l' => if fst r <=? fst x then r :: l else x :: insert_range r l'
  end.

Fixpoint sort_ranges (l : list range) : list range :=
  match l with
  | [] => []
  | r :: l' => insert_range r (sort_ranges l')
  end.

(* the while loop of compact: `cur` is self.0[a], `rest` is self.0[b..] *)
Fixpoint merge_ranges (cur : range) (rest : list range) : option (list range) :=
  match rest with
  | [] => Some [cur]
  | e :: rest' =>
    if usize_max <=? snd cur then None
    else if fst e <=? snd cur + 1 then merge_ranges (fst cur, N.max (snd cur) (snd e)) rest'
    else match merge_ranges e rest' with
         | Some l => Some (cur :: l)
         | None => None
         end
  end.

(* RangeList::compact (None = overflow panic) *)
Definition compact (l : list range) : option (list range) :=
  match sort_ranges (map norm_range l) with
  | [] => Some []
  | c :: r => merge_ranges c r
  end.

(* The same loop index by index, as the code has it: `a` and `b` index the vector, the two `expect("RangeList::compact")`
   are explicit panics.  Proofs/WireProofsCompact.v shows compact_idx = compact (so the expects are unreachable and
   the list version above may be used everywhere). *)
Inductive cres := CDone (l : list range) | CPanicOverflow | CPanicExpect | CFuel.

Fixpoint set_nth {A} (i : nat) (x : A) (l : list A) : list A :=
  match l, i with
  | [], _ => []
  | _ :: t, O => x :: t
  | h :: t, S j => h :: set_nth j x t
  end.

Fixpoint compact_loop (fuel : nat) (v : list range) (a b : nat) : cres :=
  match fuel with
  | O => CFuel
  | S f =>
    match nth_error v b with
    | None => CDone (firstn (a + 1) v)                        (* self.0.truncate(a + 1) *)
    | Some e =>
      match nth_error v a with
      | None => CPanicExpect                                  (* self.0.get_mut(a).expect(..) *)
      | Some s =>
        if usize_max <=? snd s then CPanicOverflow            (* s.end() + 1 *)
        else if fst e <=? snd s + 1 then compact_loop f (set_nth a (fst s, N.max (snd s) (snd e)) v) a (S b)
        else match nth_error v (a + 1) with
             | None => CPanicExpect                           (* self.0.get_mut(a + 1).expect(..) *)
             | Some _ => compact_loop f (set_nth (a + 1) e v) (S a) (S b)
             end
      end
    end
  end.

Definition compact_idx (l : list range) : cres :=
  let v := sort_ranges (map norm_range l) in compact_loop (S (length v)) v 0 1.

Definition range_tok (r : range) : tok := to_dec (fst r) ++ c_minus :: to_dec (snd r).

(* RangeList::to_strings *)
Definition rl_to_strings (rl : list range) : list tok :=
  to_dec (N.of_nat (length rl)) :: map range_tok rl.

(* RangeList::parse_slot_range: pieces after the second are ignored *)
Definition parse_range_tok (t : tok) : option range :=
  match split_on c_minus t with
  | a :: b :: _ =>
    match parse_u64 a with
    | None => None
    | Some s => match parse_u64 b with
                | None => None
                | Some e => Some (s, e)
                end
    end
  | _ => None
  end.

Fixpoint parse_ranges (toks : list tok) (n : N) : option (list range * list tok) :=
  if n =? 0 then Some ([], toks)
  else match toks with
       | [] => None
       | t :: r =>
         match parse_range_tok t with
         | None => None
         | Some rg =>
           match parse_ranges r (n - 1) with
           | None => None
           | Some (rs, r') => Some (rg :: rs, r')
           end
         end
       end.

(* RangeList::parse *)
Definition parse_range_list (toks : list tok) : res (list range * list tok) :=
  match toks with
  | [] => Err ENone
  | t :: r =>
    match parse_u64 t with
    | None => Err ENone
    | Some n =>
      match parse_ranges r n with
      | None => Err ENone
      | Some (rs, r') =>
        match compact rs with
        | None => Panic
        | Some c => Ok (c, r')
        end
      end
    end
  end.

(* ---------- MigrationMeta, SlotRangeTag, SlotRange ---------- *)
Record mig_meta := MkMM { mm_epoch : N; mm_src_proxy : tok; mm_src_node : tok; mm_dst_proxy : tok; mm_dst_node : tok }.

Definition mm_to_strings (m : mig_meta) : list tok :=
  [to_dec (mm_epoch m); mm_src_proxy m; mm_src_node m; mm_dst_proxy m; mm_dst_node m].

Definition parse_mig_meta (toks : list tok) : res (mig_meta * list tok) :=
  match toks with
  | e :: a :: b :: c :: d :: r =>
    match parse_u64 e with
    | Some ep => Ok (MkMM ep a b c d, r)
    | None => Err ENone
    end
  | _ => Err ENone
  end.

Inductive tag := TNone | TMigrating (m : mig_meta) | TImporting (m : mig_meta).
Record slot_range := MkSR { sr_ranges : list range; sr_tag : tag }.

Definition sr_to_strings (sr : slot_range) : list tok :=
  match sr_tag sr with
  | TMigrating m => kw_MIGRATING :: rl_to_strings (sr_ranges sr) ++ mm_to_strings m
  | TImporting m => kw_IMPORTING :: rl_to_strings (sr_ranges sr) ++ mm_to_strings m
  | TNone => rl_to_strings (sr_ranges sr)
  end.

Definition parse_tagged (mk : mig_meta -> tag) (toks : list tok) : res (slot_range * list tok) :=
  match parse_range_list toks with
  | Ok (rl, r1) =>
    match parse_mig_meta r1 with
    | Ok (m, r2) => Ok (MkSR rl (mk m), r2)
    | Err e => Err e
    | Panic => Panic
    end
  | Err e => Err e
  | Panic => Panic
  end.

(* SlotRange::from_strings *)
Definition parse_sr (toks : list tok) : res (slot_range * list tok) :=
  match toks with
  | [] => Err ENone
  | t :: r =>
    if bytes_eqb (to_upper t) kw_MIGRATING then parse_tagged TMigrating r
    else if bytes_eqb (to_upper t) kw_IMPORTING then parse_tagged TImporting r
    else match parse_range_list toks with
         | Ok (rl, r1) => Ok (MkSR rl TNone, r1)
         | Err e => Err e
         | Panic => Panic
         end
  end.

(* ---------- ClusterName, MigrationTaskMeta, SwitchArg ---------- *)
Definition name_char (c : N) : bool :=
  ((48 <=? c) && (c <=? 57)) || ((65 <=? c) && (c <=? 90)) || ((97 <=? c) && (c <=? 122))
  || (c =? 64) || (c =? 45) || (c =? 95).

(* ClusterName::try_from succeeds *)
Definition valid_cluster_name (n : tok) : bool := forallb name_char n && (N.of_nat (length n) <=? 31).

Record task_meta := MkTM { tm_cluster : tok; tm_sr : slot_range }.

Definition tm_to_strings (t : task_meta) : list tok := tm_cluster t :: sr_to_strings (tm_sr t).

Definition parse_task (toks : list tok) : res (task_meta * list tok) :=
  match toks with
  | [] => Err ENone
  | n :: r =>
    if valid_cluster_name n then
      match parse_sr r with
      | Ok (sr, r1) => Ok (MkTM n sr, r1)
      | Err e => Err e
      | Panic => Panic
      end
    else Err ENone
  end.

(* UMCTL INFOMGR element and its reader; left-over tokens are ignored by the reader *)
Definition task_to_string (t : task_meta) : bytes := join_sp (tm_to_strings t).

Definition task_of_string (s : bytes) : res task_meta :=
  match parse_task (split_on c_SP s) with
  | Ok (t, _) => Ok t
  | Err e => Err e
  | Panic => Panic
  end.

Record switch_arg := MkSA { sa_version : tok; sa_meta : task_meta }.

Definition sa_to_strings (a : switch_arg) : list tok := sa_version a :: tm_to_strings (sa_meta a).

Definition parse_switch (toks : list tok) : res (switch_arg * list tok) :=
  match toks with
  | [] => Err ENone
  | v :: r =>
    match parse_task r with
    | Ok (t, r1) => Ok (MkSA v t, r1)
    | Err e => Err e
    | Panic => Panic
    end
  end.

(* ---------- ClusterConfig ---------- *)
Inductive strategy := Disabled | SetGetOnly | AllowAll.
Record config := MkCfg { c_strategy : strategy; c_max_migration_time : N; c_max_blocking_time : N;
                         c_scan_interval : N; c_scan_count : N }.

Definition default_config : config := MkCfg Disabled 10800 10000 500 16.

Definition strategy_to_str (s : strategy) : tok :=
  match s with Disabled => kw_disabled | SetGetOnly => kw_set_get_only | AllowAll => kw_allow_all end.

Definition strategy_from_str (v : tok) : option strategy :=
  let l := to_lower v in
  if bytes_eqb l kw_disabled then Some Disabled
  else if bytes_eqb l kw_set_get_only then Some SetGetOnly
  else if bytes_eqb l kw_allow_all then Some AllowAll
  else None.

Fixpoint starts_with (p l : bytes) : bool :=
  match p, l with
  | [], _ => true
  | x :: p', y :: l' => (x =? y) && starts_with p' l'
  | _, _ => false
  end.

(* MigrationConfig::set_field *)
Definition mig_set_field (c : config) (field value : tok) : option config :=
  let f := to_lower field in
  if bytes_eqb f kw_max_migration_time then
    match parse_u64 value with
    | Some v => Some (MkCfg (c_strategy c) v (c_max_blocking_time c) (c_scan_interval c) (c_scan_count c))
    | None => None
    end
  else if bytes_eqb f kw_max_blocking_time then
    match parse_u64 value with
    | Some v => Some (MkCfg (c_strategy c) (c_max_migration_time c) v (c_scan_interval c) (c_scan_count c))
    | None => None
    end
  else if bytes_eqb f kw_scan_interval then
    match parse_u64 value with
    | Some v => Some (MkCfg (c_strategy c) (c_max_migration_time c) (c_max_blocking_time c) v (c_scan_count c))
    | None => None
    end
  else if bytes_eqb f kw_scan_count then
    match parse_u64 value with
    | Some v => if v =? 0 then None
                else Some (MkCfg (c_strategy c) (c_max_migration_time c) (c_max_blocking_time c) (c_scan_interval c) v)
    | None => None
    end
  else None.

(* ClusterConfig::set_field; split_once('_') of a string starting with "migration_" leaves the part after that prefix *)
Definition set_field (c : config) (field value : tok) : option config :=
  let f := to_lower field in
  if bytes_eqb f kw_compression_strategy then
    match strategy_from_str value with
    | Some s => Some (MkCfg s (c_max_migration_time c) (c_max_blocking_time c) (c_scan_interval c) (c_scan_count c))
    | None => None
    end
  else if starts_with kw_migration_ f then mig_set_field c (skipn 10 f) value
  else None.

Inductive cfield := FStrategy | FMaxMigration | FMaxBlocking | FScanInterval | FScanCount.

Definition all_cfields : list cfield := [FStrategy; FMaxMigration; FMaxBlocking; FScanInterval; FScanCount].

Definition field_name (f : cfield) : tok :=
  match f with
  | FStrategy => kw_compression_strategy
  | FMaxMigration => kw_migration_ ++ kw_max_migration_time
  | FMaxBlocking => kw_migration_ ++ kw_max_blocking_time
  | FScanInterval => kw_migration_ ++ kw_scan_interval
  | FScanCount => kw_migration_ ++ kw_scan_count
  end.

Definition field_value (c : config) (f : cfield) : tok :=
  match f with
  | FStrategy => strategy_to_str (c_strategy c)
  | FMaxMigration => to_dec (c_max_migration_time c)
  | FMaxBlocking => to_dec (c_max_blocking_time c)
  | FScanInterval => to_dec (c_scan_interval c)
  | FScanCount => to_dec (c_scan_count c)
  end.

(* ClusterConfigData::to_args; `ord` is the iteration order of the HashMap built by to_str_map *)
Definition config_to_args (ord : list cfield) (c : config) : list tok :=
  flat_map (fun f => [field_name f; field_value c f]) ord.

Definition is_section_kw (t : tok) : bool :=
  bytes_eqb (to_upper t) kw_PEER || bytes_eqb (to_upper t) kw_CONFIG.

(* ClusterConfigData::parse; returns the tokens left in the iterator also on failure, because
   ProxyClusterMeta::parse may carry on after a failure *)
Fixpoint parse_config (toks : list tok) (c : config) : option config * list tok :=
  match toks with
  | [] => (Some c, [])
  | f :: r =>
    if is_section_kw f then (Some c, toks)
    else match r with
         | [] => (None, [])
         | v :: r' =>
           match set_field c f v with
           | Some c' => parse_config r' c'
           | None => (None, r')
           end
         end
  end.

(* ---------- NodeMap ---------- *)
Definition nodemap := list (tok * list slot_range).

Fixpoint nm_push (a : tok) (sr : slot_range) (m : nodemap) : nodemap :=
  match m with
  | [] => [(a, [sr])]
  | (k, v) :: m' => if bytes_eqb k a then (k, v ++ [sr]) :: m' else (k, v) :: nm_push a sr m'
  end.

Definition node_args (kv : tok * list slot_range) : list tok :=
  flat_map (fun sr => fst kv :: sr_to_strings sr) (snd kv).

(* NodeMap::to_args *)
Definition nm_to_args (m : nodemap) : list tok := flat_map node_args m.

(* NodeMap::parse; every failure of parse_node is mapped to InvalidArgs by try_parse! *)
Fixpoint parse_nodes (fuel : nat) (toks : list tok) (acc : nodemap) : res (nodemap * list tok) :=
  match fuel with
  | O => Err EFuel
  | S f =>
    match toks with
    | [] => Ok (acc, [])
    | a :: r =>
      if is_section_kw a then Ok (acc, toks)
      else match parse_sr r with
           | Ok (sr, r') => parse_nodes f r' (nm_push a sr acc)
           | Err _ => Err EInvalidArgs
           | Panic => Panic
           end
    end
  end.

Definition parse_nodemap (toks : list tok) : res (nodemap * list tok) :=
  parse_nodes (S (length toks)) toks [].

(* ---------- ProxyClusterMeta ---------- *)
Record pcm := MkPcm { p_epoch : N; p_flags : flags; p_name : tok; p_local : nodemap; p_peer : nodemap; p_config : config }.

(* ProxyClusterMetaData: what the compressed form carries *)
Definition pcm_data := (tok * nodemap * nodemap * config)%type.
Definition pcm_data_of (m : pcm) : pcm_data := (p_name m, p_local m, p_peer m, p_config m).

Definition is_nil {A} (l : list A) : bool := match l with [] => true | _ => false end.

(* ProxyClusterMeta::to_args *)
Definition pcm_to_args (ord : list cfield) (m : pcm) : list tok :=
  let peer := nm_to_args (p_peer m) in
  let cfg := config_to_args ord (p_config m) in
  [kw_v2; to_dec (p_epoch m); flags_to_arg (p_flags m); p_name m]
  ++ nm_to_args (p_local m)
  ++ (if is_nil peer then [] else kw_PEER :: peer)
  ++ (if is_nil cfg then [] else kw_CONFIG :: cfg).

(* ProxyClusterMeta::to_compressed_args; `pack` stands for serde_json + gzip + base64 *)
Definition pcm_to_compressed_args (pack : pcm_data -> tok) (m : pcm) : list tok :=
  [kw_v2; to_dec (p_epoch m); flags_to_arg (p_flags m); pack (pcm_data_of m)].

(* the `while let Some(token) = it.next()` loop of ProxyClusterMeta::parse; the boolean is extended_meta_result.is_ok() *)
Fixpoint pcm_loop (fuel : nat) (toks : list tok) (local peer : nodemap) (cfg : config) (ext : bool)
  : res (nodemap * config * bool) :=
  match fuel with
  | O => Err EFuel
  | S f =>
    match toks with
    | [] => Ok (peer, cfg, ext)
    | t :: r =>
      if bytes_eqb (to_upper t) kw_PEER then
        match parse_nodemap r with
        | Ok (nm, r') => pcm_loop f r' local nm cfg ext
        | Err e => Err e
        | Panic => Panic
        end
      else if bytes_eqb (to_upper t) kw_CONFIG then
        match parse_config r default_config with
        | (Some c, r') => pcm_loop f r' local peer c ext
        | (None, r') =>
          if is_nil local || is_nil peer then Err EInvalidArgs
          else pcm_loop f r' local peer cfg false
        end
      else Err EInvalidArgs
    end
  end.

(* ProxyClusterMeta::parse; `unpack` stands for base64 + gunzip + serde_json *)
Definition parse_pcm (unpack : tok -> option pcm_data) (toks : list tok) : res (pcm * bool) :=
  match toks with
  | [] => Err EInvalidArgs
  | version :: r0 =>
    if negb (bytes_eqb version kw_v2) then Err EInvalidVersion
    else match r0 with
    | [] => Err EInvalidArgs
    | epoch_str :: r1 =>
      match parse_u64 epoch_str with
      | None => Err EInvalidArgs
      | Some epoch =>
        match r1 with
        | [] => Err EInvalidArgs
        | flags_str :: r2 =>
          let fl := flags_from_arg flags_str in
          if f_compress fl then
            match r2 with
            | [] => Err EInvalidArgs
            | data :: _ =>
              match unpack data with
              | None => Err EInvalidArgs
              | Some (name, local, peer, cfg) => Ok (MkPcm epoch fl name local peer cfg, true)
              end
            end
          else
            match r2 with
            | [] => Err EInvalidArgs
            | name :: r3 =>
              if negb (valid_cluster_name name) then Err EInvalidClusterName
              else match parse_nodemap r3 with
                   | Err e => Err e
                   | Panic => Panic
                   | Ok (local, r4) =>
                     match pcm_loop (S (length r4)) r4 local [] default_config true with
                     | Err e => Err e
                     | Panic => Panic
                     | Ok (peer, cfg, ext) => Ok (MkPcm epoch fl name local peer cfg, ext)
                     end
                   end
            end
        end
      end
    end
  end.

(* ---------- ReplicatorMeta ---------- *)
Record repl_rec := MkRec { rr_cluster : tok; rr_addr : tok; rr_peers : list (tok * tok) }.
Record repl_meta := MkRepl { rm_epoch : N; rm_flags : flags; rm_masters : list repl_rec; rm_replicas : list repl_rec }.

Definition rec_args (role : tok) (r : repl_rec) : list tok :=
  [role; rr_cluster r; rr_addr r; to_dec (N.of_nat (length (rr_peers r)))]
  ++ flat_map (fun p => [fst p; snd p]) (rr_peers r).

(* encode_repl_meta *)
Definition encode_repl (m : repl_meta) : list tok :=
  [to_dec (rm_epoch m); flags_to_arg (rm_flags m)]
  ++ flat_map (rec_args kw_master) (rm_masters m)
  ++ flat_map (rec_args kw_replica) (rm_replicas m).

Fixpoint parse_peers (toks : list tok) (n : N) : option (list (tok * tok) * list tok) :=
  if n =? 0 then Some ([], toks)
  else match toks with
       | a :: b :: r =>
         match parse_peers r (n - 1) with
         | None => None
         | Some (ps, r') => Some ((a, b) :: ps, r')
         end
       | _ => None
       end.

Fixpoint repl_loop (fuel : nat) (toks : list tok) (masters replicas : list repl_rec)
  : res (list repl_rec * list repl_rec) :=
  match fuel with
  | O => Err EFuel
  | S f =>
    match toks with
    | [] => Ok (masters, replicas)
    | role :: r1 =>
      match r1 with
      | [] => Err EInvalidClusterName
      | name :: r2 =>
        if negb (valid_cluster_name name) then Err EInvalidClusterName
        else match r2 with
        | [] => Err EInvalidArgs
        | addr :: r3 =>
          match r3 with
          | [] => Err EInvalidArgs
          | cnt :: r4 =>
            match parse_u64 cnt with
            | None => Err EInvalidArgs
            | Some n =>
              match parse_peers r4 n with
              | None => Err EInvalidArgs
              | Some (peers, r5) =>
                if bytes_eqb (to_upper role) kw_MASTER then
                  repl_loop f r5 (masters ++ [MkRec name addr peers]) replicas
                else if bytes_eqb (to_upper role) kw_REPLICA then
                  repl_loop f r5 masters (replicas ++ [MkRec name addr peers])
                else Err EInvalidRole
              end
            end
          end
        end
      end
    end
  end.

(* parse_repl_meta *)
Definition parse_repl (toks : list tok) : res repl_meta :=
  match toks with
  | [] => Err EInvalidEpoch
  | e :: r1 =>
    match parse_u64 e with
    | None => Err EInvalidEpoch
    | Some epoch =>
      match r1 with
      | [] => Err EInvalidArgs
      | fl :: r2 =>
        match repl_loop (S (length r2)) r2 [] [] with
        | Ok (ms, rs) => Ok (MkRepl epoch (flags_from_arg fl) ms rs)
        | Err e => Err e
        | Panic => Panic
        end
      end
    end
  end.

(* ---------- coordinator/sync.rs: the two messages ProxyMetaRespSender::send_meta builds for a proxy ----------
   filter_proxy_masters, generate_repl_meta_cmd_args, generate_proxy_meta_cmd_args.  A proxy without a cluster name
   reports its nodes as free masters under the empty cluster name and sends an empty SETCLUSTER under that name.
   (`HashMap::insert` keeps the last entry of a repeated address; node addresses are distinct in broker output.) *)
Record cnode := MkCNode { cn_addr : tok; cn_master : bool; cn_slots : list slot_range; cn_repl_peers : list (tok * tok) }.
Record cproxy := MkCProxy { cp_name : option tok; cp_epoch : N; cp_nodes : list cnode; cp_peers : nodemap; cp_config : config }.

Definition coord_repl (p : cproxy) : repl_meta :=
  match cp_name p with
  | None => MkRepl (cp_epoch p) (MkFlags false false) (map (fun n => MkRec [] (cn_addr n) []) (cp_nodes p)) []
  | Some name =>
    MkRepl (cp_epoch p) (MkFlags false false)
      (map (fun n => MkRec name (cn_addr n) (cn_repl_peers n)) (filter cn_master (cp_nodes p)))
      (map (fun n => MkRec name (cn_addr n) (cn_repl_peers n)) (filter (fun n => negb (cn_master n)) (cp_nodes p)))
  end.

Definition coord_pcm (compress : bool) (p : cproxy) : pcm :=
  match cp_name p with
  | None => MkPcm (cp_epoch p) (MkFlags false compress) [] [] (cp_peers p) (cp_config p)
  | Some name =>
    MkPcm (cp_epoch p) (MkFlags false compress) name
      (map (fun n => (cn_addr n, cn_slots n)) (filter cn_master (cp_nodes p))) (cp_peers p) (cp_config p)
  end.

(* ---------- normal forms, well-formedness and the known-finding class predicates ---------- *)
Definition norm_rl (rl : list range) : list range := match compact rl with Some c => c | None => rl end.
Definition norm_sr (sr : slot_range) : slot_range := MkSR (norm_rl (sr_ranges sr)) (sr_tag sr).
Definition norm_nm (m : nodemap) : nodemap := map (fun kv => (fst kv, map norm_sr (snd kv))) m.
Definition drop_empty (m : nodemap) : nodemap := filter (fun kv => negb (is_nil (snd kv))) m.

Definition normalize (m : pcm) : pcm :=
  MkPcm (p_epoch m) (p_flags m) (p_name m) (norm_nm (p_local m)) (norm_nm (p_peer m)) (p_config m).
Definition drop_empty_nodes (m : pcm) : pcm :=
  MkPcm (p_epoch m) (p_flags m) (p_name m) (drop_empty (p_local m)) (drop_empty (p_peer m)) (p_config m).

(* class: some node carries no slot range (the plain encoding cannot say so) *)
Definition nm_has_empty (m : nodemap) : bool := existsb (fun kv => is_nil (snd kv)) m.
Definition has_empty_node (m : pcm) : bool := nm_has_empty (p_local m) || nm_has_empty (p_peer m).

(* a range list as RangeList::new leaves it: start <= end, sorted, neither overlapping nor adjacent *)
Fixpoint is_compact (l : list range) : bool :=
  match l with
  | [] => true
  | r :: l' =>
    (fst r <=? snd r)
    && match l' with
       | [] => true
       | r' :: _ => snd r + 1 <? fst r'
       end
    && is_compact l'
  end.

Definition wf_rl (rl : list range) : bool :=
  forallb (fun r => (fst r <? usize_max) && (snd r <? usize_max)) rl && (N.of_nat (length rl) <=? usize_max).
Definition wf_mm (m : mig_meta) : bool := mm_epoch m <=? u64_max.
Definition wf_tag (t : tag) : bool := match t with TNone => true | TMigrating m => wf_mm m | TImporting m => wf_mm m end.
Definition wf_sr (sr : slot_range) : bool := wf_rl (sr_ranges sr) && wf_tag (sr_tag sr).

Fixpoint nodup_keys (l : list tok) : bool :=
  match l with
  | [] => true
  | k :: l' => negb (existsb (bytes_eqb k) l') && nodup_keys l'
  end.

Definition wf_nm (m : nodemap) : bool :=
  forallb (fun kv => negb (is_section_kw (fst kv)) && forallb wf_sr (snd kv)) m && nodup_keys (map fst m).

Definition wf_config (c : config) : bool :=
  (c_max_migration_time c <=? u64_max) && (c_max_blocking_time c <=? u64_max)
  && (c_scan_interval c <=? u64_max) && (c_scan_count c <=? u64_max) && negb (c_scan_count c =? 0).

Definition wf_pcm_common (m : pcm) : bool :=
  (p_epoch m <=? u64_max) && valid_cluster_name (p_name m) && wf_nm (p_local m) && wf_nm (p_peer m)
  && wf_config (p_config m).
(* plain form: the COMPRESS flag is off (the coordinator chooses the form by that flag) *)
Definition wf_pcm (m : pcm) : bool := wf_pcm_common m && negb (f_compress (p_flags m)).
Definition wf_pcm_z (m : pcm) : bool := (p_epoch m <=? u64_max) && f_compress (p_flags m).

Definition no_space (t : tok) : bool := negb (existsb (N.eqb c_SP) t).
Definition mm_no_space (m : mig_meta) : bool :=
  no_space (mm_src_proxy m) && no_space (mm_src_node m) && no_space (mm_dst_proxy m) && no_space (mm_dst_node m).
Definition tag_no_space (t : tag) : bool :=
  match t with TNone => true | TMigrating m => mm_no_space m | TImporting m => mm_no_space m end.
Definition wf_task (t : task_meta) : bool := valid_cluster_name (tm_cluster t) && wf_sr (tm_sr t).
(* needed only for the space-joined INFOMGR form *)
Definition wf_task_str (t : task_meta) : bool := wf_task t && tag_no_space (sr_tag (tm_sr t)).

Definition wf_rec (r : repl_rec) : bool :=
  valid_cluster_name (rr_cluster r) && (N.of_nat (length (rr_peers r)) <=? usize_max).
Definition wf_repl (m : repl_meta) : bool :=
  (rm_epoch m <=? u64_max) && forallb wf_rec (rm_masters m) && forallb wf_rec (rm_replicas m).

(* --- truncation classes --- *)
Definition sum_nat (l : list nat) : nat := fold_right Nat.add O l.
Fixpoint prefix_sums (base : nat) (l : list nat) : list nat :=
  base :: match l with
          | [] => []
          | x :: l' => prefix_sums (base + x) l'
          end.

Definition nm_group_lens (m : nodemap) : list nat :=
  flat_map (fun kv => map (fun sr => S (length (sr_to_strings sr))) (snd kv)) m.

(* position of the CONFIG keyword in pcm_to_args ord m *)
Definition config_pos (m : pcm) : nat :=
  let l_end := (4 + sum_nat (nm_group_lens (p_local m)))%nat in
  if is_nil (nm_to_args (p_peer m)) then l_end else (l_end + 1 + sum_nat (nm_group_lens (p_peer m)))%nat.

(* prefix lengths at which the remainder is itself a complete message: after the header, after every node group,
   after the PEER keyword, after the CONFIG keyword and after every complete field/value pair *)
Definition pcm_boundaries (ord : list cfield) (m : pcm) : list nat :=
  let l_end := (4 + sum_nat (nm_group_lens (p_local m)))%nat in
  prefix_sums 4 (nm_group_lens (p_local m))
  ++ (if is_nil (nm_to_args (p_peer m)) then [] else prefix_sums (l_end + 1) (nm_group_lens (p_peer m)))
  ++ (if is_nil ord then [] else prefix_sums (config_pos m + 1) (map (fun _ => 2%nat) ord)).

Definition at_group_boundary (ord : list cfield) (m : pcm) (k : nat) : bool :=
  existsb (Nat.eqb k) (pcm_boundaries ord m).

(* the cut falls between a config field name and its value while both node maps are non-empty: the parser reports
   the config error through extended_meta_result and installs the rest *)
Definition at_config_value_cut (ord : list cfield) (m : pcm) (k : nat) : bool :=
  negb (is_nil (nm_to_args (p_local m))) && negb (is_nil (nm_to_args (p_peer m)))
  && existsb (fun j => Nat.eqb k (config_pos m + 2 + 2 * j)) (seq 0 (length ord)).

Definition repl_boundaries (m : repl_meta) : list nat :=
  prefix_sums 2 (map (fun r => (4 + 2 * length (rr_peers r))%nat) (rm_masters m ++ rm_replicas m)).

Definition at_record_boundary (m : repl_meta) (k : nat) : bool := existsb (Nat.eqb k) (repl_boundaries m).

(* --- mutation classes --- *)
Fixpoint delete_nth {A} (i : nat) (l : list A) : list A :=
  match l with
  | [] => []
  | x :: l' => match i with O => l' | S j => x :: delete_nth j l' end
  end.

Definition tok_list_eqb (a b : list tok) : bool := list_eqb bytes_eqb a b.

Definition cfield_of_name (t : tok) : option cfield :=
  if bytes_eqb t (field_name FStrategy) then Some FStrategy
  else if bytes_eqb t (field_name FMaxMigration) then Some FMaxMigration
  else if bytes_eqb t (field_name FMaxBlocking) then Some FMaxBlocking
  else if bytes_eqb t (field_name FScanInterval) then Some FScanInterval
  else if bytes_eqb t (field_name FScanCount) then Some FScanCount
  else None.

Fixpoint pair_fields (toks : list tok) : list cfield :=
  match toks with
  | f :: _ :: r => match cfield_of_name f with Some c => c :: pair_fields r | None => pair_fields r end
  | _ => []
  end.

(* the tokens after the LAST `CONFIG` token, in any case (the printer puts the config section last; an address inside a
   migration tag may itself be the string CONFIG) *)
Fixpoint after_config (toks : list tok) : list tok :=
  match toks with
  | [] => []
  | t :: r =>
    if bytes_eqb (to_upper t) kw_CONFIG then (if existsb (fun x => bytes_eqb (to_upper x) kw_CONFIG) r then after_config r else r)
    else after_config r
  end.

(* the order in which a vector lists the config fields *)
Definition config_order (toks : list tok) : list cfield := pair_fields (after_config toks).

(* the vector is exactly what the printer emits for the metadata it parses to: no parser could tell it from a
   genuine message *)
Definition kw_like (t : tok) : bool :=
  let u := to_upper t in
  bytes_eqb u kw_PEER || bytes_eqb u kw_CONFIG || bytes_eqb u kw_MIGRATING || bytes_eqb u kw_IMPORTING.
(* equal, or the same PEER / CONFIG / MIGRATING / IMPORTING keyword in another case (the parsers ignore keyword case) *)
Definition tok_eqb_kw (a b : tok) : bool := bytes_eqb a b || (kw_like a && bytes_eqb (to_upper a) (to_upper b)).

Definition cfield_eqb (a b : cfield) : bool :=
  match a, b with
  | FStrategy, FStrategy | FMaxMigration, FMaxMigration | FMaxBlocking, FMaxBlocking
  | FScanInterval, FScanInterval | FScanCount, FScanCount => true
  | _, _ => false
  end.
(* the printer always lists all five config fields *)
Definition full_order (ord : list cfield) : bool := forallb (fun f => existsb (cfield_eqb f) ord) all_cfields.

Definition in_language (unpack : tok -> option pcm_data) (toks : list tok) : bool :=
  match parse_pcm unpack toks with
  | Ok (m, true) => full_order (config_order toks) && list_eqb tok_eqb_kw (pcm_to_args (config_order toks) m) toks
  | _ => false
  end.

Definition repl_in_language (toks : list tok) : bool :=
  match parse_repl toks with
  | Ok m => tok_list_eqb (encode_repl m) toks
  | _ => false
  end.

(* same, up to the order of the tokens: the parser accepts the groups of one node also when another node's groups lie
   between them, which no printer output does; the vector is then a rearrangement of the printer output for its parse *)
Definition count_tok (t : tok) (l : list tok) : nat := length (filter (bytes_eqb t) l).
Definition same_tokens (a b : list tok) : bool :=
  Nat.eqb (length a) (length b) && forallb (fun t => Nat.eqb (count_tok t a) (count_tok t b)) a.

Definition in_language_regrouped (unpack : tok -> option pcm_data) (toks : list tok) : bool :=
  match parse_pcm unpack toks with
  | Ok (m, true) => full_order (config_order toks) && same_tokens (pcm_to_args (config_order toks) m) toks
  | _ => false
  end.

(* the flags slot holds something the printer never emits; ClusterMapFlags::from_arg accepts it as "no flag" *)
Definition flag_tok_unrecognized (f : tok) : bool :=
  negb (bytes_eqb f kw_NOFLAG || bytes_eqb f kw_FORCE || bytes_eqb f kw_COMPRESS || bytes_eqb f kw_FORCE_COMPRESS).

Definition flags_token_unrecognized (toks : list tok) : bool :=
  match toks with
  | _ :: _ :: f :: _ => flag_tok_unrecognized f
  | _ => false
  end.

Definition repl_flags_token_unrecognized (toks : list tok) : bool :=
  match toks with
  | _ :: f :: _ => flag_tok_unrecognized f
  | _ => false
  end.

(* the parser itself reports the tolerated config error *)
Definition config_error_tolerated (unpack : tok -> option pcm_data) (toks : list tok) : bool :=
  match parse_pcm unpack toks with
  | Ok (_, false) => true
  | _ => false
  end.
