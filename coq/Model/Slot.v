(* Model of key -> slot -> node routing at a proxy (property C09).  Executable definitions only.
   Mirrors, branch by branch:
     common/utils.rs     get_hash_tag (incl. its `expect`), generate_slot (crc16 crate State::<XMODEM>, defined here
                         bitwise: poly 0x1021, init 0, no reflection, no final xor), same_slot, gen_moved,
                         byte_to_uppercase, bytes_ascii_case_insensitive_eq (for the constant "keyslot")
     proxy/slot.rs       SlotMapData::new (start > end skipped, s >= SLOT_NUM never written, later entry wins),
                         SlotMapData::get, SlotMap::from_ranges (the flattening is done by the caller of this model)
     proxy/cluster.rs    ClusterBackendMap::from_cluster_map / send, LocalCluster::send, RemoteCluster::send_remote,
                         RemoteCluster::send_remote_directly, SenderMap::from_slot_map
     proxy/manager.rs    send_cmd_ctx (the part after migration_map.send returned SlotNotFound, i.e. no migration task
                         contains the slot - in particular for metadata without MIGRATING/IMPORTING local ranges),
                         send_cmd_ctx_to_remote_directly (redirection-times arithmetic, UMFORWARD wrapping)
     proxy/command.rs    CmdType::from_cmd_name, DataCmdType::from_cmd_name (the names that change routing),
                         CommandInfo::get_key (element 1, EVAL/EVALSHA element 3)
     proxy/executor.rs   handle_cmd_ctx (CmdType::Invalid / UmForward / Cluster KEYSLOT / Others), handle_umforward,
                         handle_data_cmd, handle_mget, handle_mset, handle_msetnx, handle_multi_int_cmd (DEL / EXISTS),
                         handle_eval_cmd, handle_multi_key_eval_cmd, handle_single_key_data_cmd
   (handle_multi_key_eval_cmd is mirrored WITH its `min(key_num, command length)` clamp, i.e. the working tree after the
   C16 fix; before that fix `3 + key_num` could overflow and panic in a checked build.)
   Not modelled (the model answers NotModelled): the blocking commands BLPOP/BRPOP/BRPOPLPUSH/BZPOPMIN/BZPOPMAX, every
   proxy-internal command other than CLUSTER KEYSLOT and UMFORWARD, sub-command tokens that are not ASCII (UTF-8 check),
   compression (assumed Disabled), a configured password (assumed None), running migration tasks.
   A command is the list of its array elements; `None` stands for an element that is not a non-nil bulk string
   (Command::get_command_element answers None for those).  Addresses are the real address strings. *)
From UM Require Import Base.BytesDef Base.Dec Base.RespT.

Definition SLOT_NUM : N := 16384.

(* ---------- CRC16/XMODEM, bit by bit ---------- *)
Definition crc_shift (crc : N) : N :=
  if N.testbit crc 15 then N.land (N.lxor (N.shiftl crc 1) 4129) 65535
  else N.land (N.shiftl crc 1) 65535.

Definition crc_update (crc b : N) : N :=
  let x := N.lxor crc (N.shiftl b 8) in
  crc_shift (crc_shift (crc_shift (crc_shift (crc_shift (crc_shift (crc_shift (crc_shift x))))))).

Definition crc16 (l : bytes) : N := fold_left crc_update l 0.

(* ---------- get_hash_tag ---------- *)
Definition c_lbrace : N := 123.
Definition c_rbrace : N := 125.

Fixpoint position (c : N) (l : bytes) : option nat :=
  match l with
  | [] => None
  | x :: r => if N.eqb x c then Some O else option_map S (position c r)
  end.

(* key.get(a..) and key.get(a..b) *)
Definition slice_from (l : bytes) (a : nat) : option bytes :=
  if Nat.leb a (length l) then Some (skipn a l) else None.
Definition slice (l : bytes) (a b : nat) : option bytes :=
  if Nat.leb a b && Nat.leb b (length l) then Some (firstn (b - a) (skipn a l)) else None.

Inductive tag_result := TagOk (t : bytes) | TagPanic.

Definition get_hash_tag (key : bytes) : tag_result :=
  match position c_lbrace key with
  | Some b =>
    match (match slice_from key (S b) with Some t => position c_rbrace t | None => None end) with
    | Some e =>
      if Nat.eqb e 0 then TagOk key
      else match slice key (S b) (S b + e) with
           | Some t => TagOk t
           | None => TagPanic          (* .expect("get_hash_tag") *)
           end
    | None => TagOk key
    end
  | None => TagOk key
  end.

Definition hash_tag (key : bytes) : bytes :=
  match get_hash_tag key with TagOk t => t | TagPanic => key end.

(* generate_slot *)
Definition slot (key : bytes) : N := (crc16 (hash_tag key)) mod SLOT_NUM.

Definition same_slot (keys : list bytes) : bool :=
  match keys with
  | [] => false
  | k :: r => forallb (fun k' => N.eqb (slot k') (slot k)) r
  end.

(* ---------- the slot table ---------- *)
Definition range := (N * N)%type.
Definition addr := bytes.
Definition slot_map := list (addr * list range).   (* HashMap<String, Vec<(usize, usize)>> in its iteration order *)
Definition table := list (option nat).             (* slot_arr *)

Definition in_range (s : N) (r : range) : bool := (fst r <=? s) && (s <=? snd r).

(* for s in start..=end { if s >= SLOT_NUM { break } slot_arr[s] = Some(v) } : the table has SLOT_NUM entries, entry i
   of the (sub)list being slot i *)
Fixpoint write_from (t : table) (i : N) (r : range) (v : nat) : table :=
  match t with
  | [] => []
  | x :: t' => (if in_range i r then Some v else x) :: write_from t' (N.succ i) r v
  end.

Definition write_range (t : table) (r : range) (v : nat) : table :=
  if snd r <? fst r then t                      (* start > end => continue *)
  else write_from t 0 r v.

Definition write_ranges (t : table) (rs : list range) (v : nat) : table :=
  fold_left (fun t r => write_range t r v) rs t.

Fixpoint build_loop (t : table) (addrs : list addr) (m : slot_map) : table * list addr :=
  match m with
  | [] => (t, addrs)
  | (a, rs) :: m' =>
    let addrs' := addrs ++ [a] in                                   (* addrs.push(addr) *)
    build_loop (write_ranges t rs (Nat.pred (length addrs'))) addrs' m'   (* Some(addrs.len() - 1) *)
  end.

Definition slot_data := (table * list addr)%type.

Definition slot_map_new (m : slot_map) : slot_data :=
  build_loop (repeat None (N.to_nat SLOT_NUM)) [] m.

Definition slot_map_get (d : slot_data) (s : N) : option addr :=
  match nth_error (fst d) (N.to_nat s) with
  | Some (Some i) => nth_error (snd d) i
  | _ => None
  end.

(* the whole table as owners, entry i = owner of slot i (what the exhaustive comparison prints) *)
Definition slot_map_dump (d : slot_data) : list (option addr) :=
  map (fun o => match o with Some i => nth_error (snd d) i | None => None end) (fst d).

(* ---------- declarative reading of a slot map ---------- *)
Definition coversb (rs : list range) (s : N) : bool := (s <? SLOT_NUM) && existsb (in_range s) rs.

(* the entry that wins slot s when the map is iterated in the order of the list: the last one covering it *)
Definition last_owner (m : slot_map) (s : N) : option addr :=
  fold_left (fun acc e => if coversb (snd e) s then Some (fst e) else acc) m None.

(* all entries covering s: for metadata whose nodes overlap the real answer is one member, chosen by hash order *)
Definition owners (m : slot_map) (s : N) : list addr :=
  map fst (filter (fun e => coversb (snd e) s) m).

(* ---------- configuration, metadata, installed maps ---------- *)
Record cfg := { c_ar : bool;                       (* active_redirection *)
                c_default_redir : option addr;     (* default_redirection_address *)
                c_max_redir : option N }.          (* max_redirections: NonZeroUsize *)

Record meta := { m_noname : bool;                  (* cluster_name.is_empty() *)
                 m_local : slot_map; m_peer : slot_map }.

Record installed := { i_noname : bool;
                      i_local : slot_data; i_local_nodes : list addr;          (* LocalCluster.local_backend *)
                      i_peer : slot_data; i_remote_nodes : option (list addr)  (* RemoteCluster.remote_backend *) }.

Definition install (c : cfg) (m : meta) : installed :=
  {| i_noname := m_noname m;
     i_local := slot_map_new (m_local m); i_local_nodes := map fst (m_local m);
     i_peer := slot_map_new (m_peer m);
     i_remote_nodes := if c_ar c then Some (map fst (m_peer m)) else None |}.

Definition has_node (nodes : list addr) (a : addr) : bool := existsb (bytes_eqb a) nodes.

(* ---------- the routing decision for one command with slot `so` (None: the command has no key) ---------- *)
Inductive decision :=
| DLocal (n : addr)                          (* sent to the local backend node n *)
| DMoved (s : N) (a : addr)                  (* reply "MOVED s a" *)
| DForward (s : N) (a : addr) (w : option N) (* active redirection: sent to peer proxy a, wrapped in UMFORWARD w when Some *)
| DTooMany                                   (* ERR_TOO_MANY_REDIRECTIONS *)
| DNotCovered (s : N)                        (* "slot not covered s" *)
| DNoCluster                                 (* ERR_CLUSTER_NOT_FOUND *)
| DMissingKey                                (* "missing key" *)
| DDropped.                                  (* send_remote_directly: peer sender missing: no reply is ever set *)

(* send_cmd_ctx_to_remote_directly + RemoteCluster::send_remote_directly *)
Definition remote_directly (c : cfg) (ins : installed) (redir : option N) (s : N) (a : addr) : decision :=
  let times := match redir with
               | Some t => Some t
               | None => match c_max_redir c with Some n => Some (n - 1) | None => None end
               end in
  let go (w : option N) :=
      match i_remote_nodes ins with
      | Some nodes => if has_node nodes a then DForward s a w else DDropped
      | None => DMoved s a
      end in
  match times with
  | Some t => if t =? 0 then DTooMany (* checked_sub(1) = None *) else go (Some (t - 1))
  | None => go None
  end.

(* RemoteCluster::send_remote *)
Definition send_remote (c : cfg) (ins : installed) (redir : option N) (so : option N) : decision :=
  if i_noname ins then DNoCluster
  else match so with
       | None => DMissingKey
       | Some s =>
         match slot_map_get (i_peer ins) s with
         | Some a =>
           match i_remote_nodes ins with
           | Some _ => remote_directly c ins redir s a        (* ClusterSendError::ActiveRedirection *)
           | None => DMoved s a
           end
         | None => DNotCovered s
         end
       end.

(* the ClusterNotFound arm of send_cmd_ctx *)
Definition no_cluster (c : cfg) (so : option N) : decision :=
  match c_default_redir c with
  | Some a => match so with None => DMissingKey | Some s => DMoved s a end
  | None => DNoCluster
  end.

(* send_cmd_ctx = ClusterBackendMap::send = LocalCluster::send, then RemoteCluster::send_remote *)
Definition route (c : cfg) (ins : installed) (redir : option N) (so : option N) : decision :=
  if i_noname ins then no_cluster c so
  else match so with
       | None => DMissingKey
       | Some s =>
         match slot_map_get (i_local ins) s with
         | Some n => if has_node (i_local_nodes ins) n then DLocal n
                     else send_remote c ins redir so          (* "failed to get node" => SlotNotFound *)
         | None => send_remote c ins redir so
         end
       end.

(* ---------- commands ---------- *)
Definition cmd := list (option bytes).

Definition elem (c : cmd) (i : nat) : option bytes :=
  match nth_error c i with Some (Some b) => Some b | _ => None end.

Definition upper (b : N) : N := if (97 <=? b) && (b <=? 122) then b - 32 else b.

(* the ArrayVec of MAX_COMMAND_NAME_LENGTH = 64 bytes: longer names are classified as Others *)
Definition upper_name (n : bytes) : option bytes :=
  if Nat.leb (length n) 64 then Some (map upper n) else None.

Definition s_GET : bytes := [71; 69; 84].
Definition s_SET : bytes := [83; 69; 84].
Definition s_DEL : bytes := [68; 69; 76].
Definition s_EXISTS : bytes := [69; 88; 73; 83; 84; 83].
Definition s_MGET : bytes := [77; 71; 69; 84].
Definition s_MSET : bytes := [77; 83; 69; 84].
Definition s_MSETNX : bytes := [77; 83; 69; 84; 78; 88].
Definition s_EVAL : bytes := [69; 86; 65; 76].
Definition s_EVALSHA : bytes := [69; 86; 65; 76; 83; 72; 65].
Definition s_BLPOP : bytes := [66; 76; 80; 79; 80].
Definition s_BRPOP : bytes := [66; 82; 80; 79; 80].
Definition s_BRPOPLPUSH : bytes := [66; 82; 80; 79; 80; 76; 80; 85; 83; 72].
Definition s_BZPOPMIN : bytes := [66; 90; 80; 79; 80; 77; 73; 78].
Definition s_BZPOPMAX : bytes := [66; 90; 80; 79; 80; 77; 65; 88].
Definition s_PING : bytes := [80; 73; 78; 71].
Definition s_INFO : bytes := [73; 78; 70; 79].
Definition s_AUTH : bytes := [65; 85; 84; 72].
Definition s_QUIT : bytes := [81; 85; 73; 84].
Definition s_ECHO : bytes := [69; 67; 72; 79].
Definition s_SELECT : bytes := [83; 69; 76; 69; 67; 84].
Definition s_UMCTL : bytes := [85; 77; 67; 84; 76].
Definition s_UMFORWARD : bytes := [85; 77; 70; 79; 82; 87; 65; 82; 68].
Definition s_UMSYNC : bytes := [85; 77; 83; 89; 78; 67].
Definition s_CLUSTER : bytes := [67; 76; 85; 83; 84; 69; 82].
Definition s_CONFIG : bytes := [67; 79; 78; 70; 73; 71].
Definition s_COMMAND : bytes := [67; 79; 77; 77; 65; 78; 68].
Definition s_ASKING : bytes := [65; 83; 75; 73; 78; 71].
Definition s_HELLO : bytes := [72; 69; 76; 76; 79].
Definition s_KEYSLOT : bytes := [75; 69; 89; 83; 76; 79; 84].
Definition s_NODES : bytes := [78; 79; 68; 69; 83].
Definition s_SLOTS : bytes := [83; 76; 79; 84; 83].
Definition s_OK : bytes := [79; 75].
Definition e_missing_key : bytes := [109; 105; 115; 115; 105; 110; 103; 32; 107; 101; 121].
Definition e_slot_not_covered : bytes := [115; 108; 111; 116; 32; 110; 111; 116; 32; 99; 111; 118; 101; 114; 101; 100; 32].
Definition e_moved : bytes := [77; 79; 86; 69; 68; 32].
Definition e_cluster_not_found : bytes := [69; 82; 82; 95; 67; 76; 85; 83; 84; 69; 82; 95; 78; 79; 84; 95; 70; 79; 85; 78; 68].
Definition e_not_same_slot : bytes := [69; 82; 82; 95; 77; 85; 76; 84; 73; 95; 83; 76; 79; 84; 83; 32; 115; 108; 111; 116; 115; 32; 111; 102; 32; 116; 104; 101; 32; 107; 101; 121; 115; 32; 97; 114; 101; 32; 110; 111; 116; 32; 116; 104; 101; 32; 115; 97; 109; 101].
Definition e_too_many_redir : bytes := [69; 82; 82; 95; 84; 79; 79; 95; 77; 65; 78; 89; 95; 82; 69; 68; 73; 82; 69; 67; 84; 73; 79; 78; 83].
Definition e_wrong_args_mget : bytes := [69; 82; 82; 32; 119; 114; 111; 110; 103; 32; 110; 117; 109; 98; 101; 114; 32; 111; 102; 32; 97; 114; 103; 117; 109; 101; 110; 116; 115; 32; 102; 111; 114; 32; 39; 109; 103; 101; 116; 39; 32; 99; 111; 109; 109; 97; 110; 100].
Definition e_wrong_args_mset : bytes := [69; 82; 82; 32; 119; 114; 111; 110; 103; 32; 110; 117; 109; 98; 101; 114; 32; 111; 102; 32; 97; 114; 103; 117; 109; 101; 110; 116; 115; 32; 102; 111; 114; 32; 39; 109; 115; 101; 116; 39; 32; 99; 111; 109; 109; 97; 110; 100].
Definition e_wrong_args_del : bytes := [69; 82; 82; 32; 119; 114; 111; 110; 103; 32; 110; 117; 109; 98; 101; 114; 32; 111; 102; 32; 97; 114; 103; 117; 109; 101; 110; 116; 115; 32; 102; 111; 114; 32; 39; 68; 69; 76; 39; 32; 99; 111; 109; 109; 97; 110; 100].
Definition e_wrong_args_exists : bytes := [69; 82; 82; 32; 119; 114; 111; 110; 103; 32; 110; 117; 109; 98; 101; 114; 32; 111; 102; 32; 97; 114; 103; 117; 109; 101; 110; 116; 115; 32; 102; 111; 114; 32; 39; 69; 88; 73; 83; 84; 83; 39; 32; 99; 111; 109; 109; 97; 110; 100].
Definition e_invalid_command : bytes := [73; 110; 118; 97; 108; 105; 100; 32; 99; 111; 109; 109; 97; 110; 100].
Definition e_missing_sub : bytes := [77; 105; 115; 115; 105; 110; 103; 32; 115; 117; 98; 32; 99; 111; 109; 109; 97; 110; 100].
Definition e_invalid_redir_times : bytes := [105; 110; 118; 97; 108; 105; 100; 32; 114; 101; 100; 105; 114; 101; 99; 116; 105; 111; 110; 32; 116; 105; 109; 101; 115].
Definition e_missing_forwarded : bytes := [109; 105; 115; 115; 105; 110; 103; 32; 102; 111; 114; 119; 97; 114; 100; 101; 100; 32; 99; 111; 109; 109; 97; 110; 100].
Definition e_missing_key_cap : bytes := [77; 105; 115; 115; 105; 110; 103; 32; 107; 101; 121].
Definition e_unsupported_sub : bytes := [85; 110; 115; 117; 112; 112; 111; 114; 116; 101; 100; 32; 115; 117; 98; 32; 99; 111; 109; 109; 97; 110; 100].
Definition e_eval_missing_numkeys : bytes := [69; 82; 82; 58; 32; 77; 105; 115; 115; 105; 110; 103; 32; 96; 110; 117; 109; 107; 101; 121; 115; 96; 32; 102; 111; 114; 32; 69; 86; 65; 76].
(* "ERR: Invalid `numkeys` " - the Debug rendering of the btoi error that follows is cut off by both canonicalisers *)
Definition e_eval_invalid_numkeys : bytes := [69; 82; 82; 58; 32; 73; 110; 118; 97; 108; 105; 100; 32; 96; 110; 117; 109; 107; 101; 121; 115; 96; 32].
(* "unexpected reply from " - likewise a prefix *)
Definition e_unexpected_reply : bytes := [117; 110; 101; 120; 112; 101; 99; 116; 101; 100; 32; 114; 101; 112; 108; 121; 32; 102; 114; 111; 109; 32].

Definition name_in (u : bytes) (l : list bytes) : bool := existsb (bytes_eqb u) l.

(* CmdType *)
Inductive ctype := CtInvalid | CtUmForward | CtCluster | CtProxy (* handled by the proxy itself *) | CtOthers.

Definition cmd_type (c : cmd) : ctype :=
  match elem c 0 with
  | None => CtInvalid
  | Some n =>
    match upper_name n with
    | None => CtOthers
    | Some u =>
      if bytes_eqb u s_UMFORWARD then CtUmForward
      else if bytes_eqb u s_CLUSTER then CtCluster
      else if name_in u [s_PING; s_INFO; s_AUTH; s_QUIT; s_ECHO; s_SELECT; s_UMCTL; s_UMSYNC; s_CONFIG; s_COMMAND;
                         s_ASKING; s_HELLO] then CtProxy
      else CtOthers
    end
  end.

(* DataCmdType, as far as it changes the handling *)
Inductive dkind := DMget | DMset | DMsetnx | DDel | DExists | DEval | DEvalsha | DBlocking | DOther.

Definition data_kind (c : cmd) : dkind :=
  match elem c 0 with
  | None => DOther
  | Some n =>
    match upper_name n with
    | None => DOther
    | Some u =>
      if bytes_eqb u s_MGET then DMget
      else if bytes_eqb u s_MSET then DMset
      else if bytes_eqb u s_MSETNX then DMsetnx
      else if bytes_eqb u s_DEL then DDel
      else if bytes_eqb u s_EXISTS then DExists
      else if bytes_eqb u s_EVAL then DEval
      else if bytes_eqb u s_EVALSHA then DEvalsha
      else if name_in u [s_BLPOP; s_BRPOP; s_BRPOPLPUSH; s_BZPOPMIN; s_BZPOPMAX] then DBlocking
      else DOther
    end
  end.

(* CommandInfo::get_key and the slot cached in the command *)
Definition cmd_key (c : cmd) : option bytes :=
  match data_kind c with
  | DEval | DEvalsha => elem c 3
  | _ => elem c 1
  end.

Definition cmd_slot (c : cmd) : option N := option_map slot (cmd_key c).

(* ---------- executing one command through the single-key path ---------- *)
Definition backend_fn := addr -> cmd -> resp.

Inductive sres :=
| SR (reply : resp) (sent : list (addr * cmd))
| SDropped.

Definition moved_msg (s : N) (a : addr) : bytes := e_moved ++ to_dec s ++ [32] ++ a.

(* wrap_cmd(vec!["UMFORWARD", times]) *)
Definition wrap (c : cmd) (t : N) : cmd := Some s_UMFORWARD :: Some (to_dec t) :: c.

Definition apply_decision (bk : backend_fn) (d : decision) (c : cmd) : sres :=
  match d with
  | DLocal n => SR (bk n c) [(n, c)]
  | DMoved s a => SR (Error (moved_msg s a)) []
  | DForward s a None => SR (bk a c) [(a, c)]
  | DForward s a (Some t) => SR (bk a (wrap c t)) [(a, wrap c t)]
  | DTooMany => SR (Error e_too_many_redir) []
  | DNotCovered s => SR (Error (e_slot_not_covered ++ to_dec s)) []
  | DNoCluster => SR (Error e_cluster_not_found) []
  | DMissingKey => SR (Error e_missing_key) []
  | DDropped => SDropped
  end.

(* handle_single_key_data_cmd (compression disabled) -> MetaManager::send *)
Definition single (bk : backend_fn) (cf : cfg) (ins : installed) (redir : option N) (c : cmd) : sres :=
  apply_decision bk (route cf ins redir (cmd_slot c)) c.

(* ---------- multi-key handling ---------- *)
Inductive outcome :=
| Out (reply : resp) (sent : list (addr * cmd))
| OutCanceled (sent : list (addr * cmd))      (* a sub command was dropped: "ERR: <canceled>" *)
| OutPanic                                    (* arithmetic overflow in a checked (dev profile) build *)
| OutNotModelled.

Fixpoint filter_some (l : cmd) : list bytes :=
  match l with
  | [] => []
  | Some b :: r => b :: filter_some r
  | None :: r => filter_some r
  end.

Fixpoint keys_until_none (l : cmd) : list bytes :=
  match l with
  | Some b :: r => b :: keys_until_none r
  | _ => []
  end.

(* (0..arg_len/2).filter_map(|i| element(2*i+1)) *)
Definition pair_check_keys (c : cmd) : list bytes :=
  flat_map (fun i => match elem c (2 * i + 1) with Some k => [k] | None => [] end) (seq 0 (Nat.div2 (length c))).

(* the key/value loop of MSET and MSETNX over the elements after the name: (pairs, stopped on a missing value) *)
Fixpoint kv_pairs (l : cmd) : list (bytes * bytes) * bool :=
  match l with
  | Some k :: Some v :: r => let (ps, e) := kv_pairs r in ((k, v) :: ps, e)
  | Some k :: _ => ([], true)
  | _ => ([], false)
  end.

(* running the sub commands in order, collecting replies and what was sent *)
Fixpoint run_subs (bk : backend_fn) (cf : cfg) (ins : installed) (subs : list cmd)
  : list (option resp) * list (addr * cmd) :=
  match subs with
  | [] => ([], [])
  | s :: r =>
    let (rs, sent) := run_subs bk cf ins r in
    match single bk cf ins None s with
    | SR rep snt => (Some rep :: rs, snt ++ sent)
    | SDropped => (None :: rs, sent)
    end
  end.

Inductive agg := AggReply (r : resp) | AggCanceled | AggPanic.

(* MGET: first error wins, else the array of values *)
Fixpoint agg_values (rs : list (option resp)) (acc : list resp) : agg :=
  match rs with
  | [] => AggReply (Arr (rev acc))
  | None :: _ => AggCanceled
  | Some (Error e) :: _ => AggReply (Error e)
  | Some v :: r => agg_values r (v :: acc)
  end.

(* MSET: first error wins, else OK *)
Fixpoint agg_ok (rs : list (option resp)) : agg :=
  match rs with
  | [] => AggReply (Simple s_OK)
  | None :: _ => AggCanceled
  | Some (Error e) :: _ => AggReply (Error e)
  | Some _ :: r => agg_ok r
  end.

(* DEL / EXISTS / MSETNX: sum of the integer replies (usize, overflow-checked in the dev profile) *)
Fixpoint agg_int (name : bytes) (rs : list (option resp)) (count : N) : agg :=
  match rs with
  | [] => AggReply (Integer (to_dec count))
  | None :: _ => AggCanceled
  | Some (Error e) :: _ => AggReply (Error e)
  | Some (Integer d) :: r =>
    match btou u64_max d with
    | Some n => if count + n <=? u64_max then agg_int name r (count + n) else AggPanic
    | None => AggReply (Error (e_unexpected_reply ++ name))
    end
  | Some _ :: _ => AggReply (Error (e_unexpected_reply ++ name))
  end.

Definition finish (a : agg) (sent : list (addr * cmd)) : outcome :=
  match a with
  | AggReply r => Out r sent
  | AggCanceled => OutCanceled sent
  | AggPanic => OutPanic
  end.

Definition refuse : outcome := Out (Error e_not_same_slot) [].

Definition handle_mget (bk : backend_fn) (cf : cfg) (ins : installed) (c : cmd) : outcome :=
  if negb (c_ar cf) && negb (same_slot (filter_some (skipn 1 c))) then refuse
  else
    let subs := map (fun k => [Some s_GET; Some k]) (keys_until_none (skipn 1 c)) in
    let (rs, sent) := run_subs bk cf ins subs in
    match subs with
    | [] => Out (Error e_wrong_args_mget) []
    | _ => finish (agg_values rs []) sent
    end.

Definition handle_mset (bk : backend_fn) (cf : cfg) (ins : installed) (c : cmd) : outcome :=
  if negb (c_ar cf) && negb (same_slot (pair_check_keys c)) then refuse
  else
    let (ps, stopped) := kv_pairs (skipn 1 c) in
    let subs := map (fun kv => [Some s_SET; Some (fst kv); Some (snd kv)]) ps in
    let (rs, sent) := run_subs bk cf ins subs in
    if stopped then Out (Error e_wrong_args_mset) sent     (* the sub commands already sent stay sent *)
    else match subs with
         | [] => Out (Error e_wrong_args_mset) []
         | _ => finish (agg_ok rs) sent
         end.

(* grouping of MSETNX pairs by slot; groups listed by ascending slot (the code iterates a HashMap<usize, _>) *)
Fixpoint group_insert (s : N) (kv : bytes * bytes) (g : list (N * list (bytes * bytes))) : list (N * list (bytes * bytes)) :=
  match g with
  | [] => [(s, [kv])]
  | (s', l) :: r =>
    if s =? s' then (s', l ++ [kv]) :: r
    else if s <? s' then (s, [kv]) :: (s', l) :: r
    else (s', l) :: group_insert s kv r
  end.

Definition group_by_slot (ps : list (bytes * bytes)) : list (N * list (bytes * bytes)) :=
  fold_left (fun g kv => group_insert (slot (fst kv)) kv g) ps [].

Definition msetnx_cmd (l : list (bytes * bytes)) : cmd :=
  Some s_MSETNX :: flat_map (fun kv => [Some (fst kv); Some (snd kv)]) l.

Definition handle_msetnx (bk : backend_fn) (cf : cfg) (ins : installed) (c : cmd) : outcome :=
  if negb (c_ar cf) && negb (same_slot (pair_check_keys c)) then refuse
  else
    let (ps, stopped) := kv_pairs (skipn 1 c) in
    if stopped then Out (Error e_wrong_args_mset) []
    else
      let subs := map (fun g => msetnx_cmd (snd g)) (group_by_slot ps) in
      let (rs, sent) := run_subs bk cf ins subs in
      match subs with
      | [] => Out (Error e_wrong_args_mset) []
      | _ => finish (agg_int s_MSETNX rs 0) sent
      end.

Definition handle_multi_int (bk : backend_fn) (cf : cfg) (ins : installed) (name : bytes) (c : cmd) : outcome :=
  if negb (c_ar cf) && negb (same_slot (filter_some (skipn 1 c))) then refuse
  else
    let subs := map (fun k => [Some name; Some k]) (keys_until_none (skipn 1 c)) in
    let (rs, sent) := run_subs bk cf ins subs in
    match subs with
    | [] => Out (Error (if bytes_eqb name s_DEL then e_wrong_args_del else e_wrong_args_exists)) []
    | _ => finish (agg_int name rs 0) sent
    end.

(* btoi::btoi::<usize> *)
Definition btoi_usize (l : bytes) : option N :=
  match l with
  | [] => None
  | 43 :: r => btou u64_max r
  | 45 :: r => match r with
               | [] => None
               | _ => if forallb (N.eqb 48) r then Some 0 else None
               end
  | _ => btou u64_max l
  end.

(* the elements i in 3..3+key_num that exist: never builds a unary number larger than the command *)
Definition firstn_N (n : N) (l : cmd) : cmd :=
  if N.of_nat (length l) <=? n then l else firstn (N.to_nat n) l.

Definition of_sres (r : sres) : outcome :=
  match r with
  | SR rep sent => Out rep sent
  | SDropped => OutCanceled []
  end.

(* handle_multi_key_eval_cmd: let key_num = min(key_num, command length) *)
Definition eval_key_count (c : cmd) (key_num : N) : N := N.min key_num (N.of_nat (length c)).

Definition handle_eval (bk : backend_fn) (cf : cfg) (ins : installed) (redir : option N) (c : cmd) : outcome :=
  match elem c 2 with
  | None => Out (Error e_eval_missing_numkeys) []
  | Some ns =>
    match btoi_usize ns with
    | None => Out (Error e_eval_invalid_numkeys) []
    | Some key_num =>
      if key_num =? 1 then of_sres (single bk cf ins redir c)
      else if u64_max <? 3 + eval_key_count c key_num then OutPanic       (* 3 + key_num overflows *)
      else
        let keys := filter_some (firstn_N (eval_key_count c key_num) (skipn 3 c)) in
        if negb (same_slot keys) then refuse
        else of_sres (single bk cf ins redir c)
    end
  end.

(* handle_data_cmd *)
Definition handle_data (bk : backend_fn) (cf : cfg) (ins : installed) (redir : option N) (c : cmd) : outcome :=
  match data_kind c with
  | DMget => handle_mget bk cf ins c
  | DMset => handle_mset bk cf ins c
  | DMsetnx => handle_msetnx bk cf ins c
  | DDel => match elem c 2 with
            | Some _ => handle_multi_int bk cf ins s_DEL c
            | None => of_sres (single bk cf ins redir c)
            end
  | DExists => match elem c 2 with
               | Some _ => handle_multi_int bk cf ins s_EXISTS c
               | None => of_sres (single bk cf ins redir c)
               end
  | DBlocking => OutNotModelled
  | DEval => handle_eval bk cf ins redir c
  | DEvalsha | DOther => of_sres (single bk cf ins redir c)
  end.

Definition is_ascii (b : bytes) : bool := forallb (fun x => x <? 128) b.

(* str::parse::<usize> *)
Definition parse_usize (l : bytes) : option N :=
  match l with
  | 43 :: r => btou u64_max r
  | _ => btou u64_max l
  end.

(* handle_cmd_ctx *)
Definition handle_cmd (bk : backend_fn) (cf : cfg) (ins : installed) (c : cmd) : outcome :=
  match cmd_type c with
  | CtInvalid => Out (Error e_invalid_command) []
  | CtProxy => OutNotModelled
  | CtCluster =>
    match elem c 1 with
    | None => Out (Error e_missing_sub) []
    | Some sub =>
      if negb (is_ascii sub) then OutNotModelled
      else if bytes_eqb (map upper sub) s_KEYSLOT then
        match elem c 2 with
        | Some key => Out (Integer (to_dec (slot key))) []
        | None => Out (Error e_missing_key_cap) []
        end
      else if bytes_eqb (map upper sub) s_NODES || bytes_eqb (map upper sub) s_SLOTS then OutNotModelled
      else Out (Error e_unsupported_sub) []
    end
  | CtUmForward =>
    match elem c 1 with
    | None => Out (Error e_missing_sub) []
    | Some ts =>
      if negb (is_ascii ts) then OutNotModelled
      else match parse_usize (map upper ts) with
           | None => Out (Error e_invalid_redir_times) []
           | Some t =>
             match skipn 2 c with
             | [] => Out (Error e_missing_forwarded) []
             | inner => handle_data bk cf ins (Some t) inner
             end
           end
    end
  | CtOthers => handle_data bk cf ins None c
  end.

(* ---------- the stand-in backend used by the correspondence (harness/slot fake Redis) ---------- *)
Definition strip_forward (c : cmd) : cmd :=
  match c with
  | Some n :: _ :: r => if bytes_eqb (map upper n) s_UMFORWARD then r else c
  | _ => c
  end.

Definition std_backend (a : addr) (c : cmd) : resp :=
  match elem (strip_forward c) 0 with
  | None => Error [63]
  | Some n =>
    let u := map upper n in
    if bytes_eqb u s_GET then Bulk (118 :: 64 :: a)           (* "v@" ++ address *)
    else if name_in u [s_DEL; s_EXISTS; s_MSETNX] then Integer [49]
    else if name_in u [s_EVAL; s_EVALSHA] then Integer [55]
    else Simple s_OK
  end.
