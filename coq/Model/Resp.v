(* Model of the RESP codec of undermoon (property C15).  Executable definitions only.

   Mirrors (src/protocol, working tree WITH the patches work/fix_C15.diff, work/fix_C16_1.diff, work/fix_C16_2.diff):
     stateless.rs  parse_line            -> parse_line        (memchr(LF): first LF; LF at index 0 is invalid;
                                                               fix_C15: the byte before LF must be CR)
                   parse_len             -> parse_len         (btoi::<i64> on the line; slice .get() -> PUnexpected)
                   parse_bulk_str        -> parse_bulk_str    (negative length = nil; NotEnoughData until payload + 2
                                                               bytes are there; fix_C15: those 2 bytes must be CR LF)
                   parse_nested_array    -> parse_array / parse_elems   (for _ in 0..array_size, buf.get(consumed..))
                   parse_nested_resp     -> parse_resp        (fix_C16_2: depth >= MAX_ARRAY_NESTING -> InvalidProtocol;
                                                               the first argument is MAX_ARRAY_NESTING - depth)
                   parse_indexed_resp    -> decode_indexed    (buf.split_to(consumed))
     resp.rs       DataIndex / RespIndex / AdvanceIndex::advance / IndexedResp::to_resp_vec
                                         -> didx / iresp / iadvance / to_resp_vec (expect() -> None)
     encoder.rs    encode_resp, encode_array, encode_bulk_str, encode_simple_element -> encode
     packet.rs     DecodedPacket for IndexedResp / RespVec / RespPacket -> decode_indexed / decode
                   EncodedPacket for RespPacket  -> encode_packet  (Indexed: the kept data unmodified; Data: encode)
                   OptionalMultiHintState::{consume,produce} -> hint_consume / hint_produce
                   OptionalMultiPacketDecoder::decode        -> mdecode / mloop
     codec.rs      RespCodec::decode = the packet decoder's decode; tokio_util FramedRead contract (after every read
                   `decode` is called until it returns None; an Err ends the stream) -> drain / feed_all / mdrain / mfeed_all

   Not modelled here: the allocation of Vec::with_capacity in parse_nested_array and the cost of the walks (Model/Cost.v,
   property C16).  usize arithmetic: `consumed + content_size + 2` cannot wrap because content_size <= i64::MAX and
   consumed <= buf.len() <= isize::MAX - it is computed in N below.  Numbers: list positions are nat, lengths read from
   the wire are Z / N (a hostile 2^63-1 is never converted to nat before it has been compared with the buffer length). *)
From UM Require Import Base.BytesDef Base.Dec Base.RespT.

(* Result<(T, usize), ParseError> *)
Inductive pres (A : Type) : Type :=
| POk (v : A) (consumed : nat)
| PNeed          (* ParseError::NotEnoughData *)
| PInvalid       (* ParseError::InvalidProtocol *)
| PUnexpected    (* ParseError::UnexpectedErr *)
| PFuel.         (* artefact of the model: iteration fuel of the element loop exhausted (proved unreachable) *)
Arguments POk {A} v consumed.
Arguments PNeed {A}.
Arguments PInvalid {A}.
Arguments PUnexpected {A}.
Arguments PFuel {A}.

(* the `?` operator *)
Definition pbind {A B} (r : pres A) (k : A -> nat -> pres B) : pres B :=
  match r with
  | POk v c => k v c
  | PNeed => PNeed
  | PInvalid => PInvalid
  | PUnexpected => PUnexpected
  | PFuel => PFuel
  end.

(* DataIndex(start, end) *)
Definition didx := (nat * nat)%type.

(* RespIndex = Resp<DataIndex>, flattened like RespT.resp *)
Inductive iresp : Type :=
| ISimple (d : didx)
| IError (d : didx)
| IInteger (d : didx)
| IBulk (d : didx)
| IBulkNil
| IArr (l : list iresp)
| IArrNil.

Definition dadvance (k : nat) (d : didx) : didx := (fst d + k, snd d + k)%nat.

(* AdvanceIndex::advance = map_in_place over every DataIndex *)
Fixpoint iadvance (k : nat) (r : iresp) : iresp :=
  match r with
  | ISimple d => ISimple (dadvance k d)
  | IError d => IError (dadvance k d)
  | IInteger d => IInteger (dadvance k d)
  | IBulk d => IBulk (dadvance k d)
  | IBulkNil => IBulkNil
  | IArr l => IArr (map (iadvance k) l)
  | IArrNil => IArrNil
  end.

(* memchr(LF, buf) *)
Fixpoint find_lf (b : bytes) : option nat :=
  match b with
  | [] => None
  | c :: r => if N.eqb c c_LF then Some O else option_map S (find_lf r)
  end.

(* buf.get(s..e) *)
Definition slice (b : bytes) (s e : nat) : option bytes :=
  if ((s <=? e)%nat && (e <=? length b)%nat)%bool then Some (firstn (e - s) (skipn s b)) else None.

Definition CRLF : bytes := [c_CR; c_LF].

Definition parse_line (buf : bytes) : pres didx :=
  match find_lf buf with
  | None => PNeed
  | Some O => PInvalid
  | Some (S i) =>                       (* lf_index = S i *)
    match nth_error buf i with          (* buf.get(lf_index - 1) != Some(&CR) *)
    | Some c => if N.eqb c c_CR then POk (O, i) (S (S i)) else PInvalid
    | None => PInvalid
    end
  end.

Definition parse_len (buf : bytes) : pres Z :=
  pbind (parse_line buf) (fun d consumed =>
    match slice buf (fst d) (snd d) with
    | None => PUnexpected
    | Some l =>
      match btoi_i64 l with
      | None => PInvalid
      | Some len => POk len consumed
      end
    end).

Definition parse_bulk_str (buf : bytes) : pres iresp :=
  pbind (parse_len buf) (fun len consumed =>
    if Z.ltb len 0 then POk IBulkNil consumed
    else
      let content_size := Z.to_N len in
      if N.ltb (N.of_nat (length buf)) (N.of_nat consumed + content_size + 2) then PNeed
      else
        let content_end := (consumed + N.to_nat content_size)%nat in
        match slice buf content_end (content_end + 2) with
        | Some t => if bytes_eqb t CRLF then POk (IBulk (consumed, content_end)) (content_end + 2)%nat
                    else PInvalid
        | None => PInvalid
        end).

(* the element loop of parse_nested_array; k is iteration fuel, n the number of elements still to read *)
Fixpoint parse_elems (pr : bytes -> pres iresp) (k : nat) (n : N) (buf : bytes) (consumed : nat)
  : pres (list iresp) :=
  if N.eqb n 0 then POk [] consumed
  else
    match k with
    | O => PFuel
    | S k' =>
      if (length buf <? consumed)%nat then PInvalid        (* buf.get(consumed..).ok_or(InvalidProtocol) *)
      else
        pbind (pr (skipn consumed buf)) (fun v element_consumed =>
          pbind (parse_elems pr k' (n - 1) buf (consumed + element_consumed)%nat) (fun vs c' =>
            POk (iadvance consumed v :: vs) c'))
    end.

Definition parse_array (pr : bytes -> pres iresp) (buf : bytes) : pres iresp :=
  pbind (parse_len buf) (fun len consumed =>
    if Z.ltb len 0 then POk IArrNil consumed
    else
      pbind (parse_elems pr (S (length buf)) (Z.to_N len) buf consumed) (fun vs c' => POk (IArr vs) c')).

Definition MAX_ARRAY_NESTING : nat := 128.

(* parse_nested_resp(buf, depth) with rem = MAX_ARRAY_NESTING - depth *)
Fixpoint parse_resp (rem : nat) (buf : bytes) : pres iresp :=
  match buf with
  | [] => PNeed
  | prefix :: next_buf =>
    if N.eqb prefix c_dollar then
      pbind (parse_bulk_str next_buf) (fun v consumed => POk (iadvance 1 v) (1 + consumed)%nat)
    else if N.eqb prefix c_plus then
      pbind (parse_line next_buf) (fun d consumed => POk (ISimple (dadvance 1 d)) (1 + consumed)%nat)
    else if N.eqb prefix c_colon then
      pbind (parse_line next_buf) (fun d consumed => POk (IInteger (dadvance 1 d)) (1 + consumed)%nat)
    else if N.eqb prefix c_minus then
      pbind (parse_line next_buf) (fun d consumed => POk (IError (dadvance 1 d)) (1 + consumed)%nat)
    else if N.eqb prefix c_star then
      match rem with
      | O => PInvalid                     (* depth >= MAX_ARRAY_NESTING *)
      | S rem' =>
        pbind (parse_array (parse_resp rem') next_buf) (fun v consumed => POk (iadvance 1 v) (1 + consumed)%nat)
      end
    else PInvalid
  end.

(* IndexedResp { resp, data } *)
Record packet := { pk_resp : iresp; pk_data : bytes }.

(* Result<Option<IndexedResp>, DecodeError> of IndexedResp::decode, plus the buffer after the call *)
Inductive dres :=
| DSome (p : packet) (rest : bytes)
| DNone
| DErr
| DPanic        (* BytesMut::split_to(at) with at > len *)
| DFuel.

Definition decode_indexed (buf : bytes) : dres :=
  match parse_resp MAX_ARRAY_NESTING buf with
  | POk ix consumed =>
    if (length buf <? consumed)%nat then DPanic
    else DSome {| pk_resp := ix; pk_data := firstn consumed buf |} (skipn consumed buf)
  | PNeed => DNone
  | PInvalid => DErr
  | PUnexpected => DErr
  | PFuel => DFuel
  end.

Fixpoint opt_all {A} (l : list (option A)) : option (list A) :=
  match l with
  | [] => Some []
  | None :: _ => None
  | Some x :: t => option_map (cons x) (opt_all t)
  end.

(* RespIndex::map(|DataIndex(s, e)| data.get(s..e).expect(..).to_vec());  None = the expect fails *)
Fixpoint resolve (data : bytes) (r : iresp) : option resp :=
  match r with
  | ISimple d => option_map Simple (slice data (fst d) (snd d))
  | IError d => option_map Error (slice data (fst d) (snd d))
  | IInteger d => option_map Integer (slice data (fst d) (snd d))
  | IBulk d => option_map Bulk (slice data (fst d) (snd d))
  | IBulkNil => Some BulkNil
  | IArr l => option_map Arr (opt_all (map (resolve data) l))
  | IArrNil => Some ArrNil
  end.

Definition to_resp_vec (p : packet) : option resp := resolve (pk_data p) (pk_resp p).

(* RespVec::decode : value, number of bytes split off the buffer *)
Inductive vres :=
| VOk (v : resp) (consumed : nat)
| VNeed
| VInvalid
| VPanic
| VFuel.

Definition decode (buf : bytes) : vres :=
  match decode_indexed buf with
  | DSome p _ =>
    match to_resp_vec p with
    | Some v => VOk v (length (pk_data p))
    | None => VPanic
    end
  | DNone => VNeed
  | DErr => VInvalid
  | DPanic => VPanic
  | DFuel => VFuel
  end.

(* ---------- encoder.rs ---------- *)

Definition encode_simple_element (prefix b : bytes) : bytes := prefix ++ b ++ CRLF.

Fixpoint encode (r : resp) : bytes :=
  match r with
  | Error s => encode_simple_element [c_minus] s
  | Simple s => encode_simple_element [c_plus] s
  | Integer s => encode_simple_element [c_colon] s
  | BulkNil => [c_dollar; c_minus; 49; c_CR; c_LF]
  | Bulk s => encode_simple_element [c_dollar] (to_dec (N.of_nat (length s))) ++ s ++ CRLF
  | ArrNil => [c_star; c_minus; 49; c_CR; c_LF]
  | Arr l => encode_simple_element [c_star] (to_dec (N.of_nat (length l))) ++ flat_map encode l
  end.

(* RespPacket::{Indexed, Data} and its EncodedPacket impl *)
Inductive resp_packet :=
| RPIndexed (p : packet)
| RPData (v : resp).

Definition encode_packet (p : resp_packet) : bytes :=
  match p with
  | RPIndexed ip => pk_data ip
  | RPData v => encode v
  end.

(* ---------- the framed read loop over the simple decoder ---------- *)

Inductive status := StOk | StErr | StPanic | StFuel.

(* decode called until it returns None (StOk) or fails; the leftover buffer is reported only when the stream is alive *)
Fixpoint drain (fuel : nat) (buf : bytes) : list packet * bytes * status :=
  match fuel with
  | O => ([], [], StFuel)
  | S f =>
    match decode_indexed buf with
    | DSome p rest => let '(ps, lft, st) := drain f rest in (p :: ps, lft, st)
    | DNone => ([], buf, StOk)
    | DErr => ([], [], StErr)
    | DPanic => ([], [], StPanic)
    | DFuel => ([], [], StFuel)
    end
  end.

(* chunks arrive one per read and are appended to the read buffer; after an error the stream has ended *)
Fixpoint feed_all (buf : bytes) (chunks : list bytes) : list packet * bytes * status :=
  match chunks with
  | [] => ([], buf, StOk)
  | c :: cs =>
    let b := buf ++ c in
    match drain (S (length b)) b with
    | (ps, lft, StOk) => let '(ps', left', st') := feed_all lft cs in (ps ++ ps', left', st')
    | r => r
    end
  end.

(* ---------- OptionalMultiPacketDecoder<RespVec> ---------- *)

Inductive hint := HSingle | HMulti (n : nat).          (* OptionalMultiHint<()> *)
Inductive omulti := OSingle (v : resp) | OMulti (vs : list resp).

Definition hint_consume (s : N) : option hint * N :=    (* state.swap(0) *)
  if N.eqb s 0 then (None, 0)
  else if N.eqb s 1 then (Some HSingle, 0)
  else (Some (HMulti (N.to_nat (s - 2))), 0).

Definition hint_produce (s : N) (h : hint) : bool * N := (* compare_exchange(0, n) *)
  let n := match h with HSingle => 1 | HMulti k => N.of_nat k + 2 end in
  if N.eqb s 0 then (true, n) else (false, s).

Record mdec := { md_state : N; md_buf : list resp; md_hint : option hint }.

Inductive mres := MSome (o : omulti) | MNone | MErr | MPanic | MFuel.

(* the `loop` of OptionalMultiPacketDecoder::decode: result, new self.buf, buffer after the call *)
Fixpoint mloop (fuel : nat) (h : hint) (acc : list resp) (buf : bytes) : mres * list resp * bytes :=
  match fuel with
  | O => (MFuel, acc, buf)
  | S f =>
    match decode buf with
    | VOk v n =>
      let rest := skipn n buf in
      match h with
      | HSingle => (MSome (OSingle v), acc, rest)
      | HMulti k =>
        let acc' := acc ++ [v] in
        if (k =? length acc')%nat then (MSome (OMulti acc'), [], rest)
        else mloop f h acc' rest
      end
    | VNeed => (MNone, acc, buf)
    | VInvalid => (MErr, acc, buf)
    | VPanic => (MPanic, acc, buf)
    | VFuel => (MFuel, acc, buf)
    end
  end.

Definition mdecode (d : mdec) (buf : bytes) : mres * mdec * bytes :=
  let '(hopt, st') :=
    match md_hint d with
    | Some h => (Some h, md_state d)
    | None => hint_consume (md_state d)
    end in
  match hopt with
  | None => (MNone, {| md_state := st'; md_buf := md_buf d; md_hint := None |}, buf)
  | Some h =>
    match h with
    | HMulti O => (MSome (OMulti []), {| md_state := st'; md_buf := md_buf d; md_hint := None |}, buf)
    | _ =>
      let '(r, acc', buf') := mloop (S (length buf)) h (md_buf d) buf in
      let hint' := match r with MSome _ => None | _ => Some h end in
      (r, {| md_state := st'; md_buf := acc'; md_hint := hint' |}, buf')
    end
  end.

(* decode called until None / Err: outputs, last result, decoder state, buffer *)
Fixpoint mdrain (fuel : nat) (d : mdec) (buf : bytes) : list omulti * mres * mdec * bytes :=
  match fuel with
  | O => ([], MFuel, d, buf)
  | S f =>
    match mdecode d buf with
    | (MSome o, d', buf') => let '(os, r, d'', buf'') := mdrain f d' buf' in (o :: os, r, d'', buf'')
    | (r, d', buf') => ([], r, d', buf')
    end
  end.

Definition mdrain_fuel (buf : bytes) : nat := (length buf + 3)%nat.

(* chunks appended one per read; the stream ends at the first result that is not None (its buffer is then unobservable) *)
Fixpoint mfeed_all (d : mdec) (buf : bytes) (chunks : list bytes) : list omulti * mres * mdec * bytes :=
  match chunks with
  | [] => ([], MNone, d, buf)
  | c :: cs =>
    let b := buf ++ c in
    match mdrain (mdrain_fuel b) d b with
    | (os, MNone, d', buf') => let '(os', r, d'', buf'') := mfeed_all d' buf' cs in (os ++ os', r, d'', buf'')
    | (os, r, d', _) => (os, r, d', [])
    end
  end.

(* ---------- well-formedness of values (the encoder's implicit precondition) ---------- *)

Fixpoint no_lf (b : bytes) : bool :=
  match b with
  | [] => true
  | c :: r => negb (N.eqb c c_LF) && no_lf r
  end.

Fixpoint rdepth (r : resp) : nat :=
  match r with
  | Arr l => S (fold_right (fun x acc => Nat.max (rdepth x) acc) O l)
  | ArrNil => 1
  | _ => 0
  end.

(* line payloads have no LF; lengths fit i64 (always true of a value that fits in memory) *)
Fixpoint wf (r : resp) : bool :=
  match r with
  | Simple s | Error s | Integer s => no_lf s
  | Bulk s => N.ltb (N.of_nat (length s)) 9223372036854775808
  | BulkNil | ArrNil => true
  | Arr l => N.ltb (N.of_nat (length l)) 9223372036854775808 && forallb wf l
  end.
