(* Model of the failure detection / failure handling half of the control plane (property C07, composing with C18 / C06).

   Mirrors, branch by branch (coordinator side):
     coordinator/core.rs      ParFailureDetector::run_impl / check_and_report      -> detect_round / detect_proxy
                              ParFailureHandler::run_impl (errors of one address are swallowed: or_else)  -> handle_round
     coordinator/detector.rs  PingFailureDetector::check_impl (at most three PING attempts; alive as soon as one is answered;
                              failed when the third attempt fails) and ::ping (a transport error is a failed attempt)
                              BrokerFailureReporter::report = add_failure(address, reporter_id)
                              BrokerProxiesRetriever (the listing; failed proxies are not listed)
     coordinator/recover.rs   BrokerProxyFailureRetriever = get_failures (the broker applies ttl and quorum),
                              ReplaceNodeHandler::handle_proxy_failure = replace_proxy(address) AND NOTHING ELSE: the handler
                              does not push metadata to the replacement; that is left to the meta-sync loop (Model/Ctrl.v)
     coordinator/service.rs   loop_detect / loop_failure_handler: one loop iteration = one round; reporter_id identifies
                              the coordinator
   The broker side is the REAL broker model: Broker.add_failure, Broker.get_failures, Broker.replace_failed_proxy (with its
   oracle choice of the replacement), Broker.add_proxy, Broker.step for every other operation.

   The event system (`fstep`) is the over-approximating environment: any coordinator may report any address at any time
   and as often as it likes, replace_proxy calls issued after a get_failures answer travel in a network where they can be
   delayed arbitrarily, dropped or duplicated, proxies go down and come back, the clock advances, proxies re-register,
   any other broker operation may happen.  The round functions compile the coordinator code with a scripted fault per
   call boundary to events of that system.

   Not modelled: real time (the clock is an explicit event), the HTTP layer, concurrency of the loops.
   Executable definitions only. *)
From UM Require Import Base.BytesDef Model.Ranges Model.Broker.
From UM Require Model.Ctrl.

Record fstate := {
  fs_store : store;
  fs_clock : Z;                        (* the broker's wall clock, seconds *)
  fs_down : list N;                    (* proxies that do not answer *)
  fs_net : list N;                     (* replace_proxy calls in flight (the failed address each carries) *)
  fs_auth : list (N * (store * Z));    (* ghost: every address a get_failures call answered, with the store and clock it was evaluated on *)
  fs_rlog : list (N * (N * Z));        (* ghost: every add_failure call (address, (reporter, clock)), newest first *)
  fs_done : list (N * option N);       (* replace_failed_proxy calls that were carried out: (failed address, replacement) *)
  fs_answers : list res                (* what the broker answered to each call, newest first *)
}.

Definition finit (s : store) : fstate :=
  {| fs_store := s; fs_clock := 0%Z; fs_down := []; fs_net := []; fs_auth := []; fs_rlog := []; fs_done := [];
     fs_answers := [] |}.

(* operations that are not failure bookkeeping, not registration and not Restore *)
Definition other_ok (o : op) : bool :=
  match o with
  | OAddProxy _ _ _ | ORemoveProxy _ | OReplaceFailed _ _ | OAddFailure _ _ _ | OGetFailures _ _ _
  | OCleanupFailures _ _ _ | ORestore _ => false
  | _ => true
  end.

Inductive fevent :=
| EProbe (c a : N) (ok : bool)          (* coordinator c PINGs proxy a and sees an answer (ok) or not; no state change *)
| EReport (c a : N)                     (* add_failure(a, c) reaches the broker *)
| EGetFailures (c : N)                  (* get_failures answered to c: a replace_proxy call for every listed address is on its way *)
| EReplace (i : nat) (choice : option N) (* the i-th in-flight replace_proxy call reaches the broker *)
| EDropCall (i : nat)
| EDupCall (i : nat)
| EDown (a : N)
| EUp (a : N)
| ETick (dt : N)
| ERegister (a : N) (h : option N) (i : option N)   (* add_proxy: first registration or a proxy coming back *)
| EOther (o : op).

Definition nmem (x : N) (l : list N) : bool := existsb (N.eqb x) l.

Section WithConfig.
Variable ttl : Z.
Variable quorum : N.

Definition with_store (st : fstate) (s : store) (ans : res) : fstate :=
  {| fs_store := s; fs_clock := fs_clock st; fs_down := fs_down st; fs_net := fs_net st; fs_auth := fs_auth st;
     fs_rlog := fs_rlog st; fs_done := fs_done st; fs_answers := ans :: fs_answers st |}.

Definition with_net (st : fstate) (net : list N) : fstate :=
  {| fs_store := fs_store st; fs_clock := fs_clock st; fs_down := fs_down st; fs_net := net; fs_auth := fs_auth st;
     fs_rlog := fs_rlog st; fs_done := fs_done st; fs_answers := fs_answers st |}.

Definition fstep (st : fstate) (ev : fevent) : fstate :=
  match ev with
  | EProbe _ _ _ => st
  | EReport c a =>
    let '(s', b) := add_failure (fs_store st) a c (fs_clock st) in
    {| fs_store := s'; fs_clock := fs_clock st; fs_down := fs_down st; fs_net := fs_net st; fs_auth := fs_auth st;
       fs_rlog := (a, (c, fs_clock st)) :: fs_rlog st; fs_done := fs_done st; fs_answers := RBool b :: fs_answers st |}
  | EGetFailures _ =>
    let '(s', l) := get_failures (fs_store st) (fs_clock st) ttl quorum in
    {| fs_store := s'; fs_clock := fs_clock st; fs_down := fs_down st; fs_net := fs_net st ++ l;
       fs_auth := map (fun a => (a, (fs_store st, fs_clock st))) l ++ fs_auth st;
       fs_rlog := fs_rlog st; fs_done := fs_done st; fs_answers := RList l :: fs_answers st |}
  | EReplace i choice =>
    match nth_error (fs_net st) i with
    | None => st
    | Some a =>
      let '(s', o) := replace_failed_proxy (fs_store st) a choice in
      {| fs_store := s'; fs_clock := fs_clock st; fs_down := fs_down st; fs_net := Ctrl.remove_nth i (fs_net st);
         fs_auth := fs_auth st; fs_rlog := fs_rlog st;
         fs_done := match o with Done r => (a, r) :: fs_done st | _ => fs_done st end;
         fs_answers := match o with Done r => RRepl r | Fail e => RErr e | Panic => RPanic end :: fs_answers st |}
    end
  | EDropCall i => with_net st (Ctrl.remove_nth i (fs_net st))
  | EDupCall i =>
    match nth_error (fs_net st) i with
    | None => st
    | Some a => with_net st (fs_net st ++ [a])
    end
  | EDown a =>
    {| fs_store := fs_store st; fs_clock := fs_clock st; fs_down := a :: fs_down st; fs_net := fs_net st;
       fs_auth := fs_auth st; fs_rlog := fs_rlog st; fs_done := fs_done st; fs_answers := fs_answers st |}
  | EUp a =>
    {| fs_store := fs_store st; fs_clock := fs_clock st; fs_down := filter (fun b => negb (N.eqb a b)) (fs_down st);
       fs_net := fs_net st; fs_auth := fs_auth st; fs_rlog := fs_rlog st; fs_done := fs_done st;
       fs_answers := fs_answers st |}
  | ETick dt =>
    {| fs_store := fs_store st; fs_clock := (fs_clock st + Z.of_N dt)%Z; fs_down := fs_down st; fs_net := fs_net st;
       fs_auth := fs_auth st; fs_rlog := fs_rlog st; fs_done := fs_done st; fs_answers := fs_answers st |}
  | ERegister a h i =>
    let '(s', r) := step (fs_store st) (OAddProxy a h i) in with_store st s' r
  | EOther o =>
    if other_ok o then let '(s', r) := step (fs_store st) o in with_store st s' r else st
  end.

Definition frun (evs : list fevent) (st : fstate) : fstate := fold_left fstep evs st.

(* ---------- the coordinator code, compiled to events under a fault script ---------- *)

Record fscript := {
  fc_fault : nat -> Ctrl.fault;            (* a delayed call is treated as lost in these rounds *)
  fc_choices : nat -> list (option N)      (* replacement chosen by the broker for each arrival of the replace call of boundary n *)
}.

Variable sc : fscript.

Definition answered (f : Ctrl.fault) : bool :=
  match f with Ctrl.FNone | Ctrl.FDup => true | _ => false end.

(* PingFailureDetector::check_impl: tries attempts left; returns events, next boundary, alive?, crashed? *)
Fixpoint probe_loop (tries : nat) (c a : N) (n : nat) (st : fstate) : list fevent * nat * bool * bool :=
  match tries with
  | O => ([], n, false, false)
  | S k =>
    match fc_fault sc n with
    | Ctrl.FCrash => ([EProbe c a false], S n, false, true)
    | f =>
      if answered f && negb (nmem a (fs_down st)) then ([EProbe c a true], S n, true, false)
      else let '(e, n', alive, cr) := probe_loop k c a (S n) st in (EProbe c a false :: e, n', alive, cr)
    end
  end.

(* check_and_report for one proxy *)
Definition detect_proxy (c a : N) (n : nat) (st : fstate) : list fevent * nat * bool :=
  let '(e, n1, alive, cr) := probe_loop 3 c a n st in
  if cr then (e, n1, true)
  else if alive then (e, n1, false)
  else
    match fc_fault sc n1 with
    | Ctrl.FNone | Ctrl.FNoReply => (e ++ [EReport c a], S n1, false)
    | Ctrl.FDup => (e ++ [EReport c a; EReport c a], S n1, false)
    | Ctrl.FDrop | Ctrl.FDelay => (e, S n1, false)
    | Ctrl.FCrash => (e ++ [EReport c a], S n1, true)
    end.

Fixpoint detect_from (c : N) (addrs : list N) (n : nat) (st : fstate) : list fevent * nat * bool :=
  match addrs with
  | [] => ([], n, false)
  | a :: r =>
    let '(e1, n1, cr1) := detect_proxy c a n st in
    if cr1 then (e1, n1, true)
    else let '(e2, n2, cr2) := detect_from c r n1 (frun e1 st) in (e1 ++ e2, n2, cr2)
  end.

(* boundary n is the listing (retrieve_proxies); addrs is what it answers *)
Definition detect_round (c : N) (addrs : list N) (n : nat) (st : fstate) : list fevent * nat * bool :=
  match fc_fault sc n with
  | Ctrl.FDrop | Ctrl.FDelay | Ctrl.FNoReply => ([], S n, false)
  | Ctrl.FCrash => ([], S n, true)
  | _ => detect_from c addrs (S n) st
  end.

(* the replace_proxy calls of one handling round, in the order of the get_failures answer; `i` is the position the
   handler's calls occupy in the network (each processed call leaves the next one at the same position) *)
Fixpoint handle_calls (k : nat) (i : nat) (n : nat) : list fevent * nat * bool :=
  match k with
  | O => ([], n, false)
  | S k' =>
    let ch j := nth j (fc_choices sc n) None in
    match fc_fault sc n with
    | Ctrl.FCrash => (EReplace i (ch O) :: repeat (EDropCall i) k', S n, true)
    | f =>
      let e := match f with
               | Ctrl.FNone | Ctrl.FNoReply => [EReplace i (ch O)]
               | Ctrl.FDup => [EDupCall i; EReplace i (ch O); EReplace (i + k') (ch 1%nat)]
               | _ => [EDropCall i]
               end in
      let '(e2, n2, cr) := handle_calls k' i (S n) in (e ++ e2, n2, cr)
    end
  end.

(* ParFailureHandler::run_impl: boundary n is get_failures *)
Definition handle_round (c : N) (n : nat) (st : fstate) : list fevent * nat * bool :=
  let k := length (snd (get_failures (fs_store st) (fs_clock st) ttl quorum)) in
  let i := length (fs_net st) in
  match fc_fault sc n with
  | Ctrl.FDrop | Ctrl.FDelay => ([], S n, false)
  | Ctrl.FNoReply => (EGetFailures c :: repeat (EDropCall i) k, S n, false)
  | Ctrl.FCrash => (EGetFailures c :: repeat (EDropCall i) k, S n, true)
  | _ => let '(e, n', cr) := handle_calls k i (S n) in (EGetFailures c :: e, n', cr)
  end.

End WithConfig.
