(* Model of transparent value compression in the proxy (property C20).
   Mirrors:
     proxy/command.rs   DataCmdType::from_cmd_name (string family; names are upper-cased, > 64 bytes => Others)
     proxy/compress.rs  CmdCompressor::try_compressing_cmd_ctx, compress_one_element, CmdReplyDecompressor::decompress
     proxy/reply.rs     DecompressCommitHandler::handle_task (decompression failure => nil bulk string)
     proxy/executor.rs  handle_data_cmd (MGET / MSET / MSETNX arms), handle_mget, handle_mset, handle_msetnx,
                        handle_single_key_data_cmd (mapping of compression errors to replies)
     common/config.rs   CompressionStrategy::from_str
   plus the storing stand-in for Redis used by harness/compress (function `backend`; its fidelity to Redis is trusted).
   zstd is abstract: section variables compress / decompress (the code calls zstd::encode_all(value, 1) and
   zstd::decode_all); there is no size threshold and no framing besides zstd's own.
   Not modelled: the same-slot test of MGET/MSET/MSETNX (cases use one hash tag), MSETNX split by slot (one slot),
   expiry (options are stored nowhere), the Debug-formatted tail of the two "unexpected reply from MSETNX" errors,
   zstd::encode_all failing (io error).  Executable definitions only. *)
From UM Require Import Base.BytesDef Base.Dec Base.RespT.

Definition n_GET : bytes := [71; 69; 84].
Definition n_GETSET : bytes := [71; 69; 84; 83; 69; 84].
Definition n_SET : bytes := [83; 69; 84].
Definition n_SETNX : bytes := [83; 69; 84; 78; 88].
Definition n_SETEX : bytes := [83; 69; 84; 69; 88].
Definition n_PSETEX : bytes := [80; 83; 69; 84; 69; 88].
Definition n_MSET : bytes := [77; 83; 69; 84].
Definition n_MSETNX : bytes := [77; 83; 69; 84; 78; 88].
Definition n_MGET : bytes := [77; 71; 69; 84].
Definition n_APPEND : bytes := [65; 80; 80; 69; 78; 68].
Definition n_BITCOUNT : bytes := [66; 73; 84; 67; 79; 85; 78; 84].
Definition n_BITFIELD : bytes := [66; 73; 84; 70; 73; 69; 76; 68].
Definition n_BITOP : bytes := [66; 73; 84; 79; 80].
Definition n_BITPOS : bytes := [66; 73; 84; 80; 79; 83].
Definition n_DECR : bytes := [68; 69; 67; 82].
Definition n_DECRBY : bytes := [68; 69; 67; 82; 66; 89].
Definition n_GETBIT : bytes := [71; 69; 84; 66; 73; 84].
Definition n_GETRANGE : bytes := [71; 69; 84; 82; 65; 78; 71; 69].
Definition n_INCR : bytes := [73; 78; 67; 82].
Definition n_INCRBY : bytes := [73; 78; 67; 82; 66; 89].
Definition n_INCRBYFLOAT : bytes := [73; 78; 67; 82; 66; 89; 70; 76; 79; 65; 84].
Definition n_SETBIT : bytes := [83; 69; 84; 66; 73; 84].
Definition n_SETRANGE : bytes := [83; 69; 84; 82; 65; 78; 71; 69].
Definition n_STRLEN : bytes := [83; 84; 82; 76; 69; 78].
Definition MSG_INVALID_CMD : bytes := [73; 110; 118; 97; 108; 105; 100; 32; 99; 111; 109; 109; 97; 110; 100].
Definition MSG_MULTI_SLOTS : bytes := [69; 82; 82; 95; 77; 85; 76; 84; 73; 95; 83; 76; 79; 84; 83; 32; 115; 108; 111; 116; 115; 32; 111; 102; 32; 116; 104; 101; 32; 107; 101; 121; 115; 32; 97; 114; 101; 32; 110; 111; 116; 32; 116; 104; 101; 32; 115; 97; 109; 101].
Definition n_SUBSTR : bytes := [83; 85; 66; 83; 84; 82].
Definition n_GETDEL : bytes := [71; 69; 84; 68; 69; 76].
Definition n_GETEX : bytes := [71; 69; 84; 69; 88].
Definition MSG_INVALID : bytes := [105; 110; 118; 97; 108; 105; 100; 32; 99; 111; 109; 109; 97; 110; 100].
Definition MSG_RESTRICTED : bytes := [117; 110; 115; 117; 112; 112; 111; 114; 116; 101; 100; 32; 115; 116; 114; 105; 110; 103; 32; 99; 111; 109; 109; 97; 110; 100; 32; 119; 104; 101; 110; 32; 99; 111; 109; 112; 114; 101; 115; 115; 105; 111; 110; 32; 105; 115; 32; 101; 110; 97; 98; 108; 101; 100].
Definition MSG_MGET_ARGS : bytes := [69; 82; 82; 32; 119; 114; 111; 110; 103; 32; 110; 117; 109; 98; 101; 114; 32; 111; 102; 32; 97; 114; 103; 117; 109; 101; 110; 116; 115; 32; 102; 111; 114; 32; 39; 109; 103; 101; 116; 39; 32; 99; 111; 109; 109; 97; 110; 100].
Definition MSG_MSET_ARGS : bytes := [69; 82; 82; 32; 119; 114; 111; 110; 103; 32; 110; 117; 109; 98; 101; 114; 32; 111; 102; 32; 97; 114; 103; 117; 109; 101; 110; 116; 115; 32; 102; 111; 114; 32; 39; 109; 115; 101; 116; 39; 32; 99; 111; 109; 109; 97; 110; 100].
Definition MSG_MSETNX_UNEXPECTED : bytes := [117; 110; 101; 120; 112; 101; 99; 116; 101; 100; 32; 114; 101; 112; 108; 121; 32; 102; 114; 111; 109; 32; 77; 83; 69; 84; 78; 88].
Definition MSG_BACKEND_ARGS : bytes := [69; 82; 82; 32; 119; 114; 111; 110; 103; 32; 110; 117; 109; 98; 101; 114; 32; 111; 102; 32; 97; 114; 103; 117; 109; 101; 110; 116; 115].
Definition MSG_BACKEND_UNKNOWN : bytes := [69; 82; 82; 32; 117; 110; 107; 110; 111; 119; 110; 32; 99; 111; 109; 109; 97; 110; 100].
Definition MSG_OK : bytes := [79; 75].
Definition s_disabled : bytes := [100; 105; 115; 97; 98; 108; 101; 100].
Definition s_set_get_only : bytes := [115; 101; 116; 95; 103; 101; 116; 95; 111; 110; 108; 121].
Definition s_allow_all : bytes := [97; 108; 108; 111; 119; 95; 97; 108; 108].

(* the string commands of docs/command_table.json / proxy/table.rs SUPPORTED_COMMANDS (22 entries) plus msetnx,
   which the executor handles although the table lists it as unsupported *)
Definition string_table : list bytes :=
  [[97; 112; 112; 101; 110; 100] (* append *);
   [98; 105; 116; 99; 111; 117; 110; 116] (* bitcount *);
   [98; 105; 116; 102; 105; 101; 108; 100] (* bitfield *);
   [98; 105; 116; 112; 111; 115] (* bitpos *);
   [100; 101; 99; 114] (* decr *);
   [100; 101; 99; 114; 98; 121] (* decrby *);
   [103; 101; 116] (* get *);
   [103; 101; 116; 98; 105; 116] (* getbit *);
   [103; 101; 116; 114; 97; 110; 103; 101] (* getrange *);
   [103; 101; 116; 115; 101; 116] (* getset *);
   [105; 110; 99; 114] (* incr *);
   [105; 110; 99; 114; 98; 121] (* incrby *);
   [105; 110; 99; 114; 98; 121; 102; 108; 111; 97; 116] (* incrbyfloat *);
   [109; 103; 101; 116] (* mget *);
   [109; 115; 101; 116] (* mset *);
   [109; 115; 101; 116; 110; 120] (* msetnx *);
   [112; 115; 101; 116; 101; 120] (* psetex *);
   [115; 101; 116] (* set *);
   [115; 101; 116; 98; 105; 116] (* setbit *);
   [115; 101; 116; 101; 120] (* setex *);
   [115; 101; 116; 110; 120] (* setnx *);
   [115; 101; 116; 114; 97; 110; 103; 101] (* setrange *);
   [115; 116; 114; 108; 101; 110] (* strlen *)].

Inductive strategy := Disabled | SetGetOnly | AllowAll.

Definition lower_byte (b : N) : N := if N.leb 65 b && N.leb b 90 then b + 32 else b.
Definition upper_byte (b : N) : N := if N.leb 97 b && N.leb b 122 then b - 32 else b.

(* CompressionStrategy::from_str *)
Definition parse_strategy (s : bytes) : option strategy :=
  let l := map lower_byte s in
  if bytes_eqb l s_disabled then Some Disabled
  else if bytes_eqb l s_set_get_only then Some SetGetOnly
  else if bytes_eqb l s_allow_all then Some AllowAll
  else None.

(* the part of DataCmdType this property depends on; TStrOther = the other string commands of the enum *)
Inductive dtype := TGet | TGetset | TSet | TSetnx | TSetex | TPsetex | TMset | TMsetnx | TMget | TStrOther | TOther.

Definition restricted_names : list bytes :=
  [n_APPEND; n_BITCOUNT; n_BITFIELD; n_BITOP; n_BITPOS; n_DECR; n_DECRBY; n_GETBIT; n_GETRANGE; n_INCR; n_INCRBY;
   n_INCRBYFLOAT; n_SETBIT; n_SETRANGE; n_STRLEN].

Definition cmd_type (name : bytes) : dtype :=
  if Nat.ltb 64 (length name) then TOther
  else
    let u := map upper_byte name in
    if bytes_eqb u n_GET then TGet
    else if bytes_eqb u n_GETSET then TGetset
    else if bytes_eqb u n_SET then TSet
    else if bytes_eqb u n_SETNX then TSetnx
    else if bytes_eqb u n_SETEX then TSetex
    else if bytes_eqb u n_PSETEX then TPsetex
    else if bytes_eqb u n_MSET then TMset
    else if bytes_eqb u n_MSETNX then TMsetnx
    else if bytes_eqb u n_MGET then TMget
    else if existsb (bytes_eqb u) restricted_names then TStrOther
    else TOther.

Definition cmd := list bytes.
Definition cmd_dtype (c : cmd) : dtype := match c with [] => TOther | name :: _ => cmd_type name end.

(* outcome of try_compressing_cmd_ctx as seen by handle_single_key_data_cmd:
   CForward c' = the command goes on to the backend (Ok, Disabled, UnsupportedCmdType) *)
Inductive cresult := CForward (c : cmd) | CInvalid | CRestricted.

Fixpoint replace_nth (i : nat) (x : bytes) (l : cmd) : cmd :=
  match l, i with
  | [], _ => []
  | _ :: r, O => x :: r
  | y :: r, S j => y :: replace_nth j x r
  end.

Section Zstd.
Variable compress : bytes -> bytes.
Variable decompress : bytes -> option bytes.

(* compress_one_element *)
Definition compress_one (c : cmd) (i : nat) : cresult :=
  match nth_error c i with
  | None => CInvalid
  | Some v => CForward (replace_nth i (compress v) c)
  end.

(* the loop over (2..len).step_by(2): c = the elements after the command name; every index exists, so
   compress_one_element cannot fail there *)
Fixpoint compress_pairs (c : list bytes) : list bytes :=
  match c with
  | k :: v :: r => k :: compress v :: compress_pairs r
  | other => other
  end.

Definition compress_cmd (s : strategy) (c : cmd) : cresult :=
  match s with
  | Disabled => CForward c
  | _ =>
    match c with
    | [] => CForward c
    | name :: rest =>
      match cmd_type name with
      | TGetset | TSet | TSetnx => compress_one c 2
      | TPsetex | TSetex => compress_one c 3
      | TMset | TMsetnx => CForward (name :: compress_pairs rest)
      | TStrOther | TMget => match s with SetGetOnly => CRestricted | _ => CForward c end
      | TGet | TOther => CForward c
      end
    end
  end.

Fixpoint decompress_all (l : list resp) : option (list resp) :=
  match l with
  | [] => Some []
  | Bulk b :: r => match decompress b, decompress_all r with
                   | Some v, Some r' => Some (Bulk v :: r')
                   | _, _ => None
                   end
  | x :: r => match decompress_all r with Some r' => Some (x :: r') | None => None end
  end.

(* CmdReplyDecompressor::decompress + DecompressCommitHandler: a failure becomes a nil bulk string *)
Definition decompress_reply (s : strategy) (t : dtype) (r : resp) : resp :=
  match s with
  | Disabled => r
  | _ =>
    match t with
    | TGet | TGetset =>
        match r with
        | Bulk b => match decompress b with Some v => Bulk v | None => BulkNil end
        | _ => r
        end
    | TMget =>
        match r with
        | Arr l => match decompress_all l with Some l' => Arr l' | None => BulkNil end
        | _ => r
        end
    | _ => r
    end
  end.

(* ---------- the storing stand-in for Redis ---------- *)
Definition store := list (bytes * bytes).

Fixpoint lookup (k : bytes) (st : store) : option bytes :=
  match st with
  | [] => None
  | (k', v) :: r => if bytes_eqb k' k then Some v else lookup k r
  end.

Fixpoint set_key (k v : bytes) (st : store) : store :=
  match st with
  | [] => [(k, v)]
  | (k', v') :: r => if bytes_eqb k' k then (k', v) :: r else (k', v') :: set_key k v r
  end.

Definition get_reply (st : store) (k : bytes) : resp :=
  match lookup k st with Some v => Bulk v | None => BulkNil end.

Fixpoint pairs_of (args : list bytes) : option (list (bytes * bytes)) :=
  match args with
  | [] => Some []
  | k :: v :: r => match pairs_of r with Some p => Some ((k, v) :: p) | None => None end
  | [_] => None
  end.

Definition set_all (ps : list (bytes * bytes)) (st : store) : store :=
  fold_left (fun s kv => set_key (fst kv) (snd kv) s) ps st.

Definition is_some {A} (o : option A) : bool := match o with Some _ => true | None => false end.

Definition arity_err : resp := Error MSG_BACKEND_ARGS.

Definition backend (st : store) (c : cmd) : store * resp :=
  match c with
  | [] => (st, Error MSG_BACKEND_UNKNOWN)
  | name :: args =>
    match cmd_type name with
    | TGet => match args with [k] => (st, get_reply st k) | _ => (st, arity_err) end
    | TSet => match args with k :: v :: _ => (set_key k v st, Simple MSG_OK) | _ => (st, arity_err) end
    | TSetnx => match args with
                | [k; v] => if is_some (lookup k st) then (st, Integer [48]) else (set_key k v st, Integer [49])
                | _ => (st, arity_err)
                end
    | TSetex | TPsetex => match args with [k; _; v] => (set_key k v st, Simple MSG_OK) | _ => (st, arity_err) end
    | TGetset => match args with [k; v] => (set_key k v st, get_reply st k) | _ => (st, arity_err) end
    | TMset => match pairs_of args with
               | Some (p :: ps) => (set_all (p :: ps) st, Simple MSG_OK)
               | _ => (st, arity_err)
               end
    | TMsetnx => match pairs_of args with
                 | Some (p :: ps) =>
                     if existsb (fun kv => is_some (lookup (fst kv) st)) (p :: ps) then (st, Integer [48])
                     else (set_all (p :: ps) st, Integer [49])
                 | _ => (st, arity_err)
                 end
    | TMget => match args with [] => (st, arity_err) | _ => (st, Arr (map (get_reply st) args)) end
    | TStrOther =>
        let u := map upper_byte name in
        if bytes_eqb u n_STRLEN then
          match args with
          | [k] => (st, Integer (to_dec (N.of_nat (length (match lookup k st with Some v => v | None => [] end)))))
          | _ => (st, arity_err)
          end
        else if bytes_eqb u n_APPEND then
          match args with
          | [k; v] => let nv := (match lookup k st with Some o => o | None => [] end) ++ v in
                      (set_key k nv st, Integer (to_dec (N.of_nat (length nv))))
          | _ => (st, arity_err)
          end
        else (st, Error MSG_BACKEND_UNKNOWN)
    | TOther => (st, Error MSG_BACKEND_UNKNOWN)
    end
  end.

(* ---------- the executor ---------- *)

(* handle_single_key_data_cmd + the backend + the reply handler *)
Definition single (s : strategy) (st : store) (c : cmd) : store * resp :=
  match compress_cmd s c with
  | CInvalid => (st, Error MSG_INVALID)
  | CRestricted => (st, Error MSG_RESTRICTED)
  | CForward c' => let (st', r) := backend st c' in (st', decompress_reply s (cmd_dtype c) r)
  end.

Definition is_error (r : resp) : bool := match r with Error _ => true | _ => false end.

Fixpoint first_error (l : list resp) : option resp :=
  match l with
  | [] => None
  | r :: t => if is_error r then Some r else first_error t
  end.

(* handle_mget: one GET per key, all sent before any reply is awaited *)
Fixpoint mget_loop (s : strategy) (st : store) (keys : list bytes) : store * list resp :=
  match keys with
  | [] => (st, [])
  | k :: r => let (st1, rep) := single s st [n_GET; k] in
              let (st2, reps) := mget_loop s st1 r in (st2, rep :: reps)
  end.

Definition exec_mget (s : strategy) (st : store) (keys : list bytes) : store * resp :=
  match keys with
  | [] => (st, Error MSG_MGET_ARGS)
  | _ => let (st', reps) := mget_loop s st keys in
         match first_error reps with
         | Some e => (st', e)
         | None => (st', Arr reps)
         end
  end.

(* handle_mset: one SET per pair, each sent as soon as it is built; a key without value stops the loop with an error
   after the earlier pairs have already been sent. Returns None for that case. *)
Fixpoint mset_loop (s : strategy) (st : store) (args : list bytes) : store * option (list resp) :=
  match args with
  | [] => (st, Some [])
  | [_] => (st, None)
  | k :: v :: r => let (st1, rep) := single s st [n_SET; k; v] in
                   let (st2, reps) := mset_loop s st1 r in
                   (st2, match reps with Some l => Some (rep :: l) | None => None end)
  end.

Definition exec_mset (s : strategy) (st : store) (args : list bytes) : store * resp :=
  let (st', reps) := mset_loop s st args in
  match reps with
  | None => (st', Error MSG_MSET_ARGS)
  | Some [] => (st', Error MSG_MSET_ARGS)
  | Some l => match first_error l with
              | Some e => (st', e)
              | None => (st', Simple MSG_OK)
              end
  end.

(* handle_msetnx (all keys in one slot): nothing is sent when a value is missing *)
Definition exec_msetnx (s : strategy) (st : store) (args : list bytes) : store * resp :=
  match pairs_of args with
  | None => (st, Error MSG_MSET_ARGS)
  | Some [] => (st, Error MSG_MSET_ARGS)
  | Some _ =>
      let (st', rep) := single s st (n_MSETNX :: args) in
      match rep with
      | Error e => (st', Error e)
      | Integer d => match btou u64_max d with
                     | Some n => (st', Integer (to_dec n))
                     | None => (st', Error MSG_MSETNX_UNEXPECTED)
                     end
      | _ => (st', Error MSG_MSETNX_UNEXPECTED)
      end
  end.

(* handle_data_cmd.  The proxy of the harness runs with active_redirection = false, so MGET / MSET / MSETNX first test
   same_slot over their keys: same_slot of no key at all is false (the "wrong number of arguments" branches for an
   empty key list are therefore unreachable in this configuration); cases with keys use one hash tag. *)
Definition exec (s : strategy) (st : store) (c : cmd) : store * resp :=
  match c with
  | [] => (st, Error MSG_INVALID_CMD)
  | name :: args =>
    match cmd_type name with
    | TMget => match args with [] => (st, Error MSG_MULTI_SLOTS) | _ => exec_mget s st args end
    | TMset => match args with [] => (st, Error MSG_MULTI_SLOTS) | _ => exec_mset s st args end
    | TMsetnx => match args with [] => (st, Error MSG_MULTI_SLOTS) | _ => exec_msetnx s st args end
    | _ => single s st c
    end
  end.

Fixpoint exec_all (s : strategy) (st : store) (cs : list cmd) : store * list resp :=
  match cs with
  | [] => (st, [])
  | c :: r => let (st1, rep) := exec s st c in
              let (st2, reps) := exec_all s st1 r in (st2, rep :: reps)
  end.

End Zstd.
