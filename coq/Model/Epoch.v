(* Model of the epoch rule of a proxy's two metadata kinds (property C05).
   Mirrors, branch by branch:
     common/utils.rs        extract_host_from_address, has_flags, bytes_ascii_case_insensitive_eq
     common/proto.rs        ClusterMapFlags::from_arg (FORCE), NodeMap::check_hosts
     proxy/manager.rs       MetaManager::set_meta (host check, mutex, `epoch <= installed && !force`, install
                            meta_map then epoch), MetaManager::get_epoch
     replication/manager.rs ReplicatorManager::update_replicators (host checks over masters then replicas, the
                            optimistic `updating_epoch` check and store, the reuse rule for existing replicators,
                            the compare + install under the write lock, the correcting store on a late reject),
                            get_metadata (which roles are installed)
     proxy/executor.rs      handle_umctl_set_cluster / handle_umctl_setrepl (mapping of the three outcomes to replies)
   Not modelled: parsing of the argument list (Wire model), the slot map / migration tasks built from an accepted
   cluster message (a message's content is an identifier plus the address it designates for a probe key), what the
   spawned replicators do.  Executable definitions only. *)
From UM Require Import Base.BytesDef.

(* ---------- common/utils.rs ---------- *)

(* extract_host_from_address: address.splitn(2, ':'); the host is what precedes the first ':'; None without ':' *)
Fixpoint extract_host (a : bytes) : option bytes :=
  match a with
  | [] => None
  | c :: r => if N.eqb c c_colon then Some []
              else match extract_host r with
                   | Some h => Some (c :: h)
                   | None => None
                   end
  end.

(* one byte pair of bytes_ascii_case_insensitive_eq (u8 arithmetic; the right-hand side is a flag constant < 224,
   so `b + DELTA` cannot overflow there) *)
Definition ci_eq_byte (a b : N) : bool :=
  if N.eqb a b then true
  else if (N.leb 97 a && N.leb a 122) && N.eqb a (b + 32) then true
  else if (N.leb 65 a && N.leb a 90) && N.eqb (a + 32) b then true
  else false.

Fixpoint ci_eq (l r : bytes) : bool :=
  match l, r with
  | [], [] => true
  | a :: l', b :: r' => ci_eq_byte a b && ci_eq l' r'
  | _, _ => false
  end.

(* str::split(delimiter): "" yields one empty piece *)
Fixpoint split_on (d : N) (s : bytes) : list bytes :=
  match s with
  | [] => [[]]
  | c :: r => if N.eqb c d then [] :: split_on d r
              else match split_on d r with
                   | p :: ps => (c :: p) :: ps
                   | [] => [[c]]
                   end
  end.

Definition has_flags (s : bytes) (flag : bytes) : bool :=
  existsb (fun p => ci_eq p flag) (split_on 44 s).

Definition FORCE : bytes := [70; 79; 82; 67; 69].
Definition flag_force (flags : bytes) : bool := has_flags flags FORCE.

(* NodeMap::check_hosts / the two validation loops of update_replicators: every address must have a host part and
   it must equal the proxy's announce host *)
Definition host_is (h : bytes) (a : bytes) : bool :=
  match extract_host a with
  | Some x => bytes_eqb x h
  | None => false
  end.

Definition hosts_ok (h : bytes) (addrs : list bytes) : bool := forallb (host_is h) addrs.

(* ---------- messages and state ---------- *)

(* UMCTL SETCLUSTER: epoch, raw flags token, addresses of the local nodes (keys of the `local` map), an identifier of
   the whole content and the node address that content designates for the probe key *)
Record cl_msg := { cm_epoch : N; cm_flags : bytes; cm_locals : list bytes; cm_content : N; cm_route : bytes }.

(* UMCTL SETREPL: a master / replica record = cluster name, node address, identifier of its peer list *)
Record rnode := { rn_cluster : bytes; rn_addr : bytes; rn_peers : N }.
Record rp_msg := { rm_epoch : N; rm_flags : bytes; rm_masters : list rnode; rm_replicas : list rnode }.

Inductive role := RMaster | RReplica.
Definition rkey := (bytes * bytes)%type.                 (* (cluster name, node address): key of ReplicatorMap *)
Definition roles := list (rkey * (role * N)).

Record pstate := { cl_epoch : N; cl_meta : option (N * bytes);
                   rp_updating : N; rp_epoch : N; rp_roles : roles }.

Definition ps_init : pstate :=
  {| cl_epoch := 0; cl_meta := None; rp_updating := 0; rp_epoch := 0; rp_roles := [] |}.

Inductive reply := OK | OLD_EPOCH | NOT_MY_META.

(* ---------- MetaManager::set_meta ---------- *)

Definition set_cluster (h : bytes) (s : pstate) (m : cl_msg) : pstate * reply :=
  if negb (hosts_ok h (cm_locals m)) then (s, NOT_MY_META)
  else if N.leb (cm_epoch m) (cl_epoch s) && negb (flag_force (cm_flags m)) then (s, OLD_EPOCH)
  else ({| cl_epoch := cm_epoch m; cl_meta := Some (cm_content m, cm_route m);
           rp_updating := rp_updating s; rp_epoch := rp_epoch s; rp_roles := rp_roles s |}, OK).

(* ---------- ReplicatorManager::update_replicators: which replicators end up installed ---------- *)

Definition rkey_eqb (a b : rkey) : bool := bytes_eqb (fst a) (fst b) && bytes_eqb (snd a) (snd b).
Definition node_key (n : rnode) : rkey := (rn_cluster n, rn_addr n).

(* master_key_set / replica_key_set / new_masters / new_replicas are HashMaps filled in list order: the last record
   with a key wins *)
Fixpoint last_meta (k : rkey) (l : list rnode) : option N :=
  match l with
  | [] => None
  | n :: r => match last_meta k r with
              | Some p => Some p
              | None => if rkey_eqb (node_key n) k then Some (rn_peers n) else None
              end
  end.

Fixpoint lookup_role (k : rkey) (rs : roles) : option (role * N) :=
  match rs with
  | [] => None
  | (k', v) :: r => if rkey_eqb k' k then Some v else lookup_role k r
  end.

Definition opt_N_eqb (a : option N) (b : N) : bool :=
  match a with Some x => N.eqb x b | None => false end.

(* "Add existing replicators": an existing record is kept when the message lists the same key with the same role
   and an equal meta *)
Definition reused (old : roles) (m : rp_msg) (k : rkey) : option (role * N) :=
  match lookup_role k old with
  | Some (RMaster, p) => if opt_N_eqb (last_meta k (rm_masters m)) p then Some (RMaster, p) else None
  | Some (RReplica, p) => if opt_N_eqb (last_meta k (rm_replicas m)) p then Some (RReplica, p) else None
  | None => None
  end.

(* final record of key k: reused record, else the new replica (inserted after the new masters, so it overwrites),
   else the new master *)
Definition decide (old : roles) (m : rp_msg) (k : rkey) : option (role * N) :=
  match reused old m k with
  | Some r => Some r
  | None => match last_meta k (rm_replicas m) with
            | Some p => Some (RReplica, p)
            | None => match last_meta k (rm_masters m) with
                      | Some p => Some (RMaster, p)
                      | None => None
                      end
            end
  end.

Fixpoint dedup_keys (l : list rkey) : list rkey :=
  match l with
  | [] => []
  | k :: r => if existsb (rkey_eqb k) r then dedup_keys r else k :: dedup_keys r
  end.

Definition msg_keys (m : rp_msg) : list rkey :=
  dedup_keys (map node_key (rm_masters m) ++ map node_key (rm_replicas m)).

Definition new_roles (old : roles) (m : rp_msg) : roles :=
  flat_map (fun k => match decide old m k with Some r => [(k, r)] | None => [] end) (msg_keys m).

(* what a message installs on a proxy without replicators *)
Definition roles_of (m : rp_msg) : roles := new_roles [] m.

(* no (cluster, address) is listed both as a master and as a replica *)
Definition rp_wf (m : rp_msg) : bool :=
  forallb (fun n => negb (existsb (fun r => rkey_eqb (node_key n) (node_key r)) (rm_replicas m))) (rm_masters m).

Definition repl_hosts_ok (h : bytes) (m : rp_msg) : bool :=
  hosts_ok h (map rn_addr (rm_masters m)) && hosts_ok h (map rn_addr (rm_replicas m)).

(* ---------- update_replicators, executed by one caller alone ---------- *)

Definition set_repl (h : bytes) (s : pstate) (m : rp_msg) : pstate * reply :=
  if negb (repl_hosts_ok h m) then (s, NOT_MY_META)
  else
    let force := flag_force (rm_flags m) in
    if negb force && N.leb (rm_epoch m) (rp_updating s) then (s, OLD_EPOCH)
    else
      (* updating_epoch.store(epoch) *)
      if negb force && N.leb (rm_epoch m) (rp_epoch s)
      then (* late reject: updating_epoch.store(replicators.0) *)
        ({| cl_epoch := cl_epoch s; cl_meta := cl_meta s;
            rp_updating := rp_epoch s; rp_epoch := rp_epoch s; rp_roles := rp_roles s |}, OLD_EPOCH)
      else
        ({| cl_epoch := cl_epoch s; cl_meta := cl_meta s;
            rp_updating := rm_epoch m; rp_epoch := rm_epoch m; rp_roles := new_roles (rp_roles s) m |}, OK).

(* ---------- both kinds ---------- *)

Inductive msg := MCluster (m : cl_msg) | MRepl (m : rp_msg).

Definition apply_msg (h : bytes) (s : pstate) (m : msg) : pstate * reply :=
  match m with
  | MCluster c => set_cluster h s c
  | MRepl r => set_repl h s r
  end.

Fixpoint run_msgs (h : bytes) (s : pstate) (ms : list msg) : pstate * list reply :=
  match ms with
  | [] => (s, [])
  | m :: r => let (s1, rep) := apply_msg h s m in
              let (s2, reps) := run_msgs h s1 r in (s2, rep :: reps)
  end.

(* the last accepted message of each kind along a run (acc = the one before the run) *)
Fixpoint last_ok_cluster (h : bytes) (s : pstate) (ms : list msg) (acc : option cl_msg) : option cl_msg :=
  match ms with
  | [] => acc
  | m :: r => let (s1, rep) := apply_msg h s m in
              last_ok_cluster h s1 r (match m, rep with MCluster c, OK => Some c | _, _ => acc end)
  end.

Fixpoint last_ok_repl (h : bytes) (s : pstate) (ms : list msg) (acc : option rp_msg) : option rp_msg :=
  match ms with
  | [] => acc
  | m :: r => let (s1, rep) := apply_msg h s m in
              last_ok_repl h s1 r (match m, rep with MRepl c, OK => Some c | _, _ => acc end)
  end.

(* ---------- small-step model of update_replicators under concurrency ----------
   Shared memory: updating_epoch (atomic), replicators = (epoch, map) behind an RwLock.  Atomic actions of one call:
     PHost   the two validation loops (thread-local)
     PLoad   updating_epoch.load() and the early `!force && updating >= epoch` test
     PStore  updating_epoch.store(epoch)
     PSnap   replicators.read(): snapshot of the installed map used for the reuse rule (needs the lock free)
     PLock   replicators.write(): compare; on success `*replicators = (epoch, new)` and release in the same action
             (only lock holders write, so compare + install is one action); on failure the lock stays held ...
     PLate   ... until updating_epoch.store(replicators.0) has been done, then release
   g_hist is a ghost list of every epoch that has ever been installed. *)

Inductive rreply := R_OK | R_OLD_EARLY | R_OLD_LATE | R_NOT_MY_META.

Inductive pc :=
| PHost | PLoad | PStore | PSnap
| PLock (snap : roles)
| PLate (v : N)
| PDone (r : rreply).

Record thread := { t_msg : rp_msg; t_pc : pc }.

Record gstate := { g_updating : N; g_epoch : N; g_roles : roles; g_locked : bool; g_hist : list N }.

Definition g_init (e : N) (r : roles) : gstate :=
  {| g_updating := e; g_epoch := e; g_roles := r; g_locked := false; g_hist := [e] |}.

Definition tstep (h : bytes) (g : gstate) (t : thread) : option (gstate * thread) :=
  let m := t_msg t in
  let force := flag_force (rm_flags m) in
  match t_pc t with
  | PHost =>
      Some (g, {| t_msg := m; t_pc := if repl_hosts_ok h m then PLoad else PDone R_NOT_MY_META |})
  | PLoad =>
      Some (g, {| t_msg := m;
                  t_pc := if negb force && N.leb (rm_epoch m) (g_updating g) then PDone R_OLD_EARLY else PStore |})
  | PStore =>
      Some ({| g_updating := rm_epoch m; g_epoch := g_epoch g; g_roles := g_roles g;
               g_locked := g_locked g; g_hist := g_hist g |},
            {| t_msg := m; t_pc := PSnap |})
  | PSnap =>
      if g_locked g then None
      else Some (g, {| t_msg := m; t_pc := PLock (g_roles g) |})
  | PLock snap =>
      if g_locked g then None
      else if negb force && N.leb (rm_epoch m) (g_epoch g)
      then Some ({| g_updating := g_updating g; g_epoch := g_epoch g; g_roles := g_roles g;
                    g_locked := true; g_hist := g_hist g |},
                 {| t_msg := m; t_pc := PLate (g_epoch g) |})
      else Some ({| g_updating := g_updating g; g_epoch := rm_epoch m; g_roles := new_roles snap m;
                    g_locked := false; g_hist := rm_epoch m :: g_hist g |},
                 {| t_msg := m; t_pc := PDone R_OK |})
  | PLate v =>
      Some ({| g_updating := v; g_epoch := g_epoch g; g_roles := g_roles g;
               g_locked := false; g_hist := g_hist g |},
            {| t_msg := m; t_pc := PDone R_OLD_LATE |})
  | PDone _ => None
  end.

(* replace the i-th element *)
Fixpoint set_nth {A} (i : nat) (x : A) (l : list A) : list A :=
  match l, i with
  | [], _ => []
  | _ :: r, O => x :: r
  | y :: r, S j => y :: set_nth j x r
  end.

(* run a schedule: a list of thread indices; an index whose thread cannot move is skipped *)
Fixpoint run_sched (h : bytes) (g : gstate) (pool : list thread) (sched : list nat) : gstate * list thread :=
  match sched with
  | [] => (g, pool)
  | i :: r => match nth_error pool i with
              | Some t => match tstep h g t with
                          | Some (g', t') => run_sched h g' (set_nth i t' pool) r
                          | None => run_sched h g pool r
                          end
              | None => run_sched h g pool r
              end
  end.

Definition start_pool (ms : list rp_msg) : list thread := map (fun m => {| t_msg := m; t_pc := PHost |}) ms.

(* one caller alone: six actions reach PDone *)
Definition solo_sched : list nat := [O; O; O; O; O; O].

Definition reply_of_rreply (r : rreply) : reply :=
  match r with
  | R_OK => OK
  | R_OLD_EARLY => OLD_EPOCH
  | R_OLD_LATE => OLD_EPOCH
  | R_NOT_MY_META => NOT_MY_META
  end.

(* ---------- small-step model of set_meta: host check, then under the mutex compare, meta_map.store, epoch.store.
   GETEPOCH and routing read `epoch` and `meta_map` without the mutex, so the two stores are separate actions. *)

Inductive cpc := CHost | CLock | CEpoch | CDone (r : reply).
Record cthread := { ct_msg : cl_msg; ct_pc : cpc }.
Record cgstate := { cg_epoch : N; cg_meta : option (N * bytes); cg_meta_epoch : N; cg_locked : bool;
                    cg_log : list cl_msg }.
(* cg_meta_epoch: ghost, the epoch of the message whose content is in cg_meta; cg_log: ghost, messages in the order
   in which they took the mutex (latest first) *)

Definition ctstep (h : bytes) (g : cgstate) (t : cthread) : option (cgstate * cthread) :=
  let m := ct_msg t in
  match ct_pc t with
  | CHost => Some (g, {| ct_msg := m; ct_pc := if hosts_ok h (cm_locals m) then CLock else CDone NOT_MY_META |})
  | CLock =>
      if cg_locked g then None
      else if N.leb (cm_epoch m) (cg_epoch g) && negb (flag_force (cm_flags m))
      then Some ({| cg_epoch := cg_epoch g; cg_meta := cg_meta g; cg_meta_epoch := cg_meta_epoch g;
                    cg_locked := false; cg_log := m :: cg_log g |},
                 {| ct_msg := m; ct_pc := CDone OLD_EPOCH |})
      else Some ({| cg_epoch := cg_epoch g; cg_meta := Some (cm_content m, cm_route m); cg_meta_epoch := cm_epoch m;
                    cg_locked := true; cg_log := m :: cg_log g |},
                 {| ct_msg := m; ct_pc := CEpoch |})
  | CEpoch =>
      Some ({| cg_epoch := cm_epoch m; cg_meta := cg_meta g; cg_meta_epoch := cg_meta_epoch g;
               cg_locked := false; cg_log := cg_log g |},
            {| ct_msg := m; ct_pc := CDone OK |})
  | CDone _ => None
  end.
