(* Model of the control plane (property C07, reconvergence half of C13): stateless coordinators pushing broker views
   to proxies over a faulty network.

   Mirrors, branch by branch (coordinator side):
     coordinator/core.rs      ProxyMetaRespSynchronizer::run_impl / retrieve_and_send_meta   -> meta_round / sync_proxy
                              ParMigrationStateSynchronizer::run_impl / check_and_sync /
                              sync_migration_state / set_cluster_meta                         -> mig_round / check_and_sync /
                                                                                                 sync_migration (dst, then src)
     coordinator/sync.rs      ProxyMetaRespSender::send_meta_impl (SETREPL, then SETCLUSTER, `?` after each),
                              send_meta (OK and OLD_EPOCH are both success; a transport error aborts the send),
                              BrokerMetaRetriever::get_proxy_meta (None = proxy unknown = nothing sent)
     coordinator/migration.rs MigrationStateRespChecker::check_impl (INFOMGR; an error aborts this proxy),
                              BrokerMigrationCommitter::commit
     coordinator/http_mani_broker.rs commit_migration_impl: HTTP 200 and 404 are both Ok (so MIGRATION_TASK_NOT_FOUND lets
                              the round go on to push dst then src); other failures abort this proxy's stream
     coordinator/service.rs   loop_proxy_sync / loop_migration_sync: one loop iteration = one round; nothing survives a round
   (proxy side)
     proxy/manager.rs         MetaManager::set_meta: `epoch <= installed && !force` => OLD_EPOCH, else install; the coordinator
                              never sets FORCE and always addresses the proxy that owns the nodes, so only that branch pair is
                              here (Model/Epoch.v has the full rule, property C05)
     replication/manager.rs   update_replicators: same rule on the replication epoch
   (broker side, abstracted)
     broker/migrate.rs        commit_migration: a task is found by (range list, epoch) among the migrating entries; a second commit
                              of the same task finds nothing (MigrationTaskNotFound) and changes nothing; a successful one sets a
                              freshly bumped epoch.  Here: `pending` is the set of task keys, Commit removes the key and advances
                              the broker time.
     the served views         `served : time -> addr -> option (epoch * content)`; `content` is an opaque identifier of everything
                              but the epoch.  Nothing else about the broker is in this model; theorems assume only C04's facts.

   The event system (`step`) is the over-approximating environment: any number of coordinators, calls delivered in any
   order, dropped, duplicated, delayed, coordinators crashing between two outgoing calls, proxies restarting, the broker
   advancing.  The round functions compile the coordinator code, together with a scripted fault at each call boundary,
   to events of that system, so every theorem about arbitrary event sequences applies to them.

   Not modelled: the four loops running concurrently inside one coordinator (join_all over a batch of ten proxies is
   taken in list order, which is what happens when no call is ever pending), timers, the HTTP layer, the failure
   detector / handler rounds (here they only add broker operations: BrokerAdvance; they are modelled in Model/CtrlFail.v).
   Executable definitions only. *)
From UM Require Import Base.BytesDef.

Definition addr := N.
Definition coord := N.

Inductive kind := KRepl | KCluster.

Definition kind_eqb (a b : kind) : bool :=
  match a, b with KRepl, KRepl => true | KCluster, KCluster => true | _, _ => false end.

(* an outgoing UMCTL SETREPL / SETCLUSTER call.  c_time (the broker time at which the carried view was read) and c_tag
   (a name given by the issuer, used by drivers to refer to a held call) are ghost fields: no transition looks at them *)
Record call := { c_tag : N; c_to : addr; c_kind : kind; c_epoch : N; c_content : N; c_time : nat }.

(* what a proxy holds for one kind of metadata *)
Record kstate := { k_epoch : N; k_content : N }.
Record pstate := { p_repl : kstate; p_cluster : kstate }.

Definition ks_init : kstate := {| k_epoch := 0; k_content := 0 |}.
Definition ps_init : pstate := {| p_repl := ks_init; p_cluster := ks_init |}.

Inductive reply := OK | OLD_EPOCH.

(* MetaManager::set_meta / update_replicators, non-forced message *)
Definition accept (s : kstate) (e c : N) : kstate * reply :=
  if N.leb e (k_epoch s) then (s, OLD_EPOCH) else ({| k_epoch := e; k_content := c |}, OK).

Definition pget (p : pstate) (k : kind) : kstate :=
  match k with KRepl => p_repl p | KCluster => p_cluster p end.

Definition pset (p : pstate) (k : kind) (s : kstate) : pstate :=
  match k with
  | KRepl => {| p_repl := s; p_cluster := p_cluster p |}
  | KCluster => {| p_repl := p_repl p; p_cluster := s |}
  end.

Definition deliver_to (p : pstate) (c : call) : pstate * reply :=
  let '(s, r) := accept (pget p (c_kind c)) (c_epoch c) (c_content c) in (pset p (c_kind c) s, r).

(* a finished migration as a proxy reports it: task key and the two proxy addresses written in the report *)
Record mig := { m_id : N; m_src : addr; m_dst : addr }.

Record state := {
  now : nat;                        (* broker time: number of broker changes so far *)
  proxies : list (addr * pstate);   (* newest binding first; an address without binding holds ps_init *)
  queue : list (coord * call);      (* fetched by a coordinator, not yet issued *)
  net : list call;                  (* in flight *)
  pending : list N;                 (* keys of the migrations the broker has not committed *)
  started : list N;                 (* every key ever created *)
  commits : list N;                 (* keys of the successful commits, newest first *)
  dlog : list (call * reply);       (* delivered calls with the proxy's reply, newest first *)
  rlog : list (addr * mig)          (* INFOMGR reports, newest first *)
}.

Definition init : state :=
  {| now := O; proxies := []; queue := []; net := []; pending := []; started := []; commits := [];
     dlog := []; rlog := [] |}.

Fixpoint lookup (ps : list (addr * pstate)) (a : addr) : pstate :=
  match ps with
  | [] => ps_init
  | (b, p) :: r => if N.eqb a b then p else lookup r a
  end.

Definition installed (st : state) (a : addr) (k : kind) : kstate := pget (lookup (proxies st) a) k.

Fixpoint remove_nth {A} (i : nat) (l : list A) : list A :=
  match l, i with
  | [], _ => []
  | _ :: r, O => r
  | x :: r, S j => x :: remove_nth j r
  end.

(* the oldest queued call of coordinator k, and the queue without it *)
Fixpoint take_first (k : coord) (q : list (coord * call)) : option (call * list (coord * call)) :=
  match q with
  | [] => None
  | (k', c) :: r =>
    if N.eqb k k' then Some (c, r)
    else match take_first k r with
         | Some (c', r') => Some (c', (k', c) :: r')
         | None => None
         end
  end.

Definition mem (x : N) (l : list N) : bool := existsb (N.eqb x) l.
Definition remove_key (x : N) (l : list N) : list N := filter (fun y => negb (N.eqb x y)) l.

(* keys of `ms` that were never created before, each once *)
Fixpoint fresh_keys (seen : list N) (ms : list N) : list N :=
  match ms with
  | [] => []
  | m :: r => if mem m seen then fresh_keys seen r else m :: fresh_keys (m :: seen) r
  end.

Inductive event :=
| Fetch (k : coord) (a : addr) (tag : N)   (* get_proxy(a) answered: k holds the view; SETREPL and SETCLUSTER are queued *)
| Issue (k : coord)                        (* k puts its oldest queued call on the network *)
| Deliver (i : nat)                        (* the i-th in-flight call reaches its proxy *)
| Drop (i : nat)
| Duplicate (i : nat)
| CoordinatorCrash (k : coord)             (* everything k has not issued yet vanishes (also: error return inside a send) *)
| ProxyRestart (a : addr)
| BrokerAdvance (ms : list N)              (* any broker operation; ms = keys of migrations it starts *)
| Report (a : addr) (m : mig)              (* INFOMGR of a lists m as finished *)
| Commit (id : N)                          (* a commit request for key id reaches the broker *)
| BrokerCancel (ids : list N).             (* part of a broker operation: pending migrations are abandoned or re-keyed (a failover
                                              re-issues the migration epoch, so the old (ranges, epoch) key is gone) *)

Section WithBroker.
Variable served : nat -> addr -> option (N * N).

Definition step (st : state) (ev : event) : state :=
  match ev with
  | Fetch k a tag =>
    match served (now st) a with
    | None => st
    | Some (e, c) =>
      let mk kd := {| c_tag := tag; c_to := a; c_kind := kd; c_epoch := e; c_content := c; c_time := now st |} in
      {| now := now st; proxies := proxies st; queue := queue st ++ [(k, mk KRepl); (k, mk KCluster)]; net := net st;
         pending := pending st; started := started st; commits := commits st; dlog := dlog st; rlog := rlog st |}
    end
  | Issue k =>
    match take_first k (queue st) with
    | None => st
    | Some (c, q) =>
      {| now := now st; proxies := proxies st; queue := q; net := net st ++ [c];
         pending := pending st; started := started st; commits := commits st; dlog := dlog st; rlog := rlog st |}
    end
  | Deliver i =>
    match nth_error (net st) i with
    | None => st
    | Some c =>
      let '(p, r) := deliver_to (lookup (proxies st) (c_to c)) c in
      {| now := now st; proxies := (c_to c, p) :: proxies st; queue := queue st; net := remove_nth i (net st);
         pending := pending st; started := started st; commits := commits st; dlog := (c, r) :: dlog st; rlog := rlog st |}
    end
  | Drop i =>
    {| now := now st; proxies := proxies st; queue := queue st; net := remove_nth i (net st);
       pending := pending st; started := started st; commits := commits st; dlog := dlog st; rlog := rlog st |}
  | Duplicate i =>
    match nth_error (net st) i with
    | None => st
    | Some c =>
      {| now := now st; proxies := proxies st; queue := queue st; net := net st ++ [c];
         pending := pending st; started := started st; commits := commits st; dlog := dlog st; rlog := rlog st |}
    end
  | CoordinatorCrash k =>
    {| now := now st; proxies := proxies st; queue := filter (fun kc => negb (N.eqb k (fst kc))) (queue st); net := net st;
       pending := pending st; started := started st; commits := commits st; dlog := dlog st; rlog := rlog st |}
  | ProxyRestart a =>
    {| now := now st; proxies := (a, ps_init) :: proxies st; queue := queue st; net := net st;
       pending := pending st; started := started st; commits := commits st; dlog := dlog st; rlog := rlog st |}
  | BrokerAdvance ms =>
    let f := fresh_keys (started st) ms in
    {| now := S (now st); proxies := proxies st; queue := queue st; net := net st;
       pending := pending st ++ f; started := f ++ started st; commits := commits st; dlog := dlog st; rlog := rlog st |}
  | Report a m =>
    {| now := now st; proxies := proxies st; queue := queue st; net := net st;
       pending := pending st; started := started st; commits := commits st; dlog := dlog st; rlog := (a, m) :: rlog st |}
  | Commit id =>
    if mem id (pending st) then
      {| now := S (now st); proxies := proxies st; queue := queue st; net := net st;
         pending := remove_key id (pending st); started := started st; commits := id :: commits st;
         dlog := dlog st; rlog := rlog st |}
    else st       (* MigrationTaskNotFound: nothing changes *)
  | BrokerCancel ids =>
    {| now := now st; proxies := proxies st; queue := queue st; net := net st;
       pending := filter (fun x => negb (mem x ids)) (pending st); started := started st; commits := commits st;
       dlog := dlog st; rlog := rlog st |}
  end.

Definition run (evs : list event) (st : state) : state := fold_left step evs st.

(* the calls that reach a proxy while evs runs from st, oldest first *)
Fixpoint deliveries (evs : list event) (st : state) : list call :=
  match evs with
  | [] => []
  | ev :: r =>
    match ev with
    | Deliver i => match nth_error (net st) i with Some c => [c] | None => [] end
    | _ => []
    end ++ deliveries r (step st ev)
  end.

(* ---------- the coordinator code, compiled to events under a fault script ---------- *)

(* what happens to one outgoing call *)
Inductive fault :=
| FNone
| FDrop       (* lost: the caller sees an error *)
| FDup        (* arrives twice; the caller sees the first answer *)
| FDelay      (* held in the network: the caller sees a time-out; the script may deliver it later (sc_inject) *)
| FNoReply    (* arrives, the answer is lost: the caller sees an error *)
| FCrash.     (* arrives, then the coordinator dies: the rest of its round never happens *)

(* call boundaries of a run are numbered 0,1,2.. in the order the coordinator reaches them *)
Record script := {
  sc_fault : nat -> fault;
  sc_inject : nat -> state -> list event;   (* environment events happening just before boundary n *)
  sc_reports : nat -> list mig        (* what the INFOMGR call at boundary n answers *)
}.

Inductive outcome := Continue | Failed | Crashed.

Variable sc : script.

(* one SETREPL / SETCLUSTER call of k at boundary n: k's oldest queued call is issued and the fault applied.
   An error return drops the rest of the send (send_meta_impl's `?`) *)
Definition send_call (k : coord) (n : nat) (st : state) : list event * outcome :=
  let pre := sc_inject sc n st in
  let i := length (net (run pre st)) in
  match sc_fault sc n with
  | FNone => (pre ++ [Issue k; Deliver i], Continue)
  | FDup => (pre ++ [Issue k; Duplicate i; Deliver i; Deliver i], Continue)
  | FDrop => (pre ++ [Issue k; Drop i; CoordinatorCrash k], Failed)
  | FDelay => (pre ++ [Issue k; CoordinatorCrash k], Failed)
  | FNoReply => (pre ++ [Issue k; Deliver i; CoordinatorCrash k], Failed)
  | FCrash => (pre ++ [Issue k; Deliver i; CoordinatorCrash k], Crashed)
  end.

(* retrieve_and_send_meta / set_cluster_meta for proxy a, first boundary n: get_proxy, SETREPL, SETCLUSTER.
   Returns the events, the next boundary number and the outcome *)
Definition sync_proxy (k : coord) (a : addr) (n : nat) (st : state) : list event * nat * outcome :=
  let pre := sc_inject sc n st in
  match sc_fault sc n with
  | FDrop | FDelay | FNoReply => (pre, S n, Failed)
  | FCrash => (pre ++ [CoordinatorCrash k], S n, Crashed)
  | FNone | FDup =>
    match served (now (run pre st)) a with
    | None => (pre, S n, Continue)
    | Some _ =>
      let ev1 := pre ++ [Fetch k a (N.of_nat n)] in
      let '(ev2, o2) := send_call k (S n) (run ev1 st) in
      match o2 with
      | Continue =>
        let '(ev3, o3) := send_call k (S (S n)) (run (ev1 ++ ev2) st) in
        (ev1 ++ ev2 ++ ev3, S (S (S n)), o3)
      | _ => (ev1 ++ ev2, S (S n), o2)
      end
    end
  end.

(* the per-proxy loop of ProxyMetaRespSynchronizer::run_impl: a failed proxy does not stop the others *)
Fixpoint meta_round_from (k : coord) (addrs : list addr) (n : nat) (st : state) : list event * nat * outcome :=
  match addrs with
  | [] => ([], n, Continue)
  | a :: r =>
    let '(e1, n1, o1) := sync_proxy k a n st in
    match o1 with
    | Crashed => (e1, n1, Crashed)
    | _ => let '(e2, n2, o2) := meta_round_from k r n1 (run e1 st) in (e1 ++ e2, n2, o2)
    end
  end.

(* boundary n is the listing of the proxies (retrieve_proxies); addrs is what it answers *)
Definition listing (k : coord) (n : nat) (st : state) : list event * outcome :=
  let pre := sc_inject sc n st in
  match sc_fault sc n with
  | FDrop | FDelay | FNoReply => (pre, Failed)
  | FCrash => (pre ++ [CoordinatorCrash k], Crashed)
  | FNone | FDup => (pre, Continue)
  end.

Definition meta_round (k : coord) (addrs : list addr) (n : nat) (st : state) : list event * nat * outcome :=
  let '(e0, o0) := listing k n st in
  match o0 with
  | Continue => let '(e1, n1, o1) := meta_round_from k addrs (S n) (run e0 st) in (e0 ++ e1, n1, o1)
  | _ => (e0, S n, o0)
  end.

(* BrokerMigrationCommitter::commit through the HTTP broker client: Ok and NotFound both let the caller go on *)
Definition commit_call (k : coord) (id : N) (n : nat) (st : state) : list event * outcome :=
  let pre := sc_inject sc n st in
  match sc_fault sc n with
  | FNone => (pre ++ [Commit id], Continue)
  | FDup => (pre ++ [Commit id; Commit id], Continue)
  | FDrop | FDelay => (pre, Failed)
  | FNoReply => (pre ++ [Commit id], Failed)
  | FCrash => (pre ++ [Commit id; CoordinatorCrash k], Crashed)
  end.

(* sync_migration_state for one reported migration: commit, then the destination, then the source *)
Definition sync_migration (k : coord) (a : addr) (m : mig) (n : nat) (st : state) : list event * nat * outcome :=
  let '(ec, oc) := commit_call k (m_id m) n st in
  let e0 := Report a m :: ec in
  match oc with
  | Continue =>
    let '(ed, nd, od) := sync_proxy k (m_dst m) (S n) (run e0 st) in
    match od with
    | Continue =>
      let '(es, ns, os) := sync_proxy k (m_src m) nd (run (e0 ++ ed) st) in
      (e0 ++ ed ++ es, ns, os)
    | _ => (e0 ++ ed, nd, od)
    end
  | _ => (e0, S n, oc)
  end.

(* the `while let Some(res) = s.next()` loop of check_and_sync: the first error ends this proxy's stream *)
Fixpoint sync_migrations (k : coord) (a : addr) (ms : list mig) (n : nat) (st : state) : list event * nat * outcome :=
  match ms with
  | [] => ([], n, Continue)
  | m :: r =>
    let '(e1, n1, o1) := sync_migration k a m n st in
    match o1 with
    | Continue => let '(e2, n2, o2) := sync_migrations k a r n1 (run e1 st) in (e1 ++ e2, n2, o2)
    | _ => (e1, n1, o1)
    end
  end.

(* check_and_sync for proxy a: boundary n is UMCTL INFOMGR *)
Definition check_and_sync (k : coord) (a : addr) (n : nat) (st : state) : list event * nat * outcome :=
  let pre := sc_inject sc n st in
  match sc_fault sc n with
  | FDrop | FDelay | FNoReply => (pre, S n, Failed)
  | FCrash => (pre ++ [CoordinatorCrash k], S n, Crashed)
  | FNone | FDup =>
    let '(e1, n1, o1) := sync_migrations k a (sc_reports sc n) (S n) (run pre st) in (pre ++ e1, n1, o1)
  end.

Fixpoint mig_round_from (k : coord) (addrs : list addr) (n : nat) (st : state) : list event * nat * outcome :=
  match addrs with
  | [] => ([], n, Continue)
  | a :: r =>
    let '(e1, n1, o1) := check_and_sync k a n st in
    match o1 with
    | Crashed => (e1, n1, Crashed)
    | _ => let '(e2, n2, o2) := mig_round_from k r n1 (run e1 st) in (e1 ++ e2, n2, o2)
    end
  end.

Definition mig_round (k : coord) (addrs : list addr) (n : nat) (st : state) : list event * nat * outcome :=
  let '(e0, o0) := listing k n st in
  match o0 with
  | Continue => let '(e1, n1, o1) := mig_round_from k addrs (S n) (run e0 st) in (e0 ++ e1, n1, o1)
  | _ => (e0, S n, o0)
  end.

End WithBroker.

(* the script without faults *)
Definition no_faults (reports : nat -> list mig) : script :=
  {| sc_fault := fun _ => FNone; sc_inject := fun _ _ => []; sc_reports := reports |}.

(* position of the first in-flight call with this tag and kind (drivers use it to deliver a held call) *)
Fixpoint find_call (tag : N) (kd : kind) (l : list call) : option nat :=
  match l with
  | [] => None
  | c :: r => if N.eqb (c_tag c) tag && kind_eqb (c_kind c) kd then Some O
              else match find_call tag kd r with Some i => Some (S i) | None => None end
  end.
