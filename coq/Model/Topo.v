(* Model of the topology a proxy advertises (property C14).  Executable definitions only.
   Mirrors:
     proxy/cluster.rs    should_ignore_slots, gen_cluster_nodes_helper (both ClusterNodesVersion V1 / V2),
                         gen_cluster_slots_helper (incl. its "invalid address" error), LocalCluster::gen_local_cluster_nodes /
                         gen_local_cluster_slots (all local nodes' slot ranges listed under the service address),
                         RemoteCluster::gen_remote_cluster_nodes / gen_remote_cluster_slots,
                         ClusterBackendMap::gen_cluster_nodes / gen_cluster_slots (local part first, then the peers)
     proxy/manager.rs    MetaManager::gen_cluster_nodes / gen_cluster_slots (states taken from the migration map)
     migration/manager.rs MigrationMap::get_states (range list -> state; a later task with an equal range list overwrites)
   A NODES line is kept structured: (address field, myself flag, epoch, range tokens as (start, end)); the textual layout
   "<id> <addr> <flags> - 0 0 <epoch> connected <ranges>" and the node id (crc64 of the address) are parsed away by both
   canonicalisers.  A SLOTS entry is (start, end, host, port).  Maps are lists in HashMap iteration order. *)
From UM Require Import Base.BytesDef Base.Dec Base.RespT Model.Slot.

Inductive mstate := PreCheck | PreBlocking | PreSwitch | Scanning | FinalSwitch | SwitchCommitted.

Inductive tag := TNone | TMigrating | TImporting.

Record tagged_range := { sr_ranges : list range; sr_tag : tag }.

Definition tmap := list (addr * list tagged_range).          (* HashMap<String, Vec<SlotRange>> *)
Record tmeta := { t_epoch : N; t_local : tmap; t_peer : tmap }.
Definition states := list (list range * mstate).           (* HashMap<RangeList, MigrationState> *)

Definition range_eqb (a b : range) : bool := (fst a =? fst b) && (snd a =? snd b).
Definition ranges_eqb (a b : list range) : bool := list_eqb range_eqb a b.

Fixpoint lookup (st : states) (rl : list range) : option mstate :=
  match st with
  | [] => None
  | (k, v) :: r => if ranges_eqb k rl then Some v else lookup r rl
  end.

(* MigrationMap::get_states: m.insert(range_list, state) for every task *)
Fixpoint upsert (st : states) (rl : list range) (v : mstate) : states :=
  match st with
  | [] => [(rl, v)]
  | (k, x) :: r => if ranges_eqb k rl then (k, v) :: r else (k, x) :: upsert r rl v
  end.

Definition get_states (tasks : list (tagged_range * mstate)) : states :=
  fold_left (fun st t => upsert st (sr_ranges (fst t)) (snd t)) tasks [].

Definition is_precheck (o : option mstate) : bool :=
  match o with Some PreCheck => true | _ => false end.

Definition should_ignore (sr : tagged_range) (st : states) : bool :=
  match sr_tag sr with
  | TMigrating => negb (is_precheck (lookup st (sr_ranges sr)))
  | TImporting => is_precheck (lookup st (sr_ranges sr))
  | TNone => false
  end.

(* the ranges of the slot ranges that are not ignored, in order *)
Definition visible (st : states) (srs : list tagged_range) : list range :=
  flat_map (fun sr => if should_ignore sr st then [] else sr_ranges sr) srs.

Inductive version := V1 | V2.

Definition cport_suffix : bytes := [64; 53; 50; 57; 57].     (* "@5299" *)

Record node_line := { nl_addr : addr;            (* the map key the line was generated for *)
                      nl_field : bytes;          (* the address field as printed *)
                      nl_myself : bool;
                      nl_epoch : N;
                      nl_ranges : list range }.  (* printed "s" when s = e, else "s-e" *)

Definition gen_nodes_helper (epoch : N) (m : tmap) (st : states) (local : bool) (v : version) : list node_line :=
  map (fun e => {| nl_addr := fst e;
                   nl_field := match v with V1 => fst e | V2 => fst e ++ cport_suffix end;
                   nl_myself := local; nl_epoch := epoch;
                   nl_ranges := visible st (snd e) |}) m.

(* self.slot_ranges.values().flatten() under the service address *)
Definition local_as_self (self : addr) (m : tmeta) : tmap := [(self, flat_map snd (t_local m))].

Definition gen_cluster_nodes (self : addr) (m : tmeta) (st : states) (v : version) : list node_line :=
  gen_nodes_helper (t_epoch m) (local_as_self self m) st true v ++ gen_nodes_helper (t_epoch m) (t_peer m) st false v.

Record slots_entry := { se_start : N; se_end : N; se_host : bytes; se_port : bytes; se_addr : addr }.

Definition c_col : N := 58.

(* addr.split(':'): first and second segment *)
Fixpoint split_colon (l : bytes) : bytes * option bytes :=
  match l with
  | [] => ([], None)
  | x :: r => if x =? c_col then ([], Some r)
              else let (h, t) := split_colon r in (x :: h, t)
  end.

Definition host_port (a : addr) : option (bytes * bytes) :=
  match split_colon a with
  | (h, Some rest) => Some (h, fst (split_colon rest))
  | (_, None) => None
  end.

(* None = Err("invalid address ..") which aborts the whole reply *)
Fixpoint gen_slots_helper (m : tmap) (st : states) : option (list slots_entry) :=
  match m with
  | [] => Some []
  | (a, srs) :: r =>
    match host_port a with
    | None => None
    | Some (h, p) =>
      match gen_slots_helper r st with
      | None => None
      | Some rest =>
        Some (map (fun rg => {| se_start := fst rg; se_end := snd rg; se_host := h; se_port := p; se_addr := a |})
                  (visible st srs) ++ rest)
      end
    end
  end.

Definition gen_cluster_slots (self : addr) (m : tmeta) (st : states) : option (list slots_entry) :=
  match gen_slots_helper (local_as_self self m) st with
  | None => None
  | Some l =>
    match gen_slots_helper (t_peer m) st with
    | None => None
    | Some r => Some (l ++ r)
    end
  end.

(* the routing metadata of the same proxy (what ClusterBackendMap::from_cluster_map builds its slot maps from) *)
Definition flatten_map (m : tmap) : slot_map := map (fun e => (fst e, flat_map sr_ranges (snd e))) m.
Definition routing_meta (m : tmeta) : meta :=
  {| m_noname := false; m_local := flatten_map (t_local m); m_peer := flatten_map (t_peer m) |}.
