(* Model of live slot migration, PER KEY k of the migrating range (property C03).
   Executable definitions only.

   Mirrors (branch by branch, per key):
     migration/scan_task.rs       RedisScanMigratingTask::{pre_check, pre_block, pre_switch, scan_migrate, final_switch,
                                  send (routing by MigrationState), send_sync_task}, RedisScanImportingTask::{send,
                                  handle_switch}, handle_redirection
     migration/scan_migration.rs  ScanMigrationTask::{handle_sync_task (fast path under the SlotMutex, slow-path queue),
                                  keep_migrating, scan_and_migrate_keys, handle_blocking_requests, produce_entries,
                                  forward_entries (RESTORE without REPLACE, BUSYKEY tolerated), delete_keys}
     proxy/migration_backend.rs   RestoreDataCmdTaskHandler::{handle_cmd_task, send_to_umsync, handle_exists_task,
                                  handle_dump_pttl_task, handle_restore, handle_pending_umsync_task (10 retries),
                                  handle_umsync_task, handle_del_task}, KeyLock, get_data_entry
     proxy/command.rs             requires_blocking_migration (the `cpush` flag of a command; table at the end)
     proxy/manager.rs             send_cmd_ctx (migration map first, then the cluster backend behind the barrier),
                                  send_sync_task (MIGRATION_TASK_NOT_FOUND once the migrating task is gone)
   Reused from Model/Ttl.v (C19): ttl_restore, scan_entry (PTTL then DUMP: scanner and push path), pull_entry (DUMP then PTTL).

   Abstractions (all OVER-approximations of the code's behaviours unless marked):
   * one key; other keys only matter through the shared locks (KeyLock shard sets are per key, SlotMutex is per lock
     slot): every lock attempt may fail nondeterministically (the `ok` flag of the lock events);
   * client commands are Read | Write v | Delete; `cpush` is the code's classification requires_blocking_migration;
     every command replies the OLD value of the key (so every command observes the register);
   * each Redis command is one atomic step; the two commands of a Multi (PTTL+DUMP, DUMP+PTTL, RESTORE+command) are two
     steps between which other connections may interleave (several backend connections / different clients);
   * local bookkeeping between two Redis commands (channel hand-offs inside RestoreDataCmdTaskHandler) is merged into
     the step of the Redis command that precedes it when it touches no shared state; lock releases are modelled at
     the earliest point the code can perform them;
   * the barrier of proxy/blocking.rs is not modelled (C11 does that): queueing or hand-off to the source Redis is a
     nondeterministic choice in the phases where `send` returns SlotNotFound; C11's guarantee is the run premise
     `c11_ok` (Props/C03.v);
   * NOT modelled: time (key expiry, max_blocking_time / max_migration_time "force to go ahead", reconnects), Redis
     error replies other than BUSYKEY, connection failures, the closed-EXISTS-channel lock loop at task shutdown,
     MAX_REDIRECTIONS. *)
From Coq Require Import String.
From UM Require Import Base.BytesDef Base.RespT Model.Ttl.

Definition entry := (bytes * bytes)%type.       (* (DUMP payload = value, ttl); on the source the ttl is the PTTL
                                                   payload, on the destination it is the RESTORE expire argument *)

Inductive kind := KRead | KWrite (v : bytes) | KDelete.
Record cmd := mkCmd { ckind : kind; cpush : bool }.
Inductive reply := ROk (old : option bytes) | RErr.

Inductive sphase := SPreCheck | SPreBlocking | SPreSwitch | SScanning | SFinalSwitch | SSwitchCommitted.
Inductive dphase := DPreCheck | DPreSwitch | DSwitchCommitted.
Inductive lholder := HScan | HOp (i : nat).

(* the scanner's position relative to k *)
Inductive scanpos :=
| SBefore                      (* k not yet visited (or its batch has to be retried) *)
| SLocked                      (* scan_and_migrate_keys holds the slot lock of k *)
| SPttl (p : resp)             (* PTTL read, DUMP not yet *)
| SRestore (raw t : bytes)     (* entry produced, RESTORE in flight to the destination *)
| SDel                         (* RESTORE answered (OK or BUSYKEY), DEL of the source copy in flight *)
| SPassed.

Inductive pc :=
(* routing *)
| PAtSrc | PSrcQueued | PSrcHanded | PAtDst
(* pull path (commands not in requires_blocking_migration) *)
| PExistsSent | PExistsNo | PDumpSent | PDumpGot (d : resp) | PRestoreSent (raw t : bytes)
(* push path *)
| PPushPending (n : nat) | PUmsyncSent | PSyncQueued
| PFastLocked | PFastPttl (p : resp) | PFastRestore (raw t : bytes) | PFastDel
| PSlowPttl (p : resp) | PSlowRestore (raw t : bytes) | PSlowDel
| PUmsyncReplied
(* the command itself in flight to the destination Redis; done; reply delivered *)
| PFwd | PDone (r : reply) | PReplied (r : reply).

(* pull path, after RESTORE executed: handle_restore drops the key lock, then sends DEL to the source *)
Inductive cleanup := CNone | CLock | CDel | CDone.

Record opst := mkOp { ocmd : cmd; opc : pc; ocl : cleanup }.

Record glob := mkGlob {
  src : option entry; dst : option entry;
  sph : sphase; dph : dphase; committed : bool;
  klock : option nat; slock : option lholder; scan : scanpos }.

Record state := mkState { gl : glob; ops : list opst }.

Definition init_glob (s0 : option entry) : glob :=
  mkGlob s0 None SPreCheck DPreCheck false None None SBefore.
Definition init (s0 : option entry) : state := mkState (init_glob s0) [].

(* ---------- Redis semantics of the stand-in (trusted: DESIGN.md section 5) ---------- *)
Definition redis_pttl (e : option entry) : resp :=
  match e with Some (_, t) => Integer t | None => Integer PTTL_KEY_NOT_FOUND end.
Definition redis_dump (e : option entry) : resp :=
  match e with Some (raw, _) => Bulk raw | None => BulkNil end.
(* RESTORE without REPLACE: BUSYKEY and no change when the key exists *)
Definition redis_restore (e : option entry) (raw t : bytes) : option entry :=
  match e with Some _ => e | None => Some (raw, t) end.
Definition val (e : option entry) : option bytes := option_map fst e.
Definition exec_kind (k : kind) (noexp : bytes) (e : option entry) : option entry :=
  match k with KRead => e | KWrite v => Some (v, noexp) | KDelete => None end.

(* the logical register *)
Definition L (g : glob) : option bytes :=
  match dst g with Some (v, _) => Some v | None => val (src g) end.
Definition apply_kind (k : kind) (l : option bytes) : option bytes :=
  match k with KRead => l | KWrite v => Some v | KDelete => None end.

(* the RESTORE arguments each path builds from the replies it read (Ttl.restore_cmd without the key) *)
Definition restore_args (e : entry_result) : option (bytes * bytes) :=
  match e with Entry p raw => Some (raw, ttl_restore p) | _ => None end.

(* ---------- setters ---------- *)
Definition set_src (g : glob) x := mkGlob x (dst g) (sph g) (dph g) (committed g) (klock g) (slock g) (scan g).
Definition set_dst (g : glob) x := mkGlob (src g) x (sph g) (dph g) (committed g) (klock g) (slock g) (scan g).
Definition set_sph (g : glob) x := mkGlob (src g) (dst g) x (dph g) (committed g) (klock g) (slock g) (scan g).
Definition set_dph (g : glob) x := mkGlob (src g) (dst g) (sph g) x (committed g) (klock g) (slock g) (scan g).
Definition set_committed (g : glob) x := mkGlob (src g) (dst g) (sph g) (dph g) x (klock g) (slock g) (scan g).
Definition set_klock (g : glob) x := mkGlob (src g) (dst g) (sph g) (dph g) (committed g) x (slock g) (scan g).
Definition set_slock (g : glob) x := mkGlob (src g) (dst g) (sph g) (dph g) (committed g) (klock g) x (scan g).
Definition set_scan (g : glob) x := mkGlob (src g) (dst g) (sph g) (dph g) (committed g) (klock g) (slock g) x.

Fixpoint upd {A} (i : nat) (x : A) (l : list A) : list A :=
  match l, i with
  | [], _ => []
  | _ :: r, O => x :: r
  | y :: r, S j => y :: upd j x r
  end.

Definition set_pc (o : opst) (p : pc) : opst := mkOp (ocmd o) p (ocl o).
Definition set_cl (o : opst) (c : cleanup) : opst := mkOp (ocmd o) (opc o) c.

(* ---------- classifiers ---------- *)
Definition in_slow (p : pc) : bool :=
  match p with PSlowPttl _ | PSlowRestore _ _ | PSlowDel => true | _ => false end.
Definition no_slow (l : list opst) : bool := forallb (fun o => negb (in_slow (opc o))) l.
Definition visiting (s : scanpos) : bool :=
  match s with SBefore | SPassed => false | _ => true end.
(* a transfer that has produced an entry from the source copy and whose RESTORE has not executed yet *)
Definition holder (p : pc) : bool :=
  match p with PRestoreSent _ _ | PFastRestore _ _ | PSlowRestore _ _ => true | _ => false end.
Definition no_holder (l : list opst) : bool := forallb (fun o => negb (holder (opc o))) l.

Definition sph_le_blocking (p : sphase) : bool :=
  match p with SPreCheck | SPreBlocking => true | _ => false end.
Definition sph_lt_scanning (p : sphase) : bool :=
  match p with SPreCheck | SPreBlocking | SPreSwitch => true | _ => false end.
Definition sph_blocking (p : sphase) : bool :=
  match p with SPreBlocking | SPreSwitch => true | _ => false end.
Definition dph_serving (p : dphase) : bool :=
  match p with DPreCheck => false | _ => true end.
Definition sph_eqb (a b : sphase) : bool :=
  match a, b with
  | SPreCheck, SPreCheck | SPreBlocking, SPreBlocking | SPreSwitch, SPreSwitch | SScanning, SScanning
  | SFinalSwitch, SFinalSwitch | SSwitchCommitted, SSwitchCommitted => true
  | _, _ => false
  end.
Definition dph_eqb (a b : dphase) : bool :=
  match a, b with
  | DPreCheck, DPreCheck | DPreSwitch, DPreSwitch | DSwitchCommitted, DSwitchCommitted => true
  | _, _ => false
  end.
Definition is_none {A} (o : option A) : bool := match o with None => true | Some _ => false end.
Definition is_passed (s : scanpos) : bool := match s with SPassed => true | _ => false end.
Definition is_before (s : scanpos) : bool := match s with SBefore => true | _ => false end.

Definition UMSYNC_RETRY_TIMES : nat := 10.

(* ---------- events ---------- *)
Inductive event :=
| EvInvoke (c : cmd) (atsrc : bool)
(* source proxy: RedisScanMigratingTask::send by phase, barrier, source Redis *)
| EvSrcHandoff (i : nat) | EvSrcQueue (i : nat) | EvSrcRelease (i : nat) | EvSrcRedirect (i : nat) | EvExecSrc (i : nat)
(* destination proxy: RedisScanImportingTask::send *)
| EvDstRedirect (i : nat) | EvDirect (i : nat)
(* pull path *)
| EvSendExists (i : nat) | EvExistsExec (i : nat) | EvPullLock (i : nat) (ok : bool)
| EvDumpExec (i : nat) | EvPttlExec (i : nat) | EvRestoreExec (i : nat)
| EvPullUnlock (i : nat) | EvPullDel (i : nat)
(* push path *)
| EvPushLock (i : nat) (ok : bool) | EvPushRetry (i : nat) (ok : bool)
| EvSyncLock (i : nat) (ok : bool) | EvSyncNotFound (i : nat)
| EvFastPttl (i : nat) | EvFastDump (i : nat) | EvFastRestore (i : nat) | EvFastDel (i : nat)
| EvSlowPttl (i : nat) | EvSlowDump (i : nat) | EvSlowRestore (i : nat) | EvSlowDel (i : nat)
| EvSyncFinished (i : nat) | EvPushForward (i : nat)
(* the command on the destination Redis; reply delivered to the client *)
| EvExecDst (i : nat) | EvReply (i : nat)
(* a multi-key command (multi-key EVAL): proxy/executor.rs handle_multi_key_eval_cmd first runs ensure_keys_imported
   (one `EXISTS key` per key through the importing handler = ordinary pull-path Read operations of this model), then
   sends the command itself, which is routed (push path) by its FIRST key only.  For every OTHER key k of the command
   its effect on k is an operation of k's model that reaches the destination Redis without a route of its own: it is
   forwarded at a moment at which k is imported (present on the destination or absent on the source) - the stable
   postcondition of ensure_keys_imported *)
| EvEnsured (i : nat)
(* scanner *)
| EvScanSkip | EvScanLock | EvScanPttl | EvScanDump | EvScanRestore | EvScanDel
(* handshake and commit *)
| EvPreCheckAck | EvBlockingDone | EvDstPreSwitch | EvSrcScanning | EvScanFinished | EvDstFinal | EvSrcFinal | EvCommit.

Definition guard (b : bool) (s : state) : option state := if b then Some s else None.

(* op-local step: given the globals and op i, the new globals and the new op *)
Definition op_step (g : glob) (i : nat) (o : opst) (e : event) : option (glob * opst) :=
  let k := ckind (ocmd o) in
  match e, opc o with
  | EvSrcHandoff _, PAtSrc => if sph_lt_scanning (sph g) then Some (g, set_pc o PSrcHanded) else None
  | EvSrcQueue _, PAtSrc => if sph_blocking (sph g) then Some (g, set_pc o PSrcQueued) else None
  | EvSrcRelease _, PSrcQueued => if sph_lt_scanning (sph g) then None else Some (g, set_pc o PAtSrc)
  | EvSrcRedirect _, PAtSrc => if sph_lt_scanning (sph g) then None else Some (g, set_pc o PAtDst)
  | EvExecSrc _, PSrcHanded =>
      Some (set_src g (exec_kind k PTTL_NO_EXPIRE (src g)), set_pc o (PDone (ROk (val (src g)))))
  | EvDstRedirect _, PAtDst =>
      if negb (dph_serving (dph g)) && negb (committed g) then Some (g, set_pc o PAtSrc) else None
  | EvDirect _, PAtDst => if committed g then Some (g, set_pc o PFwd) else None
  (* pull *)
  | EvSendExists _, PAtDst =>
      if dph_serving (dph g) && negb (committed g) && negb (cpush (ocmd o)) then Some (g, set_pc o PExistsSent) else None
  | EvExistsExec _, PExistsSent =>
      Some (g, set_pc o (if is_none (dst g) then PExistsNo else PFwd))
  | EvPullLock _ ok, PExistsNo =>
      if ok then (if is_none (klock g) then Some (set_klock g (Some i), set_pc o PDumpSent) else None)
      else Some (g, set_pc o PExistsSent)
  | EvDumpExec _, PDumpSent => Some (g, set_pc o (PDumpGot (redis_dump (src g))))
  | EvPttlExec _, PDumpGot d =>
      match pull_entry d (redis_pttl (src g)) with
      | Entry p raw => Some (g, set_pc o (PRestoreSent raw (ttl_restore p)))
      | Skip => Some (set_klock g None, set_pc o PFwd)
      | InvalidReply => Some (set_klock g None, set_pc o (PDone RErr))
      end
  | EvRestoreExec _, PRestoreSent raw t =>
      Some (set_dst g (redis_restore (dst g) raw t), mkOp (ocmd o) PFwd CLock)
  (* push *)
  | EvPushLock _ ok, PAtDst =>
      if dph_serving (dph g) && negb (committed g) && cpush (ocmd o) then
        (if ok then (if is_none (klock g) then Some (set_klock g (Some i), set_pc o PUmsyncSent) else None)
         else Some (g, set_pc o (PPushPending 0)))
      else None
  | EvPushRetry _ ok, PPushPending n =>
      if ok then (if is_none (klock g) then Some (set_klock g (Some i), set_pc o PUmsyncSent) else None)
      else if Nat.ltb (S n) UMSYNC_RETRY_TIMES then Some (g, set_pc o (PPushPending (S n)))
           else Some (g, set_pc o (PDone RErr))
  | EvSyncLock _ ok, PUmsyncSent =>
      if ok then (if is_none (slock g) then Some (set_slock g (Some (HOp i)), set_pc o PFastLocked) else None)
      else Some (g, set_pc o PSyncQueued)
  | EvSyncNotFound _, PUmsyncSent => if committed g then Some (g, set_pc o PUmsyncReplied) else None
  | EvFastPttl _, PFastLocked => Some (g, set_pc o (PFastPttl (redis_pttl (src g))))
  | EvFastDump _, PFastPttl p =>
      match scan_entry p (redis_dump (src g)) with
      | Entry pt raw => Some (g, set_pc o (PFastRestore raw (ttl_restore pt)))
      | Skip => Some (set_slock g None, set_pc o PUmsyncReplied)
      | InvalidReply => Some (set_klock (set_slock g None) None, set_pc o (PDone RErr))
      end
  | EvFastRestore _, PFastRestore raw t => Some (set_dst g (redis_restore (dst g) raw t), set_pc o PFastDel)
  | EvFastDel _, PFastDel => Some (set_slock (set_src g None) None, set_pc o PUmsyncReplied)
  | EvSlowPttl _, PSyncQueued =>
      if negb (visiting (scan g)) && sph_eqb (sph g) SScanning
      then Some (g, set_pc o (PSlowPttl (redis_pttl (src g)))) else None
  | EvSlowDump _, PSlowPttl p =>
      match scan_entry p (redis_dump (src g)) with
      | Entry pt raw => Some (g, set_pc o (PSlowRestore raw (ttl_restore pt)))
      | Skip => Some (g, set_pc o PUmsyncReplied)
      | InvalidReply => Some (set_klock g None, set_pc o (PDone RErr))
      end
  | EvSlowRestore _, PSlowRestore raw t => Some (set_dst g (redis_restore (dst g) raw t), set_pc o PSlowDel)
  | EvSlowDel _, PSlowDel => Some (set_src g None, set_pc o PUmsyncReplied)
  | EvSyncFinished _, PSyncQueued => if is_passed (scan g) then Some (g, set_pc o PUmsyncReplied) else None
  | EvPushForward _, PUmsyncReplied => Some (set_klock g None, set_pc o PFwd)
  (* the command itself *)
  | EvExecDst _, PFwd =>
      Some (set_dst g (exec_kind k RESTORE_NO_EXPIRE (dst g)), set_pc o (PDone (ROk (val (dst g)))))
  | EvReply _, PDone r => Some (g, set_pc o (PReplied r))
  | EvEnsured _, PAtDst =>
      if dph_serving (dph g) && negb (committed g) && (negb (is_none (dst g)) || is_none (src g))
      then Some (g, set_pc o PFwd) else None
  | _, _ => None
  end.

(* cleanup of the pull path runs beside the command itself *)
Definition cl_step (g : glob) (o : opst) (e : event) : option (glob * opst) :=
  match e, ocl o with
  | EvPullUnlock _, CLock => Some (set_klock g None, set_cl o CDel)
  | EvPullDel _, CDel => Some (set_src g None, set_cl o CDone)
  | _, _ => None
  end.

Definition ev_op (e : event) : option nat :=
  match e with
  | EvSrcHandoff i | EvSrcQueue i | EvSrcRelease i | EvSrcRedirect i | EvExecSrc i | EvDstRedirect i | EvDirect i
  | EvSendExists i | EvExistsExec i | EvPullLock i _ | EvDumpExec i | EvPttlExec i | EvRestoreExec i
  | EvPullUnlock i | EvPullDel i | EvPushLock i _ | EvPushRetry i _ | EvSyncLock i _ | EvSyncNotFound i
  | EvFastPttl i | EvFastDump i | EvFastRestore i | EvFastDel i | EvSlowPttl i | EvSlowDump i | EvSlowRestore i
  | EvSlowDel i | EvSyncFinished i | EvPushForward i | EvExecDst i | EvReply i | EvEnsured i => Some i
  | _ => None
  end.

Definition is_cl_event (e : event) : bool :=
  match e with EvPullUnlock _ | EvPullDel _ => true | _ => false end.

(* scanner and handshake steps *)
Definition glob_step (g : glob) (l : list opst) (e : event) : option glob :=
  match e with
  | EvScanSkip =>
      if is_before (scan g) && sph_eqb (sph g) SScanning && is_none (src g) && no_slow l
      then Some (set_scan g SPassed) else None
  | EvScanLock =>
      if is_before (scan g) && sph_eqb (sph g) SScanning && is_none (slock g) && no_slow l
      then Some (set_scan (set_slock g (Some HScan)) SLocked) else None
  | EvScanPttl =>
      match scan g with SLocked => Some (set_scan g (SPttl (redis_pttl (src g)))) | _ => None end
  | EvScanDump =>
      match scan g with
      | SPttl p =>
          match scan_entry p (redis_dump (src g)) with
          | Entry pt raw => Some (set_scan g (SRestore raw (ttl_restore pt)))
          | Skip => Some (set_scan (set_slock g None) SPassed)
          | InvalidReply => Some (set_scan (set_slock g None) SBefore)
          end
      | _ => None
      end
  | EvScanRestore =>
      match scan g with
      | SRestore raw t => Some (set_scan (set_dst g (redis_restore (dst g) raw t)) SDel)
      | _ => None
      end
  | EvScanDel =>
      match scan g with
      | SDel => Some (set_scan (set_slock (set_src g None) None) SPassed)
      | _ => None
      end
  | EvPreCheckAck =>
      if sph_eqb (sph g) SPreCheck && dph_eqb (dph g) DPreCheck then Some (set_sph g SPreBlocking) else None
  | EvBlockingDone => if sph_eqb (sph g) SPreBlocking then Some (set_sph g SPreSwitch) else None
  | EvDstPreSwitch =>
      if sph_eqb (sph g) SPreSwitch && dph_eqb (dph g) DPreCheck then Some (set_dph g DPreSwitch) else None
  | EvSrcScanning =>
      if sph_eqb (sph g) SPreSwitch && dph_eqb (dph g) DPreSwitch then Some (set_sph g SScanning) else None
  | EvScanFinished =>
      if sph_eqb (sph g) SScanning && is_passed (scan g) && no_slow l then Some (set_sph g SFinalSwitch) else None
  | EvDstFinal =>
      if sph_eqb (sph g) SFinalSwitch && dph_eqb (dph g) DPreSwitch then Some (set_dph g DSwitchCommitted) else None
  | EvSrcFinal =>
      if sph_eqb (sph g) SFinalSwitch && dph_eqb (dph g) DSwitchCommitted then Some (set_sph g SSwitchCommitted) else None
  | EvCommit =>
      if sph_eqb (sph g) SSwitchCommitted && negb (committed g) then Some (set_committed g true) else None
  | _ => None
  end.

Definition step (s : state) (e : event) : option state :=
  match e with
  | EvInvoke c atsrc => Some (mkState (gl s) (ops s ++ [mkOp c (if atsrc then PAtSrc else PAtDst) CNone]))
  | _ =>
    match ev_op e with
    | Some i =>
        match nth_error (ops s) i with
        | Some o =>
            match (if is_cl_event e then cl_step (gl s) o e else op_step (gl s) i o e) with
            | Some (g', o') => Some (mkState g' (upd i o' (ops s)))
            | None => None
            end
        | None => None
        end
    | None =>
        match glob_step (gl s) (ops s) e with
        | Some g' => Some (mkState g' (ops s))
        | None => None
        end
    end
  end.

Fixpoint run (s : state) (evs : list event) : option state :=
  match evs with
  | [] => Some s
  | e :: r => match step s e with Some s' => run s' r | None => None end
  end.

(* ---------- run premises (visible hypotheses of the theorems) ---------- *)
(* C11: a client command executes on the source Redis only before the source observed blocking-done *)
Definition c11_step (s : state) (e : event) : bool :=
  match e with EvExecSrc _ => sph_le_blocking (sph (gl s)) | _ => true end.
(* the destination's metadata commit does not overtake a transfer that still holds a dumped value *)
Definition commit_step (s : state) (e : event) : bool :=
  match e with EvCommit => no_holder (ops s) | _ => true end.
(* every deleting command is classified deleting by requires_blocking_migration *)
Definition classified_cmd (c : cmd) : bool :=
  match ckind c with KDelete => cpush c | _ => true end.
Definition classified_step (e : event) : bool :=
  match e with EvInvoke c _ => classified_cmd c | _ => true end.

Fixpoint all_steps (f : state -> event -> bool) (s : state) (evs : list event) : bool :=
  match evs with
  | [] => true
  | e :: r => f s e && match step s e with Some s' => all_steps f s' r | None => true end
  end.
Definition c11_ok := all_steps c11_step.
Definition commit_ok := all_steps commit_step.
Definition classified_ok := all_steps (fun _ e => classified_step e).
(* a multi-key command that DELETES a key other than its first key is pushed (UMSYNC) for its first key only: for the other
   keys nothing orders it against a transfer that already holds a dump of the key.  The theorems cover such a deletion only
   when the source copy is gone and no transfer (pull, push, scanner) holds a dumped value of the key at that moment *)
Definition scan_holding (s : scanpos) : bool := match s with SRestore _ _ => true | _ => false end.
Definition ensured_step (s : state) (e : event) : bool :=
  match e with
  | EvEnsured i =>
      match nth_error (ops s) i with
      | Some o => match ckind (ocmd o) with
                  | KDelete => is_none (src (gl s)) && no_holder (ops s) && negb (scan_holding (scan (gl s)))
                  | _ => true
                  end
      | None => true
      end
  | _ => true
  end.
Definition ensured_ok := all_steps ensured_step.

(* ---------- client-visible history with linearization points ---------- *)
Inductive hevent :=
| HInv (i : nat) (c : cmd)
| HLin (i : nat) (k : kind) (r : option bytes)     (* linearization point: op i takes effect, computing reply r *)
| HRep (i : nat) (r : reply).

Definition hist_step (s : state) (e : event) : list hevent :=
  match e with
  | EvInvoke c _ => [HInv (length (ops s)) c]
  | EvExecSrc i | EvExecDst i =>
      match nth_error (ops s) i with
      | Some o => [HLin i (ckind (ocmd o))
                        (match e with EvExecSrc _ => val (src (gl s)) | _ => val (dst (gl s)) end)]
      | None => []
      end
  | EvReply i =>
      match nth_error (ops s) i with
      | Some o => match opc o with PDone r => [HRep i r] | _ => [] end
      | None => []
      end
  | _ => []
  end.

Fixpoint history (s : state) (evs : list event) : list hevent :=
  match evs with
  | [] => []
  | e :: r => hist_step s e ++ match step s e with Some s' => history s' r | None => [] end
  end.

(* one-register sequential specification over the linearization points *)
Fixpoint register_spec (l : option bytes) (h : list hevent) : option (option bytes) :=
  match h with
  | [] => Some l
  | HLin _ k r :: h' =>
      match l, r with
      | None, None => register_spec (apply_kind k l) h'
      | Some a, Some b => if bytes_eqb a b then register_spec (apply_kind k l) h' else None
      | _, _ => None
      end
  | _ :: h' => register_spec l h'
  end.

(* well-bracketed marked history: every op is invoked once, linearized at most once between its invocation and its
   reply, an Ok reply carries the value computed at its linearization point, an error reply belongs to an op that
   never took effect *)
Inductive ostat := ONone | OInv (k : kind) | OLin (r : option bytes) | ORep.
Definition obytes_eqb (a b : option bytes) : bool :=
  match a, b with None, None => true | Some x, Some y => bytes_eqb x y | _, _ => false end.
Definition kind_eqb (a b : kind) : bool :=
  match a, b with KRead, KRead | KDelete, KDelete => true | KWrite x, KWrite y => bytes_eqb x y | _, _ => false end.

Fixpoint bracketed (st : list ostat) (h : list hevent) : bool :=
  match h with
  | [] => true
  | HInv i c :: h' => Nat.eqb i (length st) && bracketed (st ++ [OInv (ckind c)]) h'
  | HLin i k r :: h' =>
      match nth_error st i with
      | Some (OInv k') => kind_eqb k k' && bracketed (upd i (OLin r) st) h'
      | _ => false
      end
  | HRep i (ROk r) :: h' =>
      match nth_error st i with
      | Some (OLin r') => obytes_eqb r r' && bracketed (upd i ORep st) h'
      | _ => false
      end
  | HRep i RErr :: h' =>
      match nth_error st i with
      | Some (OInv _) => bracketed (upd i ORep st) h'
      | _ => false
      end
  end.

(* `lin` is a linearization of the client history `h` (invocations and replies): it is `h` with one marker inserted per
   linearized operation, inside that operation's interval *)
Definition is_client (x : hevent) : bool := match x with HLin _ _ _ => false | _ => true end.
Definition client_history (m : list hevent) : list hevent := filter is_client m.
Definition is_linearization (m h : list hevent) : Prop := client_history m = h /\ bracketed [] m = true.

Definition quiescent (s : state) : bool :=
  forallb (fun o => match opc o with PReplied _ => true | _ => false end
                    && match ocl o with CNone | CDone => true | _ => false end) (ops s).

(* ---------- acceptor support: which Redis-level observation a step produces ---------- *)
Inductive obs :=
| OSrc (name : nat) (repl : option bytes)      (* command on the source Redis: 0 PTTL 1 DUMP 2 DEL 3 client command *)
| ODst (name : nat) (repl : option bytes)      (* on the destination Redis: 0 EXISTS 1 RESTORE 3 client command *)
| OInvoke | OReply (r : reply)
| OHidden.

Definition observe (s : state) (e : event) : obs :=
  let g := gl s in
  match e with
  | EvInvoke _ _ => OInvoke
  | EvReply i => match nth_error (ops s) i with
                 | Some o => match opc o with PDone r => OReply r | _ => OHidden end | None => OHidden end
  | EvExecSrc _ => OSrc 3 (val (src g))
  | EvExecDst _ => ODst 3 (val (dst g))
  | EvExistsExec _ => ODst 0 (val (dst g))
  | EvDumpExec _ | EvFastDump _ | EvSlowDump _ | EvScanDump => OSrc 1 (val (src g))
  | EvPttlExec _ | EvFastPttl _ | EvSlowPttl _ | EvScanPttl => OSrc 0 (val (src g))
  | EvRestoreExec _ | EvFastRestore _ | EvSlowRestore _ | EvScanRestore => ODst 1 (val (dst g))
  | EvPullDel _ | EvFastDel _ | EvSlowDel _ | EvScanDel => OSrc 2 (val (src g))
  | _ => OHidden
  end.

(* ---------- the finite obligation: command tables ---------- *)
Open Scope string_scope.
(* the 137 commands marked supported in /repo/docs/command_table.json *)
Definition supported_cmds : list string :=
  ["APPEND"; "ASKING"; "BITCOUNT"; "BITFIELD"; "BITPOS"; "BLPOP"; "BRPOP"; "BRPOPLPUSH"; "BZPOPMAX"; "BZPOPMIN";
   "CLUSTER"; "COMMAND"; "CONFIG"; "DECR"; "DECRBY"; "DEL"; "DUMP"; "ECHO"; "EVAL"; "EXISTS"; "EXPIRE"; "EXPIREAT";
   "GEOADD"; "GEODIST"; "GEOHASH"; "GEOPOS"; "GEORADIUS"; "GEORADIUS_RO"; "GEORADIUSBYMEMBER"; "GEORADIUSBYMEMBER_RO";
   "GET"; "GETBIT"; "GETRANGE"; "GETSET"; "HDEL"; "HEXISTS"; "HGET"; "HGETALL"; "HINCRBY"; "HINCRBYFLOAT"; "HKEYS";
   "HLEN"; "HMGET"; "HMSET"; "HSCAN"; "HSET"; "HSETNX"; "HSTRLEN"; "HVALS"; "INCR"; "INCRBY"; "INCRBYFLOAT"; "INFO";
   "LINDEX"; "LINSERT"; "LLEN"; "LPOP"; "LPUSH"; "LPUSHX"; "LRANGE"; "LREM"; "LSET"; "LTRIM"; "MGET"; "MSET";
   "PERSIST"; "PEXPIRE"; "PEXPIREAT"; "PFADD"; "PFCOUNT"; "PFMERGE"; "PING"; "PSETEX"; "PTTL"; "RENAME"; "RESTORE";
   "RPOP"; "RPOPLPUSH"; "RPUSH"; "RPUSHX"; "SADD"; "SCARD"; "SDIFF"; "SDIFFSTORE"; "SET"; "SETBIT"; "SETEX"; "SETNX";
   "SETRANGE"; "SINTER"; "SINTERSTORE"; "SISMEMBER"; "SMEMBERS"; "SMOVE"; "SORT"; "SPOP"; "SRANDMEMBER"; "SREM";
   "SSCAN"; "STRLEN"; "SUNION"; "TOUCH"; "TTL"; "TYPE"; "UNLINK"; "XACK"; "XADD"; "XCLAIM"; "XDEL"; "XLEN";
   "XPENDING"; "XRANGE"; "XREVRANGE"; "XTRIM"; "ZADD"; "ZCARD"; "ZCOUNT"; "ZINCRBY"; "ZINTERSTORE"; "ZLEXCOUNT";
   "ZPOPMAX"; "ZPOPMIN"; "ZRANGE"; "ZRANGEBYLEX"; "ZRANGEBYSCORE"; "ZRANK"; "ZREM"; "ZREMRANGEBYLEX";
   "ZREMRANGEBYRANK"; "ZREMRANGEBYSCORE"; "ZREVRANGE"; "ZREVRANGEBYLEX"; "ZREVRANGEBYSCORE"; "ZREVRANK"; "ZSCAN";
   "ZSCORE"; "ZUNIONSTORE"].

(* proxy/command.rs requires_blocking_migration on the pinned tree 31ece96 (command names of the DataCmdType arms) *)
Definition code_deleting_orig : list string :=
  ["DEL"; "EVAL"; "EVALSHA"; "EXPIRE"; "EXPIREAT"; "HDEL"; "LPOP"; "RPOP"; "RPOPLPUSH"; "LREM"; "LTRIM"; "MOVE";
   "PEXPIRE"; "PEXPIREAT"; "RENAME"; "RENAMENX"; "SMOVE"; "SPOP"; "SREM"; "UNLINK"; "ZPOPMAX"; "ZPOPMIN"; "ZREM";
   "ZREMRANGEBYLEX"; "ZREMRANGEBYRANK"; "ZREMRANGEBYSCORE"].
(* the arms added by work/fix_C03.diff *)
Definition code_deleting_fix : list string :=
  ["SDIFFSTORE"; "SINTERSTORE"; "SUNIONSTORE"; "ZINTERSTORE"; "ZUNIONSTORE"].
(* requires_blocking_migration of the /repo working tree (= with the fix) *)
Definition code_deleting : list string := code_deleting_orig ++ code_deleting_fix.

(* hand-curated from the Redis command reference (TRUSTED): commands that can remove the key given as their FIRST key
   argument: explicit deletion / rename away, removal of the last element of an aggregate, a *STORE whose result is
   empty, an expiry that may be in the past, scripts *)
Definition may_delete_its_key : list string :=
  ["BLPOP"; "BRPOP"; "BRPOPLPUSH"; "BZPOPMAX"; "BZPOPMIN"; "DEL"; "EVAL"; "EVALSHA"; "EXPIRE"; "EXPIREAT"; "HDEL";
   "LPOP"; "LREM"; "LTRIM"; "MOVE"; "PEXPIRE"; "PEXPIREAT"; "RENAME"; "RENAMENX"; "RPOP"; "RPOPLPUSH"; "SDIFFSTORE";
   "SINTERSTORE"; "SMOVE"; "SPOP"; "SREM"; "SUNIONSTORE"; "UNLINK"; "ZINTERSTORE"; "ZPOPMAX"; "ZPOPMIN"; "ZREM";
   "ZREMRANGEBYLEX"; "ZREMRANGEBYRANK"; "ZREMRANGEBYSCORE"; "ZUNIONSTORE"].

Definition mem_str (x : string) (l : list string) : bool := existsb (String.eqb x) l.
(* proxy/executor.rs get_non_blocking_name + handle_blocking_cmd: a blocking pop never reaches the migration backend
   under its own name; the executor polls with the non-blocking command, which is what gets classified *)
Definition blocking_translation : list (string * string) :=
  [("BLPOP", "LPOP"); ("BRPOP", "RPOP"); ("BRPOPLPUSH", "RPOPLPUSH"); ("BZPOPMIN", "ZPOPMIN"); ("BZPOPMAX", "ZPOPMAX")].
Definition effective_name (c : string) : string :=
  match find (fun p => String.eqb c (fst p)) blocking_translation with Some p => snd p | None => c end.
(* supported commands that may delete their key but take the non-deleting (pull) path under classification `cls` *)
Definition unclassified (cls : list string) : list string :=
  filter (fun c => mem_str c may_delete_its_key && negb (mem_str (effective_name c) cls)) supported_cmds.
Definition model_classify (name : string) : bool := mem_str name code_deleting.
Close Scope string_scope.
