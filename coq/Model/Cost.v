(* Cost model for property C16 (no client input can crash, abort or wedge a proxy).  Executable definitions only.

   Part 1 re-states the RESP parser of Model/Resp.v with an explicit cost semantics: every function returns its result
   together with {alloc, steps, depth}.  Mirrors src/protocol/stateless.rs of the working tree WITH work/fix_C15.diff and
   work/fix_C16_1.diff / fix_C16_2.diff:
     parse_line          -> parse_line_c      steps: bytes scanned by memchr
     parse_len           -> parse_len_c       steps: + bytes read by btoi
     parse_bulk_str      -> parse_bulk_str_c  `consumed + content_size + 2` is a checked usize addition in the dev profile
                                              (the only profile that builds here): CPanic on overflow
     parse_nested_array  -> parse_array_c / parse_elems_c
                                              Vec::with_capacity(min(array_size, buf.len())) charges cap * size_of::<RespIndex>()
                                              bytes and panics ("capacity overflow") above isize::MAX; one step per loop
                                              iteration; v.advance(consumed) walks the element's whole index tree
     parse_nested_resp   -> parse_resp_c      depth + 1 per call; v.advance(1) walks the tree; depth >= MAX_ARRAY_NESTING -> Invalid
     parse_indexed_resp / IndexedResp::decode -> decode_cost   (BytesMut::split_to promotes the buffer to shared storage:
                                              one small allocation on success)
   Part 2: the argument handling that iterates over attacker-chosen numbers:
     proxy/executor.rs  handle_eval_cmd + handle_multi_key_eval_cmd (key collection)  -> eval_keys_c   (with fix_C16_3.diff)
     common/cluster.rs  impl From<&RangeList> for RangeMap                           -> range_map_c   (with fix_C16_4.diff)
   usize is modelled explicitly: values are N below 2^64, `+` is checked (dev profile).  *)
From UM Require Import Base.BytesDef Base.Dec Base.RespT Model.Resp.

Record cost := mkCost { c_alloc : N; c_steps : N; c_depth : N }.

Definition czero : cost := mkCost 0 0 0.
Definition csteps (n : N) : cost := mkCost 0 n 0.
Definition calloc (n : N) : cost := mkCost n 0 0.
Definition cadd (a b : cost) : cost :=
  mkCost (c_alloc a + c_alloc b) (c_steps a + c_steps b) (N.max (c_depth a) (c_depth b)).
Definition cdeeper (a : cost) : cost := mkCost (c_alloc a) (c_steps a) (c_depth a + 1).

Inductive cres (A : Type) : Type :=
| COk (v : A) (consumed : nat)
| CNeed
| CInvalid
| CUnexpected
| CFuel
| CPanic.
Arguments COk {A} v consumed.
Arguments CNeed {A}.
Arguments CInvalid {A}.
Arguments CUnexpected {A}.
Arguments CFuel {A}.
Arguments CPanic {A}.

Definition of_pres {A} (r : pres A) : cres A :=
  match r with
  | POk v c => COk v c
  | PNeed => CNeed
  | PInvalid => CInvalid
  | PUnexpected => CUnexpected
  | PFuel => CFuel
  end.

Definition cbind {A B} (rc : cres A * cost) (k : A -> nat -> cres B * cost) : cres B * cost :=
  match rc with
  | (COk v n, c) => let (r', c') := k v n in (r', cadd c c')
  | (CNeed, c) => (CNeed, c)
  | (CInvalid, c) => (CInvalid, c)
  | (CUnexpected, c) => (CUnexpected, c)
  | (CFuel, c) => (CFuel, c)
  | (CPanic, c) => (CPanic, c)
  end.

Definition ELEM_SIZE : N := 32.                        (* size_of::<RespIndex>() *)
Definition ISIZE_MAX : N := 9223372036854775807.
Definition USIZE_MOD : N := 18446744073709551616.
Definition SHARED_SIZE : N := 40.                      (* the shared header allocated by BytesMut::split_to (bytes 1.2.1, 64 bit) *)

(* number of DataIndex-carrying nodes visited by advance / map *)
Fixpoint isize (r : iresp) : N :=
  match r with
  | IArr l => 1 + fold_right (fun x acc => isize x + acc) 0 l
  | _ => 1
  end.

Definition line_steps (buf : bytes) : N :=
  match find_lf buf with
  | Some i => N.of_nat i + 2
  | None => N.of_nat (length buf) + 1
  end.

Definition parse_line_c (buf : bytes) : cres didx * cost := (of_pres (parse_line buf), csteps (line_steps buf)).

Definition parse_len_c (buf : bytes) : cres Z * cost :=
  cbind (parse_line_c buf) (fun d consumed =>
    (match slice buf (fst d) (snd d) with
     | None => CUnexpected
     | Some l => match btoi_i64 l with None => CInvalid | Some len => COk len consumed end
     end, csteps (N.of_nat (snd d - fst d) + 1))).

Definition parse_bulk_str_c (buf : bytes) : cres iresp * cost :=
  cbind (parse_len_c buf) (fun len consumed =>
    if Z.ltb len 0 then (COk IBulkNil consumed, csteps 1)
    else
      let content_size := Z.to_N len in
      if N.leb USIZE_MOD (N.of_nat consumed + content_size + 2) then (CPanic, csteps 1)   (* attempt to add with overflow *)
      else if N.ltb (N.of_nat (length buf)) (N.of_nat consumed + content_size + 2) then (CNeed, csteps 1)
      else
        let content_end := (consumed + N.to_nat content_size)%nat in
        (match slice buf content_end (content_end + 2) with
         | Some t => if bytes_eqb t CRLF then COk (IBulk (consumed, content_end)) (content_end + 2)%nat else CInvalid
         | None => CInvalid
         end, csteps 3)).

Fixpoint parse_elems_c (pr : bytes -> cres iresp * cost) (k : nat) (n : N) (buf : bytes) (consumed : nat)
  : cres (list iresp) * cost :=
  if N.eqb n 0 then (COk [] consumed, czero)
  else
    match k with
    | O => (CFuel, czero)
    | S k' =>
      if (length buf <? consumed)%nat then (CInvalid, csteps 1)
      else
        cbind (pr (skipn consumed buf)) (fun v element_consumed =>
          cbind (parse_elems_c pr k' (n - 1) buf (consumed + element_consumed)%nat) (fun vs c' =>
            (COk (iadvance consumed v :: vs) c', csteps (1 + isize v))))
    end.

Definition parse_array_c (pr : bytes -> cres iresp * cost) (buf : bytes) : cres iresp * cost :=
  cbind (parse_len_c buf) (fun len consumed =>
    if Z.ltb len 0 then (COk IArrNil consumed, csteps 1)
    else
      let array_size := Z.to_N len in
      let cap := N.min array_size (N.of_nat (length buf)) in
      if N.ltb ISIZE_MAX (cap * ELEM_SIZE) then (CPanic, csteps 1)            (* capacity overflow *)
      else
        cbind (COk tt consumed, mkCost (cap * ELEM_SIZE) 1 0) (fun _ _ =>
          cbind (parse_elems_c pr (S (length buf)) array_size buf consumed) (fun vs c' => (COk (IArr vs) c', czero)))).

Fixpoint parse_resp_c (rem : nat) (buf : bytes) : cres iresp * cost :=
  match buf with
  | [] => (CNeed, mkCost 0 1 1)
  | prefix :: next_buf =>
    let '(r, c) :=
      if N.eqb prefix c_dollar then
        cbind (parse_bulk_str_c next_buf) (fun v consumed => (COk (iadvance 1 v) (1 + consumed)%nat, csteps 2))
      else if N.eqb prefix c_plus then
        cbind (parse_line_c next_buf) (fun d consumed => (COk (ISimple (dadvance 1 d)) (1 + consumed)%nat, csteps 2))
      else if N.eqb prefix c_colon then
        cbind (parse_line_c next_buf) (fun d consumed => (COk (IInteger (dadvance 1 d)) (1 + consumed)%nat, csteps 2))
      else if N.eqb prefix c_minus then
        cbind (parse_line_c next_buf) (fun d consumed => (COk (IError (dadvance 1 d)) (1 + consumed)%nat, csteps 2))
      else if N.eqb prefix c_star then
        match rem with
        | O => (CInvalid, csteps 1)
        | S rem' =>
          cbind (parse_array_c (parse_resp_c rem') next_buf) (fun v consumed =>
            (COk (iadvance 1 v) (1 + consumed)%nat, csteps (1 + isize v)))
        end
      else (CInvalid, csteps 1) in
    (r, cdeeper c)
  end.

(* IndexedResp::decode on a buffer: result of the parse, cost including split_to *)
Definition decode_cost (buf : bytes) : cres iresp * cost :=
  cbind (parse_resp_c MAX_ARRAY_NESTING buf) (fun v consumed =>
    if (length buf <? consumed)%nat then (CPanic, czero) else (COk v consumed, mkCost SHARED_SIZE 1 0)).

(* ---------- EVAL key collection (proxy/executor.rs handle_eval_cmd; EVALSHA takes the single-key path) ----------
   args = the elements of the command (None for an element that is not a bulk string). *)
Inductive eval_res :=
| EvMissingNumkeys
| EvInvalidNumkeys
| EvSingle                       (* key_num == 1: handle_single_key_data_cmd *)
| EvKeys (keys : list bytes)     (* keys collected by handle_multi_key_eval_cmd *)
| EvPanic.

Definition btou_usize (l : bytes) : option N :=          (* btoi::btoi::<usize>: optional '+' sign *)
  match l with
  | [] => None
  | c :: r => if N.eqb c 43 then btou u64_max r
              else if N.eqb c 45 then (match r with [] => None | _ => if forallb (fun x => N.eqb x 48) r then Some 0 else None end)
              else btou u64_max l
  end.

(* (3 .. 3 + bound).filter_map(|i| get_command_element(i)): one step per index *)
Fixpoint collect_keys (args : list (option bytes)) (i : nat) (cnt : nat) : list bytes * N :=
  match cnt with
  | O => ([], 0)
  | S cnt' =>
    let (ks, st) := collect_keys args (S i) cnt' in
    match nth_error args i with
    | Some (Some b) => (b :: ks, st + 1)
    | _ => (ks, st + 1)
    end
  end.

Definition eval_keys_c (args : list (option bytes)) : eval_res * cost :=
  match nth_error args 2 with
  | Some (Some numkeys) =>
    match btou_usize numkeys with
    | None => (EvInvalidNumkeys, csteps (N.of_nat (length numkeys) + 1))
    | Some key_num =>
      if N.eqb key_num 1 then (EvSingle, csteps (N.of_nat (length numkeys) + 1))
      else
        (* fix_C16_3: let key_num = min(key_num, command length); 3 + key_num is a checked addition *)
        let bound := N.min key_num (N.of_nat (length args)) in
        if N.leb USIZE_MOD (3 + bound) then (EvPanic, csteps 1)
        else
          let (ks, st) := collect_keys args 3 (N.to_nat bound) in
          (EvKeys ks, mkCost (N.of_nat (length ks) * 24 + fold_right (fun k acc => N.of_nat (length k) + acc) 0 ks)
                             (N.of_nat (length numkeys) + 1 + st) 0)
    end
  | _ => (EvMissingNumkeys, csteps 1)
  end.

(* ---------- RangeMap::from(&RangeList) (common/cluster.rs, with fix_C16_4.diff) ---------- *)
Definition SLOT_NUM : N := 16384.

(* inner loop: for slot_num in start ..= min(end, SLOT_NUM - 1); iteration count *)
Definition range_iters (r : N * N) : N :=
  let (s, e) := r in
  let e' := N.min e (SLOT_NUM - 1) in
  if N.ltb e' s then 0 else e' - s + 1.

Definition range_map_c (ranges : list (N * N)) : (N * N) * cost :=     (* (min_slot, map_len), cost *)
  let min_slot := match ranges with [] => None | r :: _ => if N.leb SLOT_NUM (fst r) then None else Some (fst r) end in
  let max_slot := match last (map Some ranges) None with
                  | Some r => if N.leb SLOT_NUM (snd r) then None else Some (snd r)
                  | None => None
                  end in
  let '(mn, len) := match min_slot, max_slot with
                    | Some a, Some b => (a, b - a + 1)       (* max_slot - min_slot + 1 (ranges are sorted by compact) *)
                    | _, _ => (0, 0)
                    end in
  ((mn, len), mkCost len (fold_right (fun r acc => range_iters r + 1 + acc) 0 ranges) 0).
