(* Model of the pre-switch barrier (property C11).
   Mirrors, action by action (one model step = one shared-memory access of the code, the accesses being the
   places where hook H3 calls common::verif_sched::point):
     proxy/blocking.rs   TaskBlockingQueue::send           (pcs S_x, then the release loop R_x)
                         RefAutoCounter::new / drop        (S_ref_inc; S_ok_dec, S_retry_dec, S_err_dec, S_blocked_dec)
                         CounterTask::new = AutoCounter::new, AutoCounter::drop
                                                           (S_task_inc; S_err_task_dec and the in-flight thread I_run)
                         BlockingHandleInner::release_all  (R_recv, R_redispatch)
                         TaskBlockingQueue::start_blocking = BlockingHandle::new     (B_start_load, B_start_cas)
                         TaskBlockingQueue::blocking_done                            (B_poll)
                         Drop for BlockingHandle                                     (B_drop_load, B_drop_cas, then R_x)
                         TaskBlockingQueue::stop_blocking                            (a thread that starts at R_recv)
                         TaskBlockingQueue::get_blocking_state                       (the loads of S_load1, S_load2)
     common/biatomic.rs  BiAtomicU32::load, BiAtomicU32::compare_and_apply (load + compare_exchange with retry;
                         the two closures run between the load and the CAS, so a u32 overflow of
                         `blocking_count + 1`, `blocking_count - 1`, `term + 1` panics at the load step:
                         debug-build semantics, which is what the harness builds; a release build wraps instead)
     migration/scan_task.rs  pre_block: start_blocking; poll blocking_done; the handle is dropped later (stop) or
                         earlier when the blocking timeout cancels the future: a blocker polls at most `polls` times.
   Shared-memory accesses of TaskBlockingQueue::send in program order (all explicit atomics are Ordering::SeqCst):
     1  running_cmd.fetch_add(1)                    RefAutoCounter::new                          [ref_inc]
     2  blocking_state.inner.load() -> (count,term) get_blocking_state / BiAtomicU32::load       [state_load]
     count = 0 and the hint allows forwarding:
     3a running_cmd.fetch_add(1)                    CounterTask::new / AutoCounter::new          [task_inc]
     4a inner_sender.send(counter_task)             the hand-off                                 [handoff]
     5a (inner error only) running_cmd.fetch_sub(1) the CounterTask is dropped                   [task_dec]
     6a running_cmd.fetch_sub(1)                    RefAutoCounter::drop at return               [ref_dec]
     count = 0 and the hint says blocking:
     3b running_cmd.fetch_sub(1)                    RefAutoCounter::drop, return Err(Retry)      [ref_dec]
     count > 0:
     3c running_cmd.fetch_sub(1)                    drop(counter)                                [ref_dec]
     4c queue_sender.send(cmd_task)                 crossbeam unbounded channel                  [enqueue]
     5c blocking_state.inner.load()                 second get_blocking_state                    [state_load]
     6c (count = 0 only) release_all: repeat queue_receiver.try_recv() [try_recv]; blocking_task_sender.send(task) [redispatch]
   The code uses Ordering::SeqCst for every atomic access; the model is an interleaving (sequentially consistent)
   semantics. crossbeam channel send / try_recv are single atomic actions here.
   Not modelled: the u64/i64 wrap-around of the atomics themselves (needs 2^63 threads), the Disconnected answer of
   try_recv (same control flow as Empty: return), Arc reference counts, logging.
   The fields sh_enq (enqueue log) and sh_sealed are ghost state: no step reads them.
   Executable definitions only. *)
From UM Require Import Base.BytesDef.

Definition U32_MAX : N := 4294967295.

(* BlockingHint *)
Inductive hint :=
| HNotBlocking
| HNotBlockingInMigration (cmd_term : N)
| HBlocking.

(* what the inner (backend) sender answers to the hand-off; an input of the model *)
Inductive inner_res := IOk | IRetry | ICanceled.

(* what `send` returns: Ok(()), Err(Retry(task)), Err(Canceled) *)
Inductive send_result := ROk | RRetry | RCanceled.

Inductive panic_reason := PAddOverflow | PSubOverflow.

(* program counters: "about to perform this access" *)
Inductive pc :=
| S_ref_inc (h : hint) (ir : inner_res)  (* RefAutoCounter::new: running.fetch_add(1) *)
| S_load1 (h : hint) (ir : inner_res)    (* get_blocking_state: state.load *)
| S_task_inc (ir : inner_res)            (* count = 0 and the hint allows it: CounterTask::new: running.fetch_add(1) *)
| S_retry_dec                            (* count = 0 but the hint says blocking: drop RefAutoCounter, return Retry *)
| S_handoff (ir : inner_res)             (* inner_sender.send(counter_task) *)
| S_ok_dec                               (* inner answered Ok: drop RefAutoCounter, return Ok *)
| S_err_task_dec (r : send_result)       (* inner answered an error: the CounterTask is dropped: running.fetch_sub(1) *)
| S_err_dec (r : send_result)            (* then drop RefAutoCounter, return Err *)
| S_blocked_dec                          (* count > 0: drop(counter) *)
| S_enqueue                              (* queue_sender.send(cmd_task) *)
| S_load2                                (* second get_blocking_state *)
| R_recv                                 (* release_all: queue_receiver.try_recv() *)
| R_redispatch (task : nat)              (* release_all: blocking_task_sender.send(task) *)
| B_start_load (polls : nat)             (* compare_and_apply of BlockingHandle::new: load *)
| B_start_cas (polls : nat) (c t : N)    (* ... compare_exchange expecting (c, t) *)
| B_poll (n : nat)                       (* handle held: blocking_done(): running.load; n >= 1 polls left *)
| B_drop_load                            (* compare_and_apply of Drop for BlockingHandle: load *)
| B_drop_cas (c t : N)                   (* ... compare_exchange expecting (c, t) *)
| I_run                                  (* an in-flight command: its completion drops the CounterTask *)
| Fin (r : send_result)                  (* returned (blockers, stoppers, in-flight commands: ROk) *)
| Panicked (holding : bool).             (* thread died in a closure of compare_and_apply; holding = its handle is never released *)

Record shared := mkShared {
  sh_count : N;            (* blocking_state, first half *)
  sh_term : N;             (* blocking_state, second half *)
  sh_running : Z;          (* running_cmd *)
  sh_queue : list nat;     (* crossbeam channel, oldest first; a task is named by the id of its sender thread *)
  sh_rx_alive : bool;      (* the receiver half exists (always: BlockingHandleInner owns it) *)
  sh_hand : list nat;      (* log of hand-offs to the inner sender, newest first *)
  sh_redisp : list nat;    (* log of re-dispatches, newest first *)
  sh_enq : list nat;       (* ghost: log of enqueues, newest first *)
  sh_sealed : bool         (* ghost: a blocker saw running = 0 and count has been > 0 ever since *)
}.

Record state := mkState { st_sh : shared; st_threads : list pc }.

Inductive event :=
| EvSkip                                  (* no such thread, or it has finished *)
| EvRefInc | EvRefDec | EvTaskInc | EvTaskDec
| EvStateLoad (c t : N)
| EvHandoff (task : nat) (ir : inner_res)
| EvEnqueue (task : nat)
| EvEnqueueFailed
| EvRecv (task : nat)
| EvRecvEmpty
| EvRedispatch (task : nat)
| EvCasLoad (c t : N)
| EvCasOk (c t : N)                       (* previous values *)
| EvCasFail
| EvDoneLoad (done : bool)
| EvPanic (why : panic_reason).

(* the match of `send` on the hint, taken when the loaded count is 0: true = "blocking" = reply Retry *)
Definition hint_blocks (h : hint) (term : N) : bool :=
  match h with
  | HNotBlocking => false
  | HNotBlockingInMigration cmd_term => negb (term <=? cmd_term)
  | HBlocking => true
  end.

Definition set_running (sh : shared) (r : Z) : shared :=
  mkShared (sh_count sh) (sh_term sh) r (sh_queue sh) (sh_rx_alive sh) (sh_hand sh) (sh_redisp sh) (sh_enq sh) (sh_sealed sh).
Definition set_state (sh : shared) (c t : N) (sealed : bool) : shared :=
  mkShared c t (sh_running sh) (sh_queue sh) (sh_rx_alive sh) (sh_hand sh) (sh_redisp sh) (sh_enq sh) sealed.
Definition set_queue (sh : shared) (q : list nat) : shared :=
  mkShared (sh_count sh) (sh_term sh) (sh_running sh) q (sh_rx_alive sh) (sh_hand sh) (sh_redisp sh) (sh_enq sh) (sh_sealed sh).
Definition push_enq (sh : shared) (task : nat) : shared :=
  mkShared (sh_count sh) (sh_term sh) (sh_running sh) (sh_queue sh ++ [task]) (sh_rx_alive sh) (sh_hand sh) (sh_redisp sh)
           (task :: sh_enq sh) (sh_sealed sh).
Definition push_hand (sh : shared) (task : nat) : shared :=
  mkShared (sh_count sh) (sh_term sh) (sh_running sh) (sh_queue sh) (sh_rx_alive sh) (task :: sh_hand sh) (sh_redisp sh)
           (sh_enq sh) (sh_sealed sh).
Definition push_redisp (sh : shared) (task : nat) : shared :=
  mkShared (sh_count sh) (sh_term sh) (sh_running sh) (sh_queue sh) (sh_rx_alive sh) (sh_hand sh) (task :: sh_redisp sh)
           (sh_enq sh) (sh_sealed sh).
Definition set_sealed (sh : shared) (b : bool) : shared :=
  mkShared (sh_count sh) (sh_term sh) (sh_running sh) (sh_queue sh) (sh_rx_alive sh) (sh_hand sh) (sh_redisp sh) (sh_enq sh) b.

(* pc after a successful start CAS / after a failed poll *)
Definition after_start (polls : nat) : pc :=
  match polls with O => B_drop_load | S _ => B_poll polls end.
Definition after_failed_poll (n : nat) : pc :=
  match n with S (S m) => B_poll (S m) | _ => B_drop_load end.

(* one atomic action of thread `tid` standing at `p`:
   new shared state, new pc, threads spawned (appended to the pool), event *)
Definition thread_step (sh : shared) (tid : nat) (p : pc) : shared * pc * list pc * event :=
  match p with
  | S_ref_inc h ir => (set_running sh (sh_running sh + 1)%Z, S_load1 h ir, [], EvRefInc)
  | S_load1 h ir =>
    let c := sh_count sh in let t := sh_term sh in
    (sh,
     if 0 <? c then S_blocked_dec
     else if hint_blocks h t then S_retry_dec else S_task_inc ir,
     [], EvStateLoad c t)
  | S_task_inc ir => (set_running sh (sh_running sh + 1)%Z, S_handoff ir, [], EvTaskInc)
  | S_retry_dec => (set_running sh (sh_running sh - 1)%Z, Fin RRetry, [], EvRefDec)
  | S_handoff ir =>
    match ir with
    | IOk => (push_hand sh tid, S_ok_dec, [I_run], EvHandoff tid ir)
    | IRetry => (push_hand sh tid, S_err_task_dec RRetry, [], EvHandoff tid ir)
    | ICanceled => (push_hand sh tid, S_err_task_dec RCanceled, [], EvHandoff tid ir)
    end
  | S_ok_dec => (set_running sh (sh_running sh - 1)%Z, Fin ROk, [], EvRefDec)
  | S_err_task_dec r => (set_running sh (sh_running sh - 1)%Z, S_err_dec r, [], EvTaskDec)
  | S_err_dec r => (set_running sh (sh_running sh - 1)%Z, Fin r, [], EvRefDec)
  | S_blocked_dec => (set_running sh (sh_running sh - 1)%Z, S_enqueue, [], EvRefDec)
  | S_enqueue =>
    if sh_rx_alive sh then (push_enq sh tid, S_load2, [], EvEnqueue tid)
    else (sh, Fin RCanceled, [], EvEnqueueFailed)
  | S_load2 =>
    let c := sh_count sh in let t := sh_term sh in
    (sh, if 0 <? c then Fin ROk else R_recv, [], EvStateLoad c t)
  | R_recv =>
    match sh_queue sh with
    | [] => (sh, Fin ROk, [], EvRecvEmpty)
    | task :: q => (set_queue sh q, R_redispatch task, [], EvRecv task)
    end
  | R_redispatch task => (push_redisp sh task, R_recv, [], EvRedispatch task)
  | B_start_load polls =>
    let c := sh_count sh in let t := sh_term sh in
    if (c =? U32_MAX) || (t =? U32_MAX) then (sh, Panicked false, [], EvPanic PAddOverflow)
    else (sh, B_start_cas polls c t, [], EvCasLoad c t)
  | B_start_cas polls c t =>
    if (sh_count sh =? c) && (sh_term sh =? t)
    then (set_state sh (c + 1) (t + 1) (sh_sealed sh), after_start polls, [], EvCasOk c t)
    else (sh, B_start_load polls, [], EvCasFail)
  | B_poll n =>
    if (sh_running sh =? 0)%Z then (set_sealed sh true, B_drop_load, [], EvDoneLoad true)
    else (sh, after_failed_poll n, [], EvDoneLoad false)
  | B_drop_load =>
    let c := sh_count sh in let t := sh_term sh in
    if c =? 0 then (sh, Panicked true, [], EvPanic PSubOverflow)
    else if t =? U32_MAX then (sh, Panicked true, [], EvPanic PAddOverflow)
    else (sh, B_drop_cas c t, [], EvCasLoad c t)
  | B_drop_cas c t =>
    if (sh_count sh =? c) && (sh_term sh =? t)
    then (set_state sh (c - 1) (t + 1) (if c - 1 =? 0 then false else sh_sealed sh),
          if c =? 1 then R_recv else Fin ROk, [], EvCasOk c t)
    else (sh, B_drop_load, [], EvCasFail)
  | I_run => (set_running sh (sh_running sh - 1)%Z, Fin ROk, [], EvTaskDec)
  | Fin r => (sh, Fin r, [], EvSkip)
  | Panicked b => (sh, Panicked b, [], EvSkip)
  end.

(* own copies of nth_error / forallb / filter-length: extracting Coq's List module would shadow OCaml's List *)
Fixpoint nth_opt {A : Type} (l : list A) (i : nat) : option A :=
  match l, i with
  | [], _ => None
  | x :: _, O => Some x
  | _ :: r, S j => nth_opt r j
  end.
Fixpoint allb {A : Type} (f : A -> bool) (l : list A) : bool :=
  match l with [] => true | x :: r => f x && allb f r end.
Fixpoint countb {A : Type} (f : A -> bool) (l : list A) : nat :=
  match l with [] => O | x :: r => if f x then S (countb f r) else countb f r end.

Fixpoint upd {A : Type} (l : list A) (i : nat) (x : A) : list A :=
  match l, i with
  | [], _ => []
  | _ :: r, O => x :: r
  | y :: r, S j => y :: upd r j x
  end.

Definition step (st : state) (tid : nat) : state * event :=
  match nth_opt (st_threads st) tid with
  | None => (st, EvSkip)
  | Some p =>
    match thread_step (st_sh st) tid p with
    | (sh', p', spawn, ev) => (mkState sh' (upd (st_threads st) tid p' ++ spawn), ev)
    end
  end.

(* a run on a schedule: thread ids that do not exist (yet) or have finished are skipped (EvSkip, state unchanged) *)
Fixpoint exec (st : state) (sched : list nat) : list (nat * event * state) :=
  match sched with
  | [] => []
  | tid :: rest => let (st', ev) := step st tid in (tid, ev, st') :: exec st' rest
  end.

Fixpoint final (st : state) (sched : list nat) : state :=
  match sched with
  | [] => st
  | tid :: rest => final (fst (step st tid)) rest
  end.

(* initial states: every thread at the entry of its function; `running` counts the commands already in flight *)
Definition is_initial_pc (p : pc) : bool :=
  match p with
  | S_ref_inc _ _ | B_start_load _ | R_recv | I_run => true
  | _ => false
  end.
Definition is_inflight (p : pc) : bool := match p with I_run => true | _ => false end.

Definition init_state (term0 : N) (ths : list pc) : state :=
  mkState (mkShared 0 term0 (Z.of_nat (countb is_inflight ths)) [] true [] [] [] false) ths.

Definition initial (st : state) : Prop :=
  exists term0 ths, allb is_initial_pc ths = true /\ st = init_state term0 ths.

Definition is_finished (p : pc) : bool :=
  match p with Fin _ | Panicked _ => true | _ => false end.
Definition quiescent (st : state) : bool := allb is_finished (st_threads st).

(* a thread that will run (or is running) the release loop without any further condition on other threads *)
Definition will_release (p : pc) : bool :=
  match p with S_load2 | R_recv | R_redispatch _ => true | _ => false end.

(* the thread holds a unit of `running`: a sender between its RefAutoCounter increment and the matching decrement
   (twice while it also owns the CounterTask), or a command in flight *)
Definition holds_ref (p : pc) : bool :=
  match p with
  | S_load1 _ _ | S_task_inc _ | S_retry_dec | S_handoff _ | S_ok_dec | S_err_task_dec _ | S_err_dec _ | S_blocked_dec
  | I_run => true
  | _ => false
  end.

Definition is_handoff (e : event) : bool := match e with EvHandoff _ _ => true | _ => false end.

(* labels of the scheduling points (the strings passed to verif_sched::point) *)
Inductive label :=
| L_ref_inc | L_ref_dec | L_task_inc | L_task_dec | L_state_load | L_handoff | L_enqueue | L_try_recv | L_redispatch
| L_cas_load | L_cas_cas | L_done_load | L_fin (r : send_result) | L_panic.

Definition pc_label (p : pc) : label :=
  match p with
  | S_ref_inc _ _ => L_ref_inc
  | S_load1 _ _ => L_state_load
  | S_task_inc _ => L_task_inc
  | S_retry_dec => L_ref_dec
  | S_handoff _ => L_handoff
  | S_ok_dec => L_ref_dec
  | S_err_task_dec _ => L_task_dec
  | S_err_dec _ => L_ref_dec
  | S_blocked_dec => L_ref_dec
  | S_enqueue => L_enqueue
  | S_load2 => L_state_load
  | R_recv => L_try_recv
  | R_redispatch _ => L_redispatch
  | B_start_load _ => L_cas_load
  | B_start_cas _ _ _ => L_cas_cas
  | B_poll _ => L_done_load
  | B_drop_load => L_cas_load
  | B_drop_cas _ _ => L_cas_cas
  | I_run => L_task_dec
  | Fin r => L_fin r
  | Panicked _ => L_panic
  end.

(* ---- counter abstraction: how many threads stand at each program point ---- *)
Inductive pclass :=
| C_s0 | C_s1 | C_s2f | C_s2r | C_s3 | C_s4 | C_s4e | C_s4f | C_s6 | C_s7 | C_s8
| C_rr | C_rh | C_b0 | C_b0c | C_b1 | C_bd | C_bdc | C_bp | C_inf | C_fin.

Definition cls (p : pc) : pclass :=
  match p with
  | S_ref_inc _ _ => C_s0
  | S_load1 _ _ => C_s1
  | S_task_inc _ => C_s2f
  | S_retry_dec => C_s2r
  | S_handoff _ => C_s3
  | S_ok_dec => C_s4
  | S_err_task_dec _ => C_s4e
  | S_err_dec _ => C_s4f
  | S_blocked_dec => C_s6
  | S_enqueue => C_s7
  | S_load2 => C_s8
  | R_recv => C_rr
  | R_redispatch _ => C_rh
  | B_start_load _ => C_b0
  | B_start_cas _ _ _ => C_b0c
  | B_poll _ => C_b1
  | B_drop_load => C_bd
  | B_drop_cas _ _ => C_bdc
  | I_run => C_inf
  | Fin _ => C_fin
  | Panicked true => C_bp
  | Panicked false => C_fin
  end.

Definition pclass_eqb (a b : pclass) : bool :=
  match a, b with
  | C_s0, C_s0 | C_s1, C_s1 | C_s2f, C_s2f | C_s2r, C_s2r | C_s3, C_s3 | C_s4, C_s4 | C_s4e, C_s4e | C_s4f, C_s4f
  | C_s6, C_s6 | C_s7, C_s7 | C_s8, C_s8 | C_rr, C_rr | C_rh, C_rh | C_b0, C_b0 | C_b0c, C_b0c | C_b1, C_b1
  | C_bd, C_bd | C_bdc, C_bdc | C_bp, C_bp | C_inf, C_inf | C_fin, C_fin => true
  | _, _ => false
  end.

(* indicator and count, in Z so that the invariant is linear arithmetic *)
Definition ind (a b : pclass) : Z := if pclass_eqb a b then 1%Z else 0%Z.
Fixpoint cnt (c : pclass) (ths : list pc) : Z :=
  match ths with
  | [] => 0%Z
  | p :: r => (ind c (cls p) + cnt c r)%Z
  end.

Record ashared := mkAShared {
  a_count : Z; a_running : Z; a_queue : Z; a_enq : Z; a_redisp : Z; a_rx : bool; a_sealed : bool
}.
Record astate := mkAState { a_sh : ashared; a_cnt : pclass -> Z }.

Definition abs_sh (sh : shared) : ashared :=
  mkAShared (Z.of_N (sh_count sh)) (sh_running sh) (Z.of_nat (length (sh_queue sh)))
            (Z.of_nat (length (sh_enq sh))) (Z.of_nat (length (sh_redisp sh))) (sh_rx_alive sh) (sh_sealed sh).
Definition abs (st : state) : astate := mkAState (abs_sh (st_sh st)) (fun c => cnt c (st_threads st)).

(* the tasks held by threads inside the release loop, between try_recv and the re-dispatch *)
Fixpoint held (ths : list pc) : list nat :=
  match ths with
  | [] => []
  | R_redispatch task :: r => task :: held r
  | _ :: r => held r
  end.

(* sender thread `p` is past its enqueue *)
Definition past_enqueue (p : pc) : bool :=
  match p with S_load2 | R_recv | R_redispatch _ | Fin _ => true | _ => false end.
